#!/bin/sh
# usage: tools/run_all.sh [quick|thorough]  -- every claimed check, one after the other, on /repo as it stands
tier="${1:-quick}"; cd /verif
git -C /repo diff --quiet || echo "WARNING: /repo has local changes" >&2
bad=0
for c in C01 C02 C03 C04 C05 C06 C07 C08 C09 C10 C11 C12 C13 C14 C15 C16 C17 C18; do
  s=$(date +%s)
  out=$(./check $c $tier 2>&1); rc=$?
  echo "$c rc=$rc $(( $(date +%s) - s ))s $(echo "$out" | grep -E "^$c $tier:" | tail -1)"
  echo "$out" | grep -E "^(VIOLATION|KNOWN-FINDING)" | head -5
  [ $rc -ne 0 ] && bad=1
done
exit $bad
