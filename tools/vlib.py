"""Driver library: TLC runs, walk generation, replay through the Rust harness, classification by
slice ownership (DESIGN.md 2.4), evidence and replay files."""
import json, os, subprocess, sys, time, hashlib, random, shutil

ROOT = os.path.dirname(os.path.dirname(os.path.abspath(__file__)))
SPEC = os.path.join(ROOT, 'spec')
WORK = os.path.join(ROOT, 'work')
HARNESS = os.path.join(ROOT, 'harness')
CONFORM = os.path.join(HARNESS, 'target', 'debug', 'conform')
sys.path.insert(0, os.path.join(ROOT, 'tools'))
import graph as G


class ToolError(Exception):
    pass


def log(*a):
    print(*a, file=sys.stderr, flush=True)


def build_harness():
    t = time.time()
    env = dict(os.environ, CARGO_NET_OFFLINE='true')
    p = subprocess.run(['cargo', 'build', '--offline'], cwd=HARNESS, env=env, stdout=subprocess.PIPE,
                       stderr=subprocess.STDOUT, text=True)
    if p.returncode != 0:
        log(p.stdout[-6000:])
        raise ToolError('harness build failed')
    return time.time() - t


def run_tlc(spec, outdir, workers=8, timeout=1800, extra_env=None, cfg=None, extra_args=()):
    os.makedirs(outdir, exist_ok=True)
    out = os.path.join(outdir, 'tlc.out')
    meta = os.path.join(outdir, 'meta')
    shutil.rmtree(meta, ignore_errors=True)
    env = dict(os.environ)
    env['JAVA_TOOL_OPTIONS'] = '-Xss512m'
    if extra_env:
        env.update(extra_env)
    cmd = ['timeout', str(timeout), 'tlc', '-workers', str(workers), '-metadir', meta, '-cleanup',
           '-noGenerateSpecTE', '-config', (cfg or spec) + '.cfg', *extra_args, spec + '.tla']
    t = time.time()
    with open(out, 'w') as f:
        p = subprocess.run(cmd, cwd=SPEC, env=env, stdout=f, stderr=subprocess.STDOUT)
    shutil.rmtree(meta, ignore_errors=True)
    return out, p.returncode, time.time() - t


def tlc_graph(spec, outdir, workers=8, timeout=1800, cfg=None):
    out, rc, secs = run_tlc(spec, outdir, workers, timeout, cfg=cfg)
    inst, edges, stats = G.parse_tlc(out)
    if rc == 124:
        raise ToolError('TLC timed out on %s' % spec)
    if rc != 0 or stats['distinct'] is None or inst is None:
        # an invariant violation of the specification itself is a design-level failure: report loudly
        raise ToolError('TLC failed on %s (rc=%s): %s\n%s' % (spec, rc, stats['error'], '\n'.join(stats['log_tail'][-25:])))
    stats['tlc_s'] = round(secs, 1)
    return inst, edges, stats


def replay(module, walks_path, out_path, threads=16, timeout=3600):
    p = subprocess.run(['timeout', str(timeout), CONFORM, 'replay', module, walks_path, out_path, str(threads)],
                       stdout=subprocess.PIPE, stderr=subprocess.STDOUT, text=True)
    if p.returncode != 0:
        raise ToolError('conform replay failed rc=%s: %s' % (p.returncode, p.stdout[-3000:]))
    return [json.loads(l) for l in open(out_path)]


AUTH_GUARDS = {'named_auth', 'gas_auth', 'role_auth', 'operator_auth', 'collector_auth', 'upgrade_auth', 'migrate_auth'}


def owned_field(field, prefixes):
    return any(field == p or field.startswith(p + '.') or p == '*' for p in prefixes)


def classify(div, policy):
    """-> ('violation'|'foreign'|'drift'|'known', reason)"""
    exp = div.get('exp', {})
    kind = div['kind']
    og = set(policy.get('guards', []))
    fails = set(exp.get('fails', []))
    if kind == 'init':
        return 'foreign', 'initial projection differs'
    if kind == 'outcome':
        if exp.get('free'):
            return 'drift', 'statement leaves this outcome open; code differs from as-coded branch'
        if div['code_ok'] and not div['spec_ok']:
            if fails & og or '*' in og:
                return 'violation', 'accepted although guard(s) %s fail' % sorted(fails & og or fails)
            # WHO may make a call is owned by the properties about authorisation (C06, C07, and the properties that name
            # an authoriser themselves); a call that goes through without the authorisation it needs does what the
            # authorised call does, which this property checks on the authorised edges.  An unauthorised call that went
            # through is therefore not this property's finding merely because it moved fields this property owns.
            if fails and fails <= AUTH_GUARDS:
                return 'foreign', 'accepted although authorisation guard(s) %s fail (owned by the authorisation properties)' % sorted(fails)
            # composed instances: the refusal belongs wholly to the contract in FRONT of this property's contract (its
            # guards are another property's); what reaches this property's contract is then a well-formed call
            if fails and fails <= set(policy.get('upstream_guards', [])):
                return 'foreign', 'accepted although the upstream contract\'s guard(s) %s fail' % sorted(fails)
            # "refused calls change nothing": a call the specification refuses (whoever owns the guard) that went
            # through and moved state this property owns
            fields_ = [d['field'] for d in div.get('diffs', [])]
            own_ = list(policy.get('fields', [])) + list(policy.get('act_fields', {}).get(div.get('act', {}).get('name'), []))
            mine_ = [f for f in fields_ if owned_field(f, own_)]
            if mine_:
                return 'violation', 'a call the specification refuses (%s) went through and changed %s' % (sorted(fails), mine_)
            return 'foreign', 'accepted although foreign guard(s) %s fail' % sorted(fails)
        # spec accepts, code rejects: charged only through the control rule
        c = div.get('control_ok')
        full = all(t == 'Valid' for t in div.get('act', {}).get('proof', {}).get('sigs', []))
        if div.get('act', {}).get('name') in policy.get('complete_actions', []) and \
                (policy.get('complete_when') != 'full_proof' or full):
            return 'violation', 'rejected although the specification accepts (the statement promises acceptance for this entry point)'
        if c is True:
            return 'violation', 'rejected although the specification accepts, and the control with this property\'s dimension relaxed is accepted'
        if c is None and policy.get('complete_without_control'):
            return 'violation', 'rejected although the specification accepts (statement is complete for this entry point)'
        return 'foreign', 'rejected although the specification accepts; control %s' % ('also rejected' if c is False else 'not defined')
    def state_part():
        fields = [d['field'] for d in div.get('diffs', [])]
        own = list(policy.get('fields', [])) + list(policy.get('act_fields', {}).get(div.get('act', {}).get('name'), []))
        return [f for f in fields if owned_field(f, own)]
    if kind == 'ret':
        name = div['act']['name']
        if name in policy.get('rets', []) or '*' in policy.get('rets', []):
            return 'violation', 'returned value differs'
        if state_part():
            return 'violation', 'state differs in %s (and the returned value differs)' % state_part()
        return 'foreign', 'returned value differs (foreign)'
    if kind == 'events':
        kinds = set(e.get('k') for e in div.get('spec', []) + div.get('code', []))
        oe = set(policy.get('events', []))
        if kinds & oe or '*' in oe:
            return 'violation', 'events differ: %s' % sorted(kinds & oe or kinds)
        if state_part():
            return 'violation', 'state differs in %s (and foreign events differ)' % state_part()
        return 'foreign', 'events differ (foreign kinds %s)' % sorted(kinds)
    if kind == 'state':
        fields = [d['field'] for d in div['diffs']]
        own = list(policy.get('fields', [])) + list(policy.get('act_fields', {}).get(div.get('act', {}).get('name'), []))
        mine = [f for f in fields if owned_field(f, own)]
        if mine:
            return 'violation', 'state differs in %s' % mine
        return 'foreign', 'state differs in foreign fields %s' % fields
    if kind in ('frame', 'frame_events'):
        if fails & og or '*' in og:
            return 'violation', 'a call refused by %s changed observable state' % sorted(fails & og or fails)
        return 'foreign', 'refused call changed state (foreign guard)'
    return 'foreign', 'unclassified ' + kind


def match_known(div, prop, known):
    """a divergence is a recorded finding only if the entry's matcher accepts it"""
    for k in known:
        if k.get('status') != 'known' or k.get('property') != prop:
            continue
        m = k.get('match', {})
        a = div.get('act', {})
        exp = div.get('exp', {})
        if m.get('action') and a.get('name') not in (m['action'] if isinstance(m['action'], list) else [m['action']]):
            continue
        if m.get('kind') and div.get('kind') != m['kind']:
            continue
        if 'only_failing_guard' in m and exp.get('fails') != [m['only_failing_guard']]:
            continue
        if 'act' in m and any(a.get(x) != v for x, v in m['act'].items()):
            continue
        if m.get('act_pred') == 'supply_positive_and_third_party_minter' and not (
                a.get('supply', 0) > 0 and a.get('minter') not in (None, 'none', 'its')):
            continue
        if 'diff_fields' in m:
            got = sorted(d['field'] for d in div.get('diffs', []))
            if not all(any(g == f or g.startswith(f) for f in m['diff_fields']) for g in got):
                continue
        return k
    return None


def load_known():
    p = os.path.join(ROOT, 'known_findings.json')
    return json.load(open(p)) if os.path.exists(p) else []


_REPLAYS_WRITTEN = []


def write_replay_file(prop, tier, seed, module, inst, walk, result, verdict, reason):
    os.makedirs(os.path.join(ROOT, 'replays'), exist_ok=True)
    # a broken tree can yield thousands of violating walks: all are counted, the first 40 of a run get a replay file
    # (later ones point at the last file written, which shows the same kind of step)
    if len(_REPLAYS_WRITTEN) >= 40:
        return _REPLAYS_WRITTEN[-1]
    div = result['divergence']
    step = div.get('step', 0)
    body = {'property': prop, 'tier': tier, 'seed': seed, 'module': module, 'inst': inst,
            'walk': {'id': walk['id'], 'init': walk['init'], 'steps': walk['steps'][:max(step, 0) + 1]},
            'failing_step': step, 'divergence': div, 'verdict': verdict, 'reason': reason}
    h = hashlib.sha1(json.dumps(body, sort_keys=True).encode()).hexdigest()[:12]
    path = os.path.join(ROOT, 'replays', '%s-%s.json' % (prop, h))
    with open(path, 'w') as f:
        json.dump(body, f, indent=1)
    _REPLAYS_WRITTEN.append(path)
    return path


def summarize_edges(edges):
    by = {}
    for e in edges:
        k = '%s/%s' % (e['act']['name'], 'ok' if e['exp']['ok'] else e['exp']['why'])
        by[k] = by.get(k, 0) + 1
    return by


def graph_job(prop, tier, seed, job, policy, known, acc):
    """One bounded TLC instance: check invariants, dump the graph, replay edge-covering walks."""
    spec = job['spec']
    module = job['module']
    cfgname = job.get('cfg', spec)
    design = None
    if job.get('design_cfg'):
        # the intended design (Deviations = {}): TLC must prove the property's invariants on it; the graph that
        # is replayed comes from the instance with the recorded deviations switched on (cfg)
        dout, drc, dsecs = run_tlc(spec, os.path.join(WORK, prop, job['design_cfg']), workers=job.get('workers', 8),
                                   timeout=job.get('tlc_timeout', 1800), cfg=job['design_cfg'])
        _i, _e, dstats = G.parse_tlc(dout)
        if drc != 0 or dstats['distinct'] is None:
            raise ToolError('TLC failed on the design instance %s (rc=%s): %s\n%s' % (job['design_cfg'], drc, dstats['error'], '\n'.join(dstats['log_tail'][-25:])))
        design = {'cfg': job['design_cfg'], 'states': dstats['distinct'], 'generated': dstats['generated'], 'tlc_s': round(dsecs, 1)}
    outdir = os.path.join(WORK, prop, cfgname + job.get('suffix', ''))
    inst, edges, stats = tlc_graph(spec, outdir, cfg=cfgname, workers=job.get('workers', 8), timeout=job.get('tlc_timeout', 1800))
    g = G.Graph(edges)
    byact = summarize_edges(edges)
    # vacuity guard: every action/outcome the job says it depends on must occur
    for need in job.get('need', []):
        if not any(k.startswith(need) for k in byact):
            raise ToolError('vacuity: no edge %s in %s (have %s)' % (need, spec, sorted(byact)))
    limit = job.get('quick_edges') if tier == 'quick' else job.get('thorough_edges')
    select = None
    exhaustive = True
    if limit is not None and len(edges) > limit:
        rnd = random.Random(seed)
        tree = set(g.node_cover_edges())
        rest = [i for i in range(len(edges)) if i not in tree]
        rnd.shuffle(rest)
        select = set(list(tree) + rest[:max(0, limit - len(tree))])
        exhaustive = False
    walks, unreach = g.cover_walks(select=select, max_len=job.get('max_len', 60), seed=seed)
    if unreach:
        raise ToolError('%d edges unreachable in %s' % (unreach, spec))
    # history diversity: single-guard refusals re-tried right after every moving edge (hidden residue)
    rv = job.get('revisit', {})
    rv_walks = g.revisit_walks(budget=rv.get('quick_budget', 4000) if tier == 'quick' else rv.get('thorough_budget', 30000 if module in ('ITS', 'System') else 200000),
                               seed=seed) if rv is not False else []
    n_cover = len(walks)
    n_arrival = 0
    if rv is not False:
        walks, n_arrival = g.add_arrival_probes(walks, budget=rv.get('quick_arrival_budget', 3000) if tier == 'quick' else rv.get('thorough_arrival_budget', 30000 if module in ('ITS', 'System') else 200000), seed=seed)
    walks = walks + rv_walks
    # accepted a moment ago, refused now (short gap, no long pause in between)
    fl_walks = g.flip_walks(budget=rv.get('quick_flip_budget', 1500) if tier == 'quick' else rv.get('thorough_flip_budget', 8000 if module in ('ITS', 'System', 'Bridge') else 40000),
                            seed=seed) if rv is not False else []
    modes = {len(walks) + i: 'A' for i in range(len(fl_walks))}
    walks = walks + fl_walks
    ctl = job.get('control')
    wpath = os.path.join(outdir, 'walks.ndjson')
    G.write_walks(wpath, inst, g, walks, control=ctl, evkinds=job.get('evkinds'), modes=modes)
    t = time.time()
    results = replay(module, wpath, os.path.join(outdir, 'replay.ndjson'), threads=job.get('threads', 16))
    rsecs = time.time() - t
    walks_by_id = None
    nsteps = 0
    # recorded deviations that were replayed and matched what the code does
    dev_ids = {k.get('deviation'): k for k in known if k.get('status') == 'known' and k.get('property') == prop and k.get('deviation')}
    if any('dev' in s_['exp'] for e_ in [edges] for s_ in e_):
        labelled = {}
        with open(wpath) as f:
            f.readline()
            for l in f:
                w = json.loads(l)
                labelled[w['id']] = [(i, s_['exp']['dev']) for i, s_ in enumerate(w['steps']) if 'dev' in s_['exp']]
        for r in results:
            div = r.get('divergence')
            upto = r['steps_run'] - (1 if div else 0)
            for i, dv in labelled.get(r['walk'], []):
                if i < upto and dv in dev_ids:
                    acc['known'].setdefault(dev_ids[dv]['id'], dev_ids[dv])
    soft_seen = set()
    for r in results:
        for d_ in (r.get('init_soft') or []):
            f_ = d_['field'].split('.')[0]
            if f_ in soft_seen:
                continue
            soft_seen.add(f_)
            owned = f_ in policy.get('fields', []) or f_ in job.get('init_fields', [])
            reason = 'the freshly deployed contract does not report what it was constructed with / what it derives: %s = %s' % (f_, str(d_.get('code'))[:300])
            if owned:
                div0 = {'kind': 'init', 'step': -1, 'diffs': [d_], 'act': None}
                if walks_by_id is None:
                    walks_by_id = {}
                    with open(wpath) as f:
                        f.readline()
                        for l in f:
                            w = json.loads(l)
                            walks_by_id[w['id']] = w
                path = write_replay_file(prop, tier, seed, module, inst, walks_by_id[r['walk']], {'divergence': div0}, 'violation', reason)
                acc['violations'].append({'replay': path, 'reason': reason, 'spec': spec, 'act': None})
            else:
                acc['foreign'].append({'spec': spec, 'kind': 'init', 'act': None, 'reason': reason})
    for r in results:
        nsteps += r['steps_run']
        if r.get('harness_error'):
            raise ToolError('harness error in walk %s of %s: %s' % (r['walk'], spec, r['harness_error']))
        div = r.get('divergence')
        if not div:
            continue
        if div['kind'] == 'intended':
            acc.setdefault('fixed_findings', []).append(div.get('dev'))
            continue
        if div['kind'] == 'init':
            fields = {d_['field'].split('.')[0] for d_ in div.get('diffs', [])}
            # what the constructor was told (role holders, configuration) and reports differently: the property owning
            # the field owns the finding; anything else the harness builds itself and is a tool problem
            if fields and fields <= set(job.get('init_fields', [])) | set(job.get('init_owned', [])):
                # what a freshly constructed contract reports about itself (not something the harness builds)
                if walks_by_id is None:
                    walks_by_id = {}
                    with open(wpath) as f:
                        f.readline()
                        for l in f:
                            w = json.loads(l)
                            walks_by_id[w['id']] = w
                reason = 'the freshly constructed contract does not report what it was constructed with: %s' % sorted(fields)
                path = write_replay_file(prop, tier, seed, module, inst, walks_by_id[r['walk']], r, 'violation', reason)
                acc['violations'].append({'replay': path, 'reason': reason, 'spec': spec, 'act': None})
                continue
            # the constructor reports something another property owns (e.g. a role seated on the wrong address): this
            # instance cannot be walked on such code; it is that property's finding, recorded here, never an alarm
            if not any(f_.get('kind') == 'init' and f_.get('spec') == spec for f_ in acc['foreign']):
                acc['foreign'].append({'spec': spec, 'kind': 'init', 'act': None,
                                       'reason': 'instance not walked: the initial projection differs in %s, which this property does not own: %s' % (sorted(fields), json.dumps(div.get('diffs'))[:300])})
                log('NOTE %s: %s not walked - initial projection differs in fields this property does not own: %s' % (prop, spec, sorted(fields)))
            continue
        if walks_by_id is None:
            walks_by_id = {}
            with open(wpath) as f:
                f.readline()
                for l in f:
                    w = json.loads(l)
                    walks_by_id[w['id']] = w
        if job.get('selfcheck'):
            raise ToolError('harness self-check %s failed: %s' % (module, json.dumps(div)[:800]))
        # composed instances project several contracts side by side ("A.bal", "B.bal"): ownership is by the plain name
        for pre_ in job.get('field_prefixes', []):
            for d_ in div.get('diffs', []) or []:
                if d_['field'].startswith(pre_):
                    d_['field_full'] = d_['field']
                    d_['field'] = d_['field'][len(pre_):]
        verdict, reason = classify(div, dict(policy, **job.get('policy_extra', {})))
        if verdict == 'violation':
            k = match_known(div, prop, known)
            if k:
                acc['known'].setdefault(k['id'], k)
                continue
            path = write_replay_file(prop, tier, seed, module, inst, walks_by_id[r['walk']], r, verdict, reason)
            acc['violations'].append({'replay': path, 'reason': reason, 'spec': spec, 'act': div.get('act')})
        elif verdict == 'drift':
            acc['drift'].append({'spec': spec, 'act': div.get('act'), 'reason': reason})
        else:
            acc['foreign'].append({'spec': spec, 'kind': div['kind'], 'act': div.get('act', {}).get('name'), 'reason': reason})
    distinct_nontrivial = len({G.canon([e['act'], e['_pre']]) for i, e in enumerate(edges) if select is None or i in select})
    acc['jobs'].append({'spec': spec, 'cfg': cfgname, 'design_run': design, 'module': module, 'states': stats['distinct'], 'transitions': len(edges),
                        'tlc_generated': stats['generated'], 'depth': stats['depth'], 'tlc_s': stats['tlc_s'],
                        'edges_replayed': len(edges) if select is None else len(select), 'walks': len(walks), 'revisit_walks': len(rv_walks), 'arrival_probes': n_arrival, 'flip_walks': len(fl_walks),
                        'steps_executed': nsteps, 'replay_s': round(rsecs, 1), 'exhaustive_replay': exhaustive,
                        'edges_by_action_outcome': byact, 'distinct_nontrivial': distinct_nontrivial})
    if not acc.get('sample'):
        w0 = json.loads(open(wpath).readlines()[1])
        acc['sample'] = {'spec': spec, 'walk': [{'act': s['act'], 'expect_ok': s['exp']['ok'], 'why': s['exp']['why']} for s in w0['steps'][:8]]}


def parse_trace_out(path):
    res, done, err = [], None, None
    tail = []
    disc = False
    devs = []
    for line in open(path, errors='replace'):
        if line.startswith('<<"TRES", '):
            res.append(G._unq(line, 'TRES'))
        elif line.startswith('<<"DEV", '):
            devs.append(line.split('"')[3])
        elif line.startswith('<<"DISCONTINUITY"'):
            err = err or ('log not continuous at line ' + line.strip())
            done = None
            disc = True
        elif line.startswith('<<"TRACE_DONE"'):
            if disc:
                continue
            p = line.strip().strip('<>').split(',')
            done = (int(p[1]), int(p[2]))
        else:
            tail.append(line.rstrip())
            if line.startswith('Error:') and err is None:
                err = line.strip()
    parse_trace_out.devs = devs
    return res, done, err, tail[-25:]


def trace_job(prop, tier, seed, job, policy, known, acc):
    """impl -> spec: seeded random driver against the real contracts, log validated by TLC."""
    module = job['module']
    runs, steps = job[tier]
    outdir = os.path.join(WORK, prop, 'trace_' + module)
    os.makedirs(outdir, exist_ok=True)
    trace = os.path.join(outdir, 'trace.ndjson')
    t = time.time()
    p = subprocess.run(['timeout', '3000', CONFORM, 'drive', module, str(seed), str(runs), str(steps), trace],
                       stdout=subprocess.PIPE, stderr=subprocess.STDOUT, text=True)
    if p.returncode != 0:
        raise ToolError('conform drive failed: ' + p.stdout[-2000:])
    dsecs = time.time() - t
    nlines = sum(1 for _ in open(trace))
    out, rc, tsecs = run_tlc(job['spec'], outdir, workers=1, timeout=job.get('tlc_timeout', 1800),
                             extra_env={'TRACE': trace, 'JAVA_TOOL_OPTIONS': '-Xss1g -Dtlc2.tool.queue.IStateQueue=StateDeque'})
    res, done, err, tail = parse_trace_out(out)
    if rc == 124:
        raise ToolError('TLC timed out validating the trace')
    unconsumed = None
    if done is None or done[1] != nlines:
        unconsumed = 'trace not consumed (%s of %d lines): %s\n%s' % (done, nlines, err, '\n'.join(tail))
        # An implementation that has left the state space of the specification (a hole in a lookup, an amount off
        # the lattice) can make the evaluation of a LATER line fail.  The mismatches reported before that point
        # stand; only if none of them is a violation of this property is the unconsumed trace a tool error.
        if err is None or 'log not continuous' in err or not res:
            raise ToolError(unconsumed)
    nviol0 = len(acc['violations'])
    for dv in set(parse_trace_out.devs):
        for k in known:
            if k.get('status') == 'known' and k.get('property') == prop and k.get('deviation') == dv:
                acc['known'].setdefault(k['id'], k)
    # run boundaries: a walk of the graph stops at its first divergence; a recorded run goes on, and after a divergence
    # that is NOT this property's (a foreign or open outcome: the specification's state and the contract's are no longer
    # the same) later lines of the same run differ as a consequence.  Those follow-on differences are not findings.
    resets = []
    for i, l_ in enumerate(open(trace), 1):
        if '"reset"' in l_:
            try:
                if json.loads(l_).get('reset') is True:
                    resets.append(i)
            except ValueError:
                pass
    import bisect
    tainted = {}
    for r in sorted(res, key=lambda x: x.get('l', 0)):
        div = dict(r)
        run_ = bisect.bisect_right(resets, r.get('l', 0))
        if div['kind']:
            verdict, reason = classify(div, policy)
            if verdict == 'violation' and run_ in tainted and div['kind'] in ('state', 'events', 'ret', 'frame', 'frame_events', 'invariant'):
                verdict, reason = 'foreign', 'follow-on of the divergence at line %d of the same run (%s)' % tainted[run_]
            elif verdict in ('foreign', 'drift') and div['kind'] in ('outcome', 'state') and run_ not in tainted:
                tainted[run_] = (r.get('l', 0), reason[:80])
        else:
            verdict, reason = 'foreign', 'line matches'
        if r.get('dev') and r['dev'] != 'none' and not div['kind']:
            # the line IS the recorded deviation (matched as such); the design invariant it breaks is the finding itself
            for k in known:
                if k.get('status') == 'known' and k.get('property') == prop and k.get('deviation') == r['dev']:
                    acc['known'].setdefault(k['id'], k)
            continue
        if verdict != 'violation' and r.get('inv'):
            # a design invariant fails on a state the implementation visited
            mine = [i for i in r['inv'] if i in policy.get('invariants', [])]
            div['kind'] = div['kind'] or 'invariant'
            if mine:
                verdict, reason = 'violation', 'state invariant(s) %s fail on a state the implementation reached' % mine
            elif verdict != 'drift':
                verdict, reason = 'foreign', 'foreign state invariant(s) %s fail' % r['inv']
        if verdict == 'violation':
            k = match_known(div, prop, known)
            if k:
                acc['known'].setdefault(k['id'], k)
                continue
            body = {'property': prop, 'tier': tier, 'seed': seed, 'kind': 'trace', 'module': module, 'spec': job['spec'],
                    'runs': runs, 'steps': steps, 'line': r['l'], 'divergence': div, 'reason': reason,
                    'record': open(trace).readlines()[r['l'] - 1].strip()}
            os.makedirs(os.path.join(ROOT, 'replays'), exist_ok=True)
            h = hashlib.sha1(json.dumps(body, sort_keys=True).encode()).hexdigest()[:12]
            path = os.path.join(ROOT, 'replays', '%s-trace-%s.json' % (prop, h))
            if len(_REPLAYS_WRITTEN) < 40:
                json.dump(body, open(path, 'w'), indent=1)
                _REPLAYS_WRITTEN.append(path)
            else:
                path = _REPLAYS_WRITTEN[-1]
            acc['violations'].append({'replay': path, 'reason': reason, 'spec': job['spec'], 'act': r.get('act')})
        elif verdict == 'drift':
            acc['drift'].append({'spec': job['spec'], 'act': r.get('act'), 'reason': reason})
        else:
            acc['foreign'].append({'spec': job['spec'], 'kind': div['kind'], 'act': r.get('act', {}).get('name'), 'reason': reason})
    if unconsumed and len(acc['violations']) == nviol0:
        raise ToolError(unconsumed)
    # what the trace looked like
    names = {}
    sample = []
    with open(trace) as f:
        f.readline()
        for i, l in enumerate(f):
            o = json.loads(l)
            if o.get('reset'):
                continue
            k = '%s/%s' % (o['act']['name'], 'ok' if o['obs']['ok'] else 'rejected')
            names[k] = names.get(k, 0) + 1
            if len(sample) < 4:
                sample.append({'act': o['act'], 'ok': o['obs']['ok']})
    acc['jobs'].append({'spec': job['spec'], 'module': module, 'traces': runs, 'trace_events': nlines - 1 - runs,
                        'mismatches': len(res), 'drive_s': round(dsecs, 1), 'tlc_s': round(tsecs, 1),
                        'events_by_action_outcome': names,
                        'distinct_nontrivial': len(names)})
    acc.setdefault('trace_samples', []).append({'trace_of': module, 'events': sample})


def codec_job(prop, tier, seed, job, policy, known, acc):
    """random codec cases recorded from the contract's abi_encode / abi_decode, validated by TraceAbi.tla"""
    n = job[tier]
    outdir = os.path.join(WORK, prop, 'trace_Abi')
    os.makedirs(outdir, exist_ok=True)
    trace = os.path.join(outdir, 'cases.ndjson')
    p = subprocess.run(['timeout', '3000', CONFORM, 'drive', 'Abi', str(seed), '1', str(n), trace],
                       stdout=subprocess.PIPE, stderr=subprocess.STDOUT, text=True)
    if p.returncode != 0:
        raise ToolError('conform drive Abi failed: ' + p.stdout[-2000:])
    nlines = sum(1 for _ in open(trace))
    out, rc, tsecs = run_tlc(job['spec'], outdir, workers=1, timeout=job.get('tlc_timeout', 3600),
                             extra_env={'TRACE': trace, 'JAVA_TOOL_OPTIONS': '-Xss1g -Dtlc2.tool.queue.IStateQueue=StateDeque'})
    res, done, err, tail = parse_trace_out(out)
    if done is None or done[1] != nlines:
        raise ToolError('codec cases not consumed (%s of %d lines): %s\n%s' % (done, nlines, err, '\n'.join(tail)))
    lines = None
    for r in res:
        if lines is None:
            lines = open(trace).readlines()
        body = {'property': prop, 'tier': tier, 'seed': seed, 'kind': 'codec_case', 'line': r['l'], 'problem': r['kind'],
                'spec': r.get('spec'), 'record': json.loads(lines[r['l'] - 1])}
        os.makedirs(os.path.join(ROOT, 'replays'), exist_ok=True)
        h = hashlib.sha1(json.dumps(body, sort_keys=True).encode()).hexdigest()[:12]
        path = os.path.join(ROOT, 'replays', '%s-codec-%s.json' % (prop, h))
        if len(_REPLAYS_WRITTEN) < 40:
            json.dump(body, open(path, 'w'), indent=1)
            _REPLAYS_WRITTEN.append(path)
        else:
            path = _REPLAYS_WRITTEN[-1]
        acc['violations'].append({'replay': path, 'reason': 'codec case disagrees with Abi.tla: ' + r['kind'], 'spec': job['spec'], 'act': {'op': r.get('op')}})
    kinds = {}
    sample = []
    with open(trace) as f:
        f.readline()
        for l in f:
            o = json.loads(l)
            k = '%s/%s' % (o['op'], 'ok' if o['ok'] else 'rejected')
            kinds[k] = kinds.get(k, 0) + 1
            if len(sample) < 2 and o['op'] == 'decode' and o['ok']:
                sample.append({'op': 'decode', 'bytes': len(o['b']), 'decoded': {k2: (v if not isinstance(v, list) else '%d bytes' % len(v)) for k2, v in o['m'].items()}})
    acc['jobs'].append({'spec': job['spec'], 'module': 'Abi', 'traces': 1, 'trace_events': nlines - 1, 'mismatches': len(res),
                        'tlc_s': round(tsecs, 1), 'events_by_action_outcome': kinds, 'distinct_nontrivial': nlines - 1})
    acc.setdefault('trace_samples', []).append({'trace_of': 'Abi', 'events': sample})


def apalache_job(prop, tier, seed, job, policy, known, acc):
    """unbounded-history argument on the design: an inductive invariant discharged by Apalache (base case,
    inductive step from an arbitrary invariant state, and a refutation run showing the step is not vacuous)"""
    d = os.path.join(SPEC, 'apalache')
    outdir = os.path.join(WORK, prop, 'apalache')
    os.makedirs(outdir, exist_ok=True)
    runs = [('base', ['--init=Init', '--inv=' + job['inv'], '--length=0'], 'NoError'),
            ('step', ['--init=IndInit', '--inv=' + job['inv'], '--length=1'], 'NoError'),
            ('non_vacuous', ['--init=' + job.get('refute_init', 'IndInit'), '--inv=' + job['refute'], '--length=1'], 'Error')]
    res = {}
    t = time.time()
    for name, args, want in runs:
        p = subprocess.run(['timeout', str(job.get('timeout', 2400)), 'apalache-mc', 'check', *args, '--out-dir=' + outdir, job['module'] + '.tla'],
                           cwd=d, stdout=subprocess.PIPE, stderr=subprocess.STDOUT, text=True)
        got = 'NoError' if 'The outcome is: NoError' in p.stdout else ('Error' if 'The outcome is: Error' in p.stdout else 'unknown')
        res[name] = got
        if got != want:
            raise ToolError('apalache %s on %s: expected %s, got %s\n%s' % (name, job['module'], want, got, p.stdout[-1500:]))
    acc['jobs'].append({'spec': 'apalache/' + job['module'], 'engine': 'apalache-mc 0.58', 'inductive_invariant': job['inv'],
                        'obligations': 2, 'discharged': 2, 'non_vacuity_refutation': res['non_vacuous'], 'apalache_s': round(time.time() - t, 1),
                        'distinct_nontrivial': 2})
    shutil.rmtree(outdir, ignore_errors=True)


def write_evidence(prop, tier, seed, acc, wall, level_rule, assumptions):
    jobs = acc['jobs']
    cov = {
        'states': max(1, sum(j.get('states', 0) for j in jobs)),
        'transitions': max(1, sum(j.get('transitions', 0) for j in jobs)),
        'traces_validated_against_impl': sum(j.get('traces', 0) for j in jobs),
        'samples': [acc.get('sample')] + acc.get('trace_samples', []),
        'evaluations': sum(j.get('steps_executed', 0) + j.get('trace_events', 0) for j in jobs),
        'distinct_nontrivial': sum(j.get('distinct_nontrivial', 0) for j in jobs),
        'rule': level_rule,
        'exhaustive': all(j.get('exhaustive_replay', True) for j in jobs if 'exhaustive_replay' in j),
        'jobs': jobs,
        'foreign_divergences': acc['foreign'][:50],
        'drift': acc['drift'][:50],
        'known_findings_reproduced': sorted(acc['known']),
    }
    ev = {'property_id': prop, 'tier': tier, 'seed': seed, 'level': 'model_checking', 'coverage': cov,
          'assumptions': assumptions, 'wall_s': round(wall, 1), 'violations': len(acc['violations'])}
    os.makedirs(os.path.join(ROOT, 'evidence'), exist_ok=True)
    with open(os.path.join(ROOT, 'evidence', prop + '.json'), 'w') as f:
        json.dump(ev, f, indent=1)
