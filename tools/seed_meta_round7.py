#!/usr/bin/env python3
"""writes seeded/<name>/meta.json for the seventh round (a theme per property)"""
import json, os, glob
D = {
 "C01g-early-exit-on-declared-signed-weight": ("C01", "the verification loop's early exit tests the pre-computed weight of all entries that carry a signature instead of the verified weight", "one genuine signature padded with well-formed signatures by unrelated keys"),
 "C02g-executed-query-true-for-approved": ("C02", "is_message_executed returns true for every id that is not NotApproved", "query after approval and before consumption"),
 "C03g-reverse-lookup-query-applies-retention": ("C03", "the retention check moved into the shared set-to-epoch lookup, so the public query refuses sets outside the window", "retention + 1 rotations, then epoch_by_signers_hash of the first set"),
 "C04g-receiver-failure-tolerated": ("C04", "the receiving application is called with try_ and its failure ignored after the approval is consumed and the tokens given", "inbound transfer with data to a receiver that refuses"),
 "C05g-receiver-gets-derived-token-address": ("C05", "the receiving application is handed the address derived from (service, id) instead of the registered token address", "inbound transfer of a canonical token with data to a contract"),
 "C06g-refund-auth-omits-receiver": ("C06", "refund authorises (message_id, token) only", "the collector's authorisation for receiver R replayed for another receiver"),
 "C07g-operator-auth-omits-arguments": ("C07", "execute authorises (contract, func) only: the forwarded arguments are not covered", "an operator's entry for one argument list used with another"),
 "C08g-latest-flag-from-retention-distance": ("C08", "the 'latest signers' flag is computed as distance < retention", "retention >= 2: a set one rotation old rotates without bypass; retention 0: the newest set cannot"),
 "C09g-wrapping-deadline": ("C09", "deadline computed as last.wrapping_add(delay)", "delay near u64::MAX and a previous rotation at a non-zero time"),
 "C10g-nested-tail-offset-off-by-a-word": ("C10", "the decoder locates the nested message with (len / 32 + 1) * 32", "chain names of 0, 32, 64 bytes: canonical messages rejected"),
 "C11g-id-view-ignores-sender": ("C11", "the public view interchain_token_id(sender, salt) ignores its sender", "the view called with a non-zero sender collides with the registered id"),
 "C12g-approve-event-relative-expiration": ("C12", "approve event carries expiration - current ledger", "approve with a positive amount at a ledger > 0"),
 "C13g-repeated-call-not-announced": ("C13", "a per-sender record of the last call suppresses the event of an identical call in the same ledger", "a contract making the same call twice in one transaction"),
 "C14g-collected-event-measures-collector": ("C14", "gas_collected reports the collector's balance difference although the transfer goes to the receiver", "collect_fees to a receiver other than the collector: event amount 0"),
 "C15g-failing-version-query-counts-as-success": ("C15", "the Upgrader's final check treats a failing version() query as success", "new code with migrate but no version entry point"),
 "C16g-batch-guard-reads-first-slot-only": ("C16", "approve_messages decides from the first message's slot whether to write the whole batch", "batch [fresh id, executed id]: the executed id is approved again and delivered twice"),
 "C17g-trailing-void-arguments-dropped": ("C17", "execute strips trailing void values from the forwarded argument list", "argument lists ending in () or None"),
 "C18g-no-gas-payment-when-amount-not-positive": ("C18", "the gas payment is skipped when the amount is not positive while the announcement still goes out", "remote deployment with gas 0 or negative succeeds unpaid"),
}
for name,(pid,chg,needs) in D.items():
    d='/verif/seeded/'+name
    if not os.path.isdir(d): print("missing",name); continue
    conf=open(d+'/confirm.txt').read().strip() if os.path.exists(d+'/confirm.txt') else ""
    notes='/tmp/seed7-out/%s/NOTES.md'%pid
    if os.path.exists(notes):
        open(d+'/NOTES.md','w').write(open(notes).read())
    for f in glob.glob(d+'/*.log'): os.remove(f)
    demo=[os.path.basename(f) for f in glob.glob(d+'/*.rs')]
    meta={"breaks_property":pid,"change":chg,"needs_to_manifest":needs,"round":7,
     "source":"independent sub-agent given only the property text, a scratch worktree, one-line descriptions of the earlier changes to avoid and a theme (queries and events / arithmetic boundaries / authorisation trees / order of effects / several parties at once)",
     "demonstration":demo,"confirmed_by":"tools/confirm_seed.sh in scratch worktree /tmp/confirm",
     "confirmation":conf,"how_to_run":"tools/try_mutant.sh seeded/%s/patch.diff %s"%(name,pid)}
    json.dump(meta,open(d+'/meta.json','w'),indent=1)
    print(name, conf[-50:])
