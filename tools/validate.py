#!/usr/bin/env python3-vt
"""validate MANIFEST.json and evidence files against the given schemas"""
import json, sys, glob, jsonschema
ok = True
m = json.load(open('/verif/MANIFEST.json'))
try:
    jsonschema.validate(m, json.load(open('/root/.vp/MANIFEST.schema.json')))
    print('MANIFEST ok: %d checks, %d n/a' % (len(m['checks']), len(m.get('not_applicable', []))))
except Exception as e:
    ok = False; print('MANIFEST INVALID', str(e)[:500])
es = json.load(open('/root/.vp/EVIDENCE.schema.json'))
for f in sorted(glob.glob('/verif/evidence/*.json')):
    try:
        jsonschema.validate(json.load(open(f)), es); print('ok', f)
    except Exception as e:
        ok = False; print('INVALID', f, str(e)[:500])
sys.exit(0 if ok else 1)
