#!/usr/bin/env python3
"""(re)generate /verif/MANIFEST.json from tools/props.py"""
import json, os, sys
sys.path.insert(0, os.path.dirname(os.path.abspath(__file__)))
import props
allp = [json.loads(l) for l in open('/verif/properties.jsonl')]
checks = []
for p in allp:
    pid = p['id']
    if pid not in props.PROPS or props.PROPS[pid].get('disabled'):
        continue
    c = props.PROPS[pid]
    checks.append({
        "property_id": pid,
        "quick_cmd": "./check %s quick" % pid,
        "thorough_cmd": "./check %s thorough" % pid,
        "evidence_file": "/verif/evidence/%s.json" % pid,
        "replay_cmd_template": "./check %s --replay {path}" % pid,
        "engine": "tlc+conform",
        "level_claimed": {"category": "model_checking", "text": c.get('level_text', ''), "design_ref": "DESIGN.md section 5 (%s)" % pid},
        "level_note": c.get('level_note', "Trusted: TLC, soroban-env-host test mode (rollback, require_auth, Ed25519, Keccak), the harness's abstract<->concrete mapping; exhaustive only within the stated constants."),
        "technique": c.get('technique', "TLA+ spec checked by TLC; every transition of the bounded state graph replayed against the real contracts; recorded traces validated against the spec"),
    })
na = [{"property_id": p['id'], "reason": props.NOT_YET.get(p['id'], "check not built yet (work in progress; see DESIGN.md build order)")}
      for p in allp if p['id'] not in [c['property_id'] for c in checks]]
m = {
    "version": 1,
    "setup_cmd": "./check --setup",
    "hooks": {"guard": "verif-hooks",
              "enable": "cargo feature `verif-hooks` of axelar-soroban-std, switched on by the harness crate /verif/harness (path dependency on /repo)",
              "baseline_off_cmd": "cd /repo && cargo test --workspace --no-fail-fast --offline",
              "source_commits": ["abea0a2"], "add_only": True},
    "engines": [
        {"name": "tlc", "path": "/verif/spec", "serves_properties": [c['property_id'] for c in checks],
         "kind_free_text": "explicit TLA+ specifications (one module per contract), bounded instances MC_*.tla checked exhaustively by TLC, trace specifications Trace*.tla"},
        {"name": "conform", "path": "/verif/harness", "serves_properties": [c['property_id'] for c in checks],
         "kind_free_text": "Rust conformance harness linking the contracts of /repo's working tree: replays TLC state-graph walks into soroban-env-host and records seeded random traces for validation by TLC"},
    ],
    "checks": checks,
    "notes": "Driver: ./check (python3, stdlib). known_findings.json lists recorded defects. See DESIGN.md.",
    "not_applicable": na,
}
json.dump(m, open('/verif/MANIFEST.json', 'w'), indent=1)
print('claimed', [c['property_id'] for c in checks])
