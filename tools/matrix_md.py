#!/usr/bin/env python3
"""matrix.txt (tools/matrix.sh) -> seeded/MATRIX.md"""
import sys, collections
src = sys.argv[1]
rows = collections.OrderedDict()
for l in open(src):
    p = l.split()
    if len(p) < 3 or not p[2].startswith('rc='):
        continue
    rows.setdefault(p[0], {})[p[1]] = p[2][3:]
props = ['C%02d' % i for i in range(1, 19)]
out = ['# Seeded changes x checks (quick tier)', '',
       'Each row is one seeded change (`seeded/<name>/patch.diff`), each column one property check run on the tree with',
       'that change applied.  `X` = the check exits 1 with a VIOLATION line, `.` = silent (exit 0), `E` = tool error.',
       'The cell of the property the change was written to break is in brackets.', '',
       '| change | ' + ' | '.join(p[1:] for p in props) + ' |', '|---|' + '---|' * len(props)]
missed, extra = [], []
for name, r in rows.items():
    own = name[:3]
    cells = []
    for p in props:
        v = r.get(p, '?')
        c = {'0': '.', '1': 'X', '2': 'E'}.get(v, '?')
        if p == own:
            c = '[' + c + ']'
            if v != '1':
                missed.append(name)
        elif v == '1':
            extra.append((name, p))
        cells.append(c)
    out.append('| %s | %s |' % (name, ' | '.join(cells)))
out += ['', 'Changes not caught by their own property\'s check: %s.' % (', '.join(missed) or 'none'), '',
        'Alarms outside the diagonal (the change also violates that property, see DESIGN.md section 11): ' +
        (', '.join('%s/%s' % e for e in extra) or 'none') + '.']
print('\n'.join(out))
