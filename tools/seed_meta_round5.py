#!/usr/bin/env python3
"""writes seeded/<name>/meta.json for the fifth round (violations that need a history of >= 3 calls)"""
import json, os, glob
D = {
 "C01e-reverse-lookup-in-temporary-storage": ("C01", "C01", "set-to-epoch lookup moved to temporary storage: it lapses 16 ledgers after the set was installed", "honest proofs of a retained (or the current) set a few ledgers after installation are refused"),
 "C02e-executed-reopened-by-retained-set": ("C02", "C02", "approve_messages skips an executed id only when the proof is from the current set", "approve, execute, rotate, then re-submit the executed id with a proof of the retained previous set"),
 "C03e-old-reverse-lookup-pruned": ("C03", "C03", "each rotation deletes the set-to-epoch entry of the set at epoch current - retention - 2", "retention+3 rotations, then a rotation back to the pruned set succeeds; lookups no longer inverse"),
 "C04e-untrusted-flag-presence-check-inbound": ("C04", "C04", "remove_trusted_chain writes false instead of deleting; the inbound origin check tests presence", "set_trusted_chain(X), remove_trusted_chain(X), approve, execute from X"),
 "C05e-untrusted-flag-presence-check-outbound": ("C05", "C05", "remove_trusted_chain writes false instead of deleting; the outbound destination check tests presence", "token exists, set then remove trusted chain X, interchain_transfer to X"),
 "C06e-remove-operator-asks-enrolling-owner": ("C06", "C06", "add_operator records the enrolling owner; remove_operator demands that address's authorisation", "add_operator by owner A, transfer ownership A -> B, remove_operator authorised by A (former owner)"),
 "C07e-spender-bound-after-first-draw": ("C07", "C07", "allowance gets a spender_bound flag set by the first draw; later draws skip the spender's authorisation", "mint, approve, one authorised partial transfer_from, then transfer_from / burn_from authorised by nobody"),
 "C08e-approval-restarts-set-age": ("C08", "C08", "approve_messages re-saves the proof set's epoch entry with the CURRENT epoch", "rotate A->B, approval signed by A, rotate B->C: A is still honoured and counts as latest"),
 "C09e-clock-split-across-storages": ("C09", "C09", "non-bypass rotations keep the rotation clock in persistent storage, constructor and bypass in instance storage; the persistent entry shadows later restarts", "deploy, regular rotation, bypass rotation, then a regular rotation before the delay since the bypass"),
 "C10e-announced-amount-is-total-custody": ("C10", "C05", "take_token returns the service's total locked balance for canonical tokens and that value is put into the announced message", "second outbound transfer of a canonical token: the payload's amount is the sum of the locked amounts (declared for C10 by its author; the codec is untouched and C10 holds - the change violates C05, 'announces exactly the amount taken', whose check reports it)"),
 "C11e-remote-canonical-rewrites-registry": ("C11", "C11", "deploy_remote_canonical_token re-writes the registry entry of the id after success", "a remote deploy message takes the canonical id of a local token first; a later deploy_remote_canonical_token changes that id's token address and manager type"),
 "C12e-partial-spend-expires-allowance": ("C12", "C12", "a partially spent allowance is rewritten with expiration = current ledger", "mint, approve, partial delegated spend, one ledger later the rest of the allowance is gone"),
 "C13e-call-contract-prunes-old-signers": ("C13", "C13", "call_contract deletes both lookup entries of the set at epoch current - retention - 3", "four rotations, then any call_contract changes gateway state"),
 "C14e-cached-balance-misses-top-ups": ("C14", "C14", "collect_fees checks a cached per-token balance that add_gas does not update", "pay_gas, collect_fees, add_gas, then collecting what the service really holds is refused"),
 "C15e-window-counts-pending-migrations": ("C15", "C15", "migration window marker became a count of pending migrations (presence still means open)", "window opened twice, migrate, then a second migrate succeeds"),
 "C16e-approvals-in-temporary-storage": ("C16", "C16", "message approvals (and the executed marker) live in temporary storage", "approve, execute, 17+ ledgers, approve the same batch again, execute again"),
 "C17e-sorted-list-swap-remove": ("C17", "C17", "operator set kept as a sorted list searched by binary search; removal by swap-remove breaks the order", "three operators added, the lowest removed: a current operator is refused, a duplicate add accepted"),
 "C18e-recent-destination-cache": ("C18", "C18", "a one-day 'recent destination' marker in temporary storage skips the trusted-chain check", "send to X while trusted, remove_trusted_chain(X), remote deployment toward X still succeeds"),
}
for name,(pid,runp,chg,needs) in D.items():
    d='/verif/seeded/'+name
    if not os.path.isdir(d): print("missing",name); continue
    conf=open(d+'/confirm.txt').read().strip() if os.path.exists(d+'/confirm.txt') else ""
    notes='/tmp/seed5-out/%s/NOTES.md'%pid
    if os.path.exists(notes):
        open(d+'/NOTES.md','w').write(open(notes).read())
    for f in glob.glob(d+'/*.log'): os.remove(f)
    demo=[os.path.basename(f) for f in glob.glob(d+'/*.rs')]
    meta={"breaks_property":runp,"declared_for":pid,"change":chg,"needs_to_manifest":needs,"round":5,
     "source":"independent sub-agent given only the property text, a scratch worktree, one-line descriptions of the earlier changes to avoid and the requirement that the violation need a history of at least three successful state-changing calls",
     "demonstration":demo,"confirmed_by":"tools/confirm_seed.sh in scratch worktree /tmp/confirm",
     "confirmation":conf,"how_to_run":"tools/try_mutant.sh seeded/%s/patch.diff %s"%(name,runp)}
    json.dump(meta,open(d+'/meta.json','w'),indent=1)
    print(name, conf[-60:])
