#!/usr/bin/env python3
"""prompt for a sub-agent that produces a behaviour-preserving refactor (to test for false alarms)"""
import json,sys
area=sys.argv[1]; wt=sys.argv[2]; out=sys.argv[3]
props=[json.loads(l) for l in open('/verif/properties.jsonl')]
text="\n".join("  - %s: %s" % (p['title'], p['statement']) for p in props)
print(f"""You are helping test a verification tool for FALSE ALARMS by producing a realistic, behaviour-preserving refactor of a Rust codebase.

Codebase: axelarnetwork/axelar-cgp-soroban (Soroban/Stellar smart contracts for Axelar's cross-chain gateway), checked out as a scratch git worktree at {wt} . Work ONLY inside {wt} and write your deliverables to {out}/ . Do not read or touch /repo or /verif. The sandbox is offline; cargo must be run with --offline and `-j 4`. Full test suite: `cd {wt} && cargo test --workspace --no-fail-fast --offline -j 4` (always --workspace).

Focus area for your change: {area}

The following semantic properties of the system MUST ALL STILL HOLD after your change (read them carefully - your change must not violate any of them, not even in corner cases):
{text}

Your task: make a realistic NON-TRIVIAL refactor or internal change (30-150 changed lines is ideal) in the focus area, of the kind a maintainer would merge, that changes the *implementation* but keeps every property above true and keeps the whole existing test suite passing unchanged. Good examples of what to change: the order of independent validation checks; which error code / panic message is produced for a rejected call; storage key names or storage layout (instance vs persistent), TTL constants; splitting or merging helper functions; replacing loops by iterators; caching a value; emitting an ADDITIONAL event of a NEW kind (new event name) next to the existing ones; turning a redundant check into an assertion; computing the same hash via a different but equivalent code path; verifying all signatures before counting weights instead of exiting early. Do NOT change: the public interface (function names, argument types/order, return types), the existing events (names, topics, data), any byte-level format (hash/digest layouts, ABI encoding, token id derivation), or which calls succeed and fail for well-formed and malformed inputs.

Deliverables in {out}/ : patch.diff (`git -C {wt} diff`), NOTES.md (what you changed, and for each property it could touch, one sentence why it still holds; plus the exact test command and result). Run the full suite with your change and make sure it passes. When finished delete `{wt}/target`. Final answer: a 5-line summary.""")
