#!/usr/bin/env python3
"""writes seeded/<name>/meta.json for the sixth round (changes in shared, generated or neighbouring code)"""
import json, os, glob
D = {
 "C01f-repeated-proof-entries-merged-in-hash": ("C01", "Proof::weighted_signers() drops an entry equal to the previous one before hashing; weights are still added over the raw list", "a member lists itself k times with its one genuine signature"),
 "C02f-approval-equality-ignores-hash": ("C02", "hand-written PartialEq on the approval record compares only the variant", "approved id consumed / queried with another caller, source address or payload"),
 "C03f-duplicate-error-swallowed-on-plain-rotation": ("C03", "the public rotate_signers wrapper turns DuplicateSigners into Ok on the non-bypass path, committing the epoch bump made before the check", "plain rotation by the latest set back to an installed set"),
 "C04f-gateway-reapproves-executed": ("C04", "approve_messages skips only Approved records, so an Executed one is overwritten", "approve, execute through the service, approve the same batch again, execute again"),
 "C05f-self-transfer-doubles-source-token": ("C05", "token transfer reads both balances before writing: from == to ends with balance + amount", "source-built token registered as canonical, inbound transfer whose recipient is the service itself"),
 "C06f-owner-mint-unauthenticated-when-not-minter": ("C06", "owner mint takes a branch without require_auth when the owner is not in the minter set", "remove_minter(owner) or ownership transfer, then mint by anyone"),
 "C07f-gateway-as-caller-skips-auth": ("C07", "validate_message skips the caller's authorisation when the caller is the gateway's own address", "message approved for the gateway's address, consumed by anyone"),
 "C08f-retention-capped-at-15": ("C08", "constructor caps the configured retention at 15", "retention >= 16 and 16 rotations: a set that should be honoured is refused"),
 "C09f-bypass-by-retained-set-needs-no-operator": ("C09", "rotate_signers demands the operator only when the bypass proof is from the latest set", "bypass rotation with a proof of a retained older set and no operator authorisation"),
 "C10f-deploy-strings-declared-as-bytes": ("C10", "ABI struct declares name / symbol as bytes: the UTF-8 check on decode is gone", "deploy message with a non-UTF-8 name is accepted"),
 "C11f-add-minter-ignores-owner": ("C11", "token add_minter does not store the flag when minter == owner", "deployment with supply > 0 and the service itself as minter: remove_minter(service), add_minter(service) leaves no minter"),
 "C12f-mint-event-names-owner": ("C12", "mint event's first topic is the owner instead of the minter", "mint_from by a minter that is not the current owner"),
 "C13f-large-payload-auth-omits-address": ("C13", "for payloads over 1 KiB the sender authorises (chain, chain, hash): the destination address is not covered", "an authorisation for address A replayed for address B with a large payload"),
 "C14f-collector-not-stored-when-owner": ("C14", "constructor stores the collector only when it differs from the owner; the getter falls back to the owner", "owner == collector at deployment, ownership transferred: the new owner collects"),
 "C15f-derived-migrate-discards-guard": ("C15", "the derived migrate discards the result of the guard and runs the migration anyway", "owner calls migrate without a preceding upgrade, repeatedly"),
 "C16f-helper-accepts-executed-ids": ("C16", "the interface's validate_message returns Ok early when the id is already executed", "re-delivery of an executed id, with any source address or payload"),
 "C17f-target-contract-error-swallowed": ("C17", "execute uses try_invoke and a catch-all arm that also swallows contract errors other than 1..3", "target fails with contract error 7: execute returns Ok"),
 "C18f-token-reports-7-for-0-decimals": ("C18", "token decimals() returns 7 for a stored 0", "remote deployment of a source-built token with 0 decimals announces 7"),
}
for name,(pid,chg,needs) in D.items():
    d='/verif/seeded/'+name
    if not os.path.isdir(d): print("missing",name); continue
    conf=open(d+'/confirm.txt').read().strip() if os.path.exists(d+'/confirm.txt') else ""
    notes='/tmp/seed6-out/%s/NOTES.md'%pid
    if os.path.exists(notes):
        open(d+'/NOTES.md','w').write(open(notes).read())
    for f in glob.glob(d+'/*.log'): os.remove(f)
    demo=[os.path.basename(f) for f in glob.glob(d+'/*.rs')]
    meta={"breaks_property":pid,"change":chg,"needs_to_manifest":needs,"round":6,
     "source":"independent sub-agent given only the property text, a scratch worktree, one-line descriptions of the earlier changes to avoid and a site hint pointing at shared, generated or neighbouring code",
     "demonstration":demo,"confirmed_by":"tools/confirm_seed.sh in scratch worktree /tmp/confirm",
     "confirmation":conf,"how_to_run":"tools/try_mutant.sh seeded/%s/patch.diff %s"%(name,pid)}
    json.dump(meta,open(d+'/meta.json','w'),indent=1)
    print(name, conf[-50:])
