#!/bin/sh
# usage: tools/try_benign.sh <patch> <Cxx> [<Cxx> ...]   -- apply once, run the quick checks, undo; every check must stay silent
patch="$1"; shift
cd /verif
git -C /repo diff --quiet || { echo "/repo has local changes" >&2; exit 3; }
git -C /repo apply "$patch" || { echo "patch does not apply" >&2; exit 3; }
for p in "$@"; do
  ./check "$p" quick > work/benign_run.log 2>&1; rc=$?
  echo "$(basename $(dirname $patch)) $p rc=$rc $(grep -E 'quick:' work/benign_run.log | sed 's/.*executed, //') $(grep -c VIOLATION work/benign_run.log)"
done
git -C /repo checkout -- .
