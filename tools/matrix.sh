#!/bin/sh
# every seeded mutant x every check (quick); the change is applied once per mutant; /repo is restored after
# usage: tools/matrix.sh [out] [name-prefix-of-the-first-mutant-to-run]
cd /verif
out=${1:-/verif/work/matrix.txt}
start=${2:-}
[ -z "$start" ] && : > $out
go=0; [ -z "$start" ] && go=1
for d in seeded/*/; do
  name=$(basename $d)
  case "$name" in "$start"*) go=1;; esac
  [ $go = 1 ] || continue
  [ -f $d/patch.diff ] || continue
  git -C /repo apply /verif/$d/patch.diff || { echo "$name ALL APPLY_FAILED" >> $out; continue; }
  for p in C01 C02 C03 C04 C05 C06 C07 C08 C09 C10 C11 C12 C13 C14 C15 C16 C17 C18; do
    ./check $p quick > work/matrix_run.log 2>&1; rc=$?
    sum=$(grep -E "quick:" work/matrix_run.log | sed 's/.*executed, //')
    echo "$name $p rc=$rc $sum" >> $out
  done
  git -C /repo checkout -- .
done
echo DONE >> $out
