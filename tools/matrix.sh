#!/bin/sh
# every seeded mutant x every check (quick): prints one line per pair; /repo is restored after each
cd /verif
out=${1:-/verif/work/matrix.txt}
: > $out
for d in seeded/*/; do
  name=$(basename $d)
  for p in C01 C02 C03 C04 C05 C06 C07 C08 C09 C10 C11 C12 C13 C14 C15 C16 C17 C18; do
    git -C /repo apply /verif/$d/patch.diff || { echo "$name $p APPLY_FAILED" >> $out; continue; }
    ./check $p quick > work/matrix_run.log 2>&1; rc=$?
    git -C /repo checkout -- .
    sum=$(grep -E "quick:" work/matrix_run.log | sed 's/.*executed, //')
    echo "$name $p rc=$rc $sum" >> $out
  done
done
echo DONE >> $out
