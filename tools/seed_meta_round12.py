#!/usr/bin/env python3
"""writes seeded/<name>/meta.json for the twelfth round (names C<nn>l): six agents (C02, C03, C13, C15, C16, C17), each given
the property text AND the one-line descriptions of every change already produced for that property, told to avoid them and
close variants (the eleventh round had shown that unsteered agents re-invent earlier changes)."""
import json, os, glob
D = {
 "C02l": ("C02", "approve_messages skips a batch entry whose message_id equals the previous entry's (source chain not compared)",
          "one batch with two adjacent messages sharing an id across different source chains: the second gets no approval and no event", True),
 "C03l": ("C03", "the DuplicateSigners test moved from auth::rotate_signers into the public rotate_signers wrapper: the constructor path no longer refuses a repeated initial set",
          "construction with initial sets [A, B, A] succeeds with epoch 3; both epoch 1 and 3 map to hash(A)", True),
 "C13l": ("C13", "event::call_contract replaces an empty destination chain by the constant \"axelar\" before publishing",
          "a call with destination_chain = \"\" is announced with a chain the sender never supplied", True),
 "C15l": ("C15", "start_migration stores the owner's address at upgrade time as the window marker; migrate asks THAT address's authorisation instead of the current owner's",
          "owner A upgrades, ownership moves to B while the window is open: A can migrate, B cannot", True),
 "C16l": ("C16", "the executable interface's validate_message helper forwards a payload of exactly 32 bytes as its own hash and hashes only other lengths",
          "with an approval for P, delivering the 32-byte payload keccak256(P) is accepted and consumes P's approval; an approved 32-byte payload is refused", False),
 "C17l": ("C17", "execute re-packs the arguments with a pop_back / push_back loop: the target receives them in reverse order",
          "a forwarded call with two or more arguments whose order matters (sub(10, 3) arrives as sub(3, 10))", True),
}
for name, (pid, chg, needs, first) in D.items():
    d = '/verif/seeded/' + name
    if not os.path.isdir(d):
        print("missing", name); continue
    conf = open(d + '/confirm.txt').read().strip() if os.path.exists(d + '/confirm.txt') else ""
    notes = '/tmp/seed-out/%s/NOTES.md' % pid
    if os.path.exists(notes):
        open(d + '/NOTES.md', 'w').write(open(notes).read())
    for f in glob.glob(d + '/*.log'):
        os.remove(f)
    demo = [os.path.basename(f) for f in glob.glob(d + '/*.rs')]
    meta = {"breaks_property": pid, "change": chg, "needs_to_manifest": needs, "round": 12,
            "source": "independent sub-agent given the property text, a scratch worktree and one-line descriptions of the changes already produced for the property (to avoid)",
            "demonstration": demo, "confirmed_by": "tools/confirm_seed.sh in scratch worktree /tmp/confirm",
            "confirmation": conf, "how_to_run": "tools/try_mutant.sh /verif/seeded/%s/patch.diff %s" % (name, pid),
            "caught_without_modification": first}
    if not first:
        meta["missed_at_first"] = "MC_C16 delivered payloads of 2 and 0 bytes only; strengthened: payload p32 (32 ordinary bytes, approved as m32) and ph1 (the 32 bytes of Keccak-256(p1)) are delivered to both apps in every state"
    json.dump(meta, open(d + '/meta.json', 'w'), indent=1)
    print(name, conf[-60:])
