#!/usr/bin/env python3
"""writes seeded/<name>/meta.json for the eighth round (free choice, all earlier changes listed)"""
import json, os, glob
D = {
 "C01h-known-batch-skips-proof-check": ("C01", "approve_messages returns Ok before the proof check when every message of the batch already occupies its slot", "a replayed (or never signed but slot-colliding) batch with any proof at all"),
 "C02h-approvals-in-temporary-storage": ("C02", "message approval records live in temporary storage", "approve, execute, ledgers pass, the same batch approved and executed again"),
 "C03h-reverse-lookup-temporary-60-days": ("C03", "set-to-epoch entry in temporary storage with a 60-day lifetime, refreshed when the set signs", "a set idle for 60 days can be installed again; lookups no longer inverse"),
 "C04h-approvals-temporary-replay-after-expiry": ("C04", "gateway approval records in temporary storage", "the service executes a message twice when 17+ ledgers lie between execution and replay"),
 "C05h-redeploy-same-salt-mints-again": ("C05", "the deployment helper returns the existing token when the id is taken; the caller still mints and re-registers", "deploying twice with the same (deployer, salt) mints a fresh initial supply"),
 "C06h-operatorship-free-while-migrating": ("C06", "transfer_operatorship skips the operator's authorisation while the migration flag is set", "between upgrade and migrate anyone becomes gateway operator"),
 "C07h-negative-mint-debits-holder": ("C07", "amount validation moved into the debit helper, so mint / mint_from lose it", "mint_from(minter, holder, negative) debits the holder with only the minter's authorisation"),
 "C08h-reverse-lookup-temporary-refreshed-on-use": ("C08", "set-to-epoch entry in temporary storage, extended to 60 days on write and on each successful lookup", "a retained set unused for 60 days is refused"),
 "C09h-rotation-clock-in-temporary-storage": ("C09", "last-rotation timestamp kept in temporary storage", "16+ ledgers after a rotation the clock reads 0 and a plain rotation passes inside the delay"),
 "C10h-nested-slice-before-length-check": ("C10", "nested messages decoded through a helper that slices the first 32 bytes before the length check", "canonical wrapper around a nested message of 0..31 bytes: crash instead of rejection"),
 "C11h-inbound-does-not-extend-registry-ttl": ("C11", "the inbound transfer path reads the registry entry without extending its lifetime", "an inbound-only token's registry entry is archived after its minimum lifetime (NOT reported: archival of persistent entries is outside the model, DESIGN.md section 7)"),
 "C12h-saturating-credit": ("C12", "credits use saturating_add", "credit into a balance near i128::MAX succeeds and credits less than the amount"),
 "C13h-self-addressed-call-not-announced": ("C13", "call_contract returns early when the destination address equals the sender's address string", "a call addressed to the sender's own address text succeeds without announcement"),
 "C14h-negative-refund-skips-transfer": ("C14", "outgoing transfers go through a helper that returns early for amounts <= 0", "a negative refund succeeds, moves nothing and is reported"),
 "C15h-migrate-without-owner-auth-again": ("C15", "the shared migrate no longer asks for the owner's authorisation", "after the owner's upgrade anyone runs the migration"),
 "C16h-validate-ignores-approval-hash": ("C16", "validate_message consumes any Approved record of the (chain, id) slot without comparing the hash", "delivery with another payload / source address / application consumes the approval"),
 "C17h-operator-flags-in-temporary-storage": ("C17", "per-operator flags in temporary storage, extended on add and on the operator's own execute", "an operator idle for 60 days silently drops out of the set"),
 "C18h-trailing-nul-stripped-before-encoding": ("C18", "trailing NUL bytes stripped from name and symbol before ABI encoding (after validation)", "metadata ending in NUL bytes is announced altered; a symbol of NUL bytes only is announced empty"),
}
for name,(pid,chg,needs) in D.items():
    d='/verif/seeded/'+name
    if not os.path.isdir(d): print("missing",name); continue
    conf=open(d+'/confirm.txt').read().strip() if os.path.exists(d+'/confirm.txt') else ""
    notes='/tmp/seed8-out/%s/NOTES.md'%pid
    if os.path.exists(notes):
        open(d+'/NOTES.md','w').write(open(notes).read())
    for f in glob.glob(d+'/*.log'): os.remove(f)
    demo=[os.path.basename(f) for f in glob.glob(d+'/*.rs')]
    meta={"breaks_property":pid,"change":chg,"needs_to_manifest":needs,"round":8,
     "source":"independent sub-agent given only the property text, a scratch worktree and one-line descriptions of the seven earlier changes to avoid (free choice of site and mechanism)",
     "demonstration":demo,"confirmed_by":"tools/confirm_seed.sh in scratch worktree /tmp/confirm",
     "confirmation":conf,"how_to_run":"tools/try_mutant.sh seeded/%s/patch.diff %s"%(name,pid)}
    if name.startswith("C11h"):
        meta["reported"]=False
        meta["why_not_reported"]="archival of persistent entries (restorable, nothing lost or changed) is outside the model; see DESIGN.md section 7"
    json.dump(meta,open(d+'/meta.json','w'),indent=1)
    print(name, conf[-50:])
