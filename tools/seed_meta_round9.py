#!/usr/bin/env python3
"""writes seeded/<name>/meta.json for the ninth round (clauses no earlier change had touched; no storage lifetimes)"""
import json, os, glob
D = {
 "C01i-digest-over-deduplicated-batch": ("C01", "approve_messages de-duplicates the batch by slot key first and checks the proof against the digest of the reduced batch", "a proof for [m] accepted for [m, x] where x re-uses m's slot key; an honest proof over [m, m'] refused"),
 "C02i-reapproval-of-executed-id-emits-event": ("C02", "the Executed arm of the replay guard does not overwrite but falls through to the approval event", "approve, consume, approve again: a phantom message_approved event"),
 "C03i-early-rotation-returns-ok-and-resets-clock": ("C03", "the rotation clock is written before the delay check and the public wrapper turns InsufficientRotationDelay into Ok", "a rotation before the delay installs nothing, returns Ok and restarts the clock"),
 "C04i-type-word-low-byte-only": ("C04", "the message type is read from the lowest byte of the type word", "outer type word 260 or inner type word 2^255+1 acted on"),
 "C05i-one-byte-data-dropped": ("C05", "'normalise empty data' filter keeps data only when longer than one byte", "outbound transfer with exactly one byte of data announces none"),
 "C06i-migration-reseats-operator-on-owner": ("C06", "the gateway's migration hook sets the operator to the owner", "upgrade + migrate moves operatorship from its holder to the owner without a transfer"),
 "C07i-refused-validate-consumes-approval": ("C07", "validate_message writes Executed before comparing the hash", "a stranger's refused validate_message consumes another contract's approval"),
 "C08i-approval-window-one-short": ("C08", "approve_messages runs an extra early check with distance < retention", "the set with exactly `retention` newer sets: bypass rotation and validate_proof accept, approve_messages refuses"),
 "C09i-clock-stores-elapsed-instead-of-now": ("C09", "the rotation clock stores now - last instead of now", "deployment with two or more initial sets leaves the clock at 0: an immediate plain rotation passes"),
 "C10i-nested-type-2-decoded-as-deploy": ("C10", "the nested decoder treats everything that is not a transfer (and not a wrapper) as a deploy message", "nested type word 2 accepted and re-encoded with tag 1"),
 "C11i-zero-supply-no-minter-deploys-under-salt": ("C11", "the zero-supply / no-minter arm passes the deploy salt instead of the token id to the deployment helper", "such a token lives at address(service, deploy_salt), reports the salt as its id; a later local deploy after a remote one overwrites the registry"),
 "C12i-delegated-self-transfer-credits-before-debit": ("C12", "transfer_from credits the destination before it checks and debits the source", "delegated transfer with to == from above the balance succeeds"),
 "C13i-no-sender-auth-while-migrating": ("C13", "call_contract skips the sender's authorisation while the migration flag is set", "between upgrade and migrate anyone announces calls in anyone's name"),
 "C14i-allowance-path-draws-from-sender": ("C14", "payments use transfer_from when the spender has an allowance toward the service - drawing from the message's sender", "sender and spender both hold an allowance toward the service: the sender pays"),
 "C15i-upgraded-event-moved-to-upgrade": ("C15", "the upgraded event is emitted by upgrade (old version) instead of migrate", "upgrade announces the old version, the native migrate announces nothing"),
 "C16i-example-skips-validation-for-empty-payload": ("C16", "the example returns early for an empty payload, before validate_message", "never-approved empty deliveries succeed; conforming ones are never consumed"),
 "C17i-readd-by-new-owner-accepted": ("C17", "add_operator compares the stored appointing owner with the current owner instead of testing presence", "after an ownership transfer the new owner's add of a present operator succeeds and emits operator_added again (reported as DRIFT, not as a violation: the set does not change, and the statement leaves re-adding a present operator open)"),
 "C18i-remote-deploy-announces-caller-as-minter": ("C18", "remote deployment announces the caller as minter when the caller is a minter of the token", "deployer that is its token's minter requests a remote deployment"),
}
for name,(pid,chg,needs) in D.items():
    d='/verif/seeded/'+name
    if not os.path.isdir(d): print("missing",name); continue
    conf=open(d+'/confirm.txt').read().strip() if os.path.exists(d+'/confirm.txt') else ""
    notes='/tmp/seed9-out/%s/NOTES.md'%pid
    if os.path.exists(notes):
        open(d+'/NOTES.md','w').write(open(notes).read())
    for f in glob.glob(d+'/*.log'): os.remove(f)
    demo=[os.path.basename(f) for f in glob.glob(d+'/*.rs')]
    meta={"breaks_property":pid,"change":chg,"needs_to_manifest":needs,"round":9,
     "source":"independent sub-agent given only the property text, a scratch worktree, one-line descriptions of the eight earlier changes to avoid and the clauses of the statement none of them had touched (storage lifetimes excluded as mechanism)",
     "demonstration":demo,"confirmed_by":"tools/confirm_seed.sh in scratch worktree /tmp/confirm",
     "confirmation":conf,"how_to_run":"tools/try_mutant.sh seeded/%s/patch.diff %s"%(name,pid)}
    if name.startswith("C17i"):
        meta["reported"]=False
        meta["why_not_reported"]="reported as drift (information): re-adding a present operator leaves the set unchanged; the statement leaves that outcome open (Operators.tla marks it `free`)"
    json.dump(meta,open(d+'/meta.json','w'),indent=1)
    print(name, conf[-50:])
