#!/bin/sh
# usage: confirm_seed.sh <Cxx> <name> <patch> <demo file> <dest path of demo relative to repo root>
# Confirms in a scratch worktree (/tmp/confirm): suite green with the change, demo red with it, green without.
id="$1"; name="$2"; patch="$3"; demo="$4"; dest="$5"
wt=/tmp/confirm
out=/verif/seeded/$name
mkdir -p "$out"
[ -d $wt ] || git -C /repo worktree add -q --detach $wt HEAD
cd $wt && git checkout -q --detach $(git -C /repo rev-parse HEAD) && git checkout -- . && git clean -fdq -e target
cp "$patch" "$out/patch.diff"; cp "$demo" "$out/$(basename $dest)"
git apply "$patch" || { echo "patch failed"; exit 1; }
tname=$(basename "$dest" .rs)
# 1. suite with the change (demo absent)
cargo test --workspace --no-fail-fast --offline -j 8 > $out/suite_with_change.log 2>&1
s1=$(grep -aE "^test result" $out/suite_with_change.log | awk '{p+=$4; f+=$6} END {print p" passed "f" failed"}')
# 2. demo with the change
cp "$demo" "$dest"
cargo test --workspace --offline -j 8 --test "$tname" > $out/demo_with_change.log 2>&1
s2=$(grep -aE "^test result" $out/demo_with_change.log | awk '{p+=$4; f+=$6} END {print p" passed "f" failed"}')
# 3. demo without the change
git apply -R "$patch"
cargo test --workspace --offline -j 8 --test "$tname" > $out/demo_without_change.log 2>&1
s3=$(grep -aE "^test result" $out/demo_without_change.log | awk '{p+=$4; f+=$6} END {print p" passed "f" failed"}')
rm -f "$dest"; git checkout -- . ; git clean -fdq -e target
echo "$name: suite+change: $s1 | demo+change: $s2 | demo-change: $s3" | tee $out/confirm.txt
