#!/usr/bin/env python3
"""hand-made 'hint' mutants derived from the why_tests_cant texts: apply, run the check, always restore"""
import subprocess, sys, re
R='/repo/'
M = [
 ("H01a","C01","contracts/axelar-gateway/src/auth.rs","if total_weight >= proof.threshold {","if total_weight + 1 >= proof.threshold {"),
 ("H01b","C01","contracts/axelar-gateway/src/auth.rs","    let mut msg: Bytes = domain_separator.into();\n    msg.extend_from_array(&signers_hash.to_array());","    let _ = domain_separator;\n    let mut msg: Bytes = Bytes::new(env);\n    msg.extend_from_array(&signers_hash.to_array());"),
 ("H01c","C01","contracts/axelar-gateway/src/contract.rs",".keccak256(&(CommandType::ApproveMessages, messages.clone()).to_xdr(&env))",".keccak256(&messages.clone().to_xdr(&env))"),
 ("H01d","C01","contracts/axelar-gateway/src/auth.rs","            env.crypto()\n                .ed25519_verify(&public_key, msg_hash.to_bytes().as_ref(), &signature);\n","            if weight > 1 { env.crypto()\n                .ed25519_verify(&public_key, msg_hash.to_bytes().as_ref(), &signature); }\n"),
 ("H04a","C04","contracts/interchain-token-service/src/contract.rs","        ensure!(\n            source_chain == Self::its_hub_chain_name(env),\n            ContractError::InvalidHubChain\n        );\n","        let _ = &source_chain;\n"),
 ("H04b","C04","contracts/interchain-token-service/src/contract.rs","        ensure!(\n            Self::is_trusted_chain(env, original_source_chain.clone()),\n            ContractError::UntrustedChain\n        );\n",""),
 ("H05","C05","contracts/interchain-token-service/src/contract.rs","        ensure!(amount > 0, ContractError::InvalidAmount);\n\n        caller.require_auth();\n\n        token_handler::take_token(","        caller.require_auth();\n\n        token_handler::take_token("),
 ("H06","C06","contracts/interchain-token-service/src/contract.rs","REMOVE_TRUSTED_AUTH",None),
 ("H07","C07","contracts/axelar-operators/src/contract.rs","        operator.require_auth();\n","        let _ = &operator;\n"),
 ("H09","C09","contracts/axelar-gateway/src/auth.rs","    if enforce_rotation_delay {\n        ensure!(","    if enforce_rotation_delay && false {\n        ensure!("),
 ("H10","C10","contracts/interchain-token-service/src/abi.rs","InterchainTransfer::abi_decode_params(&payload, true)","InterchainTransfer::abi_decode_params(&payload, false)"),
 ("H12a","C12","contracts/interchain-token/src/contract.rs","if allowance.expiration_ledger < env.ledger().sequence() {","if allowance.expiration_ledger <= env.ledger().sequence() {"),
 ("H12b","C12","contracts/interchain-token/src/contract.rs","!(amount > 0 && expiration_ledger < env.ledger().sequence()),","!(amount > 0 && expiration_ledger + 1 < env.ledger().sequence()),"),
 ("H15a","C15","contracts/upgrader/src/contract.rs","        ensure!(\n            contract_client.version() != new_version,\n            ContractError::SameVersion\n        );\n",""),
 ("H15b","C15","contracts/upgrader/src/contract.rs","        ensure!(\n            contract_client.version() == new_version,\n            ContractError::UnexpectedNewVersion\n        );\n",""),
]
only = sys.argv[1:] 
for name,prop,f,old,new in M:
    if only and name not in only: continue
    assert subprocess.run(['git','-C','/repo','diff','--quiet']).returncode==0, "/repo dirty"
    s=open(R+f).read()
    if name=="H06":
        # second owner require_auth in the ITS (remove_trusted_chain)
        i=s.index("fn remove_trusted_chain"); j=s.index("Self::owner(env).require_auth();", i)
        t=s[:j]+"let _ = Self::owner(env);"+s[j+len("Self::owner(env).require_auth();"):]
    else:
        if s.count(old)<1: print(name,"PATTERN NOT FOUND"); continue
        t=s.replace(old,new,1)
    open(R+f,'w').write(t)
    try:
        r=subprocess.run(['./check',prop,'quick'],cwd='/verif',capture_output=True,text=True)
        last=[l for l in r.stdout.splitlines() if l.startswith(prop+' quick')]
        nv=sum(1 for l in r.stdout.splitlines() if l.startswith('VIOLATION'))
        print(name,prop,'rc=%d'%r.returncode,'violations_lines=%d'%nv,(last[-1] if last else r.stdout[-300:]+r.stderr[-300:]),flush=True)
    finally:
        subprocess.run(['git','-C','/repo','checkout','--','.'])
