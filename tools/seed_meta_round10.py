#!/usr/bin/env python3
"""writes seeded/<name>/meta.json for the tenth round: four single-token / single-expression changes per property
(names C<nn>j<k>); `owner` = the property whose check is expected to report the change when the sub-agent's attribution
to its own property does not hold up (recorded with the reason)"""
import json, os, glob
D = {
 "C01j1": ("C01", "validate_signatures adds a signer's weight before testing whether that signer signed", "[Unsigned w=10, Signed w=1] reaches threshold 11"),
 "C01j2": ("C01", "retention check measures `current_epoch - 1` instead of `current_epoch - signers_epoch`", "after retention+1 rotations even the newest set's proofs are refused"),
 "C01j3": ("C01", "validate_signers: `<` becomes `<=` (a key may repeat)", "a set [A, A, B] can be rotated in; A alone then reaches the threshold", "C03"),
 "C01j4": ("C01", "approve_messages: `continue` becomes `break` in the already-approved skip", "batch [known, m2, m3] returns Ok but m2, m3 are not approved", "C02"),
 "C02j1": ("C02", "approve_messages: `continue` becomes `break` in the replay guard", "a known id ends the batch: later fresh messages are never approved"),
 "C02j2": ("C02", "message_approval_hash hashes only the payload hash", "is_message_approved true for a contract / source / id not named in the approval"),
 "C02j3": ("C02", "replay guard compares with the approval hash instead of NotApproved", "an executed id can be approved again; an approved id's content overwritten"),
 "C02j4": ("C02", "the message_approved event statement is duplicated", "every new approval emits two events"),
 "C03j1": ("C03", "validate_signers: `<` becomes `<=`", "rotation installs a set with a repeated or all-zero key"),
 "C03j2": ("C03", "initialize_auth drops the `?` on rotate_signers", "construction with an invalid or repeated initial set succeeds; lookups no longer inverse"),
 "C03j3": ("C03", "initial epoch literal 0 becomes 1", "after construction with one set the epoch is 2 and epoch 1 has no set"),
 "C03j4": ("C03", "rotate_signers passes `bypass` instead of `!bypass` as enforce-delay", "a plain rotation inside the delay succeeds; the operator's bypass is the one held to the delay"),
 "C04j1": ("C04", "hub-chain check `==` becomes `<=`", "a delivery from a chain sorting before \"axelar\" is executed"),
 "C04j2": ("C04", "ReceiveFromHub wrapper decoded with validate=false", "a payload with trailing bytes is executed"),
 "C04j3": ("C04", "to_i128 upper-half check `== 0` becomes `<= 0`", "amount word 2^255+1000 mints 1000"),
 "C04j4": ("C04", "get_message_type decodes the type word with validate=false", "type word 260 or 2^248+4 acted on as type 4"),
 "C05j1": ("C05", "interchain_transfer: `amount > 0` becomes `>= 0`", "a zero-amount transfer succeeds, charges gas, announces 0"),
 "C05j2": ("C05", "take_token LockUnlock: from / to of the lock transfer swapped", "a canonical outbound transfer pays the sender out of custody"),
 "C05j3": ("C05", "give_token LockUnlock: recipient replaced by the service itself", "a canonical inbound transfer credits nobody"),
 "C05j4": ("C05", "the announced source_address is the destination address", "the payload sent to the hub does not name the real sender"),
 "C06j1": ("C06", "remove_trusted_chain loses the owner's require_auth", "anyone removes a trusted chain"),
 "C06j2": ("C06", "refund asks the receiver's authorisation instead of the collector's", "the beneficiary refunds itself; the collector cannot"),
 "C06j3": ("C06", "rotate_signers passes `bypass` instead of `!bypass`", "an unauthorised rotation skips the delay; the operator's bypass is delayed"),
 "C06j4": ("C06", "gas service constructor sets the collector as owner", "the collector holds the owner role, the named owner nothing"),
 "C07j1": ("C07", "operators.execute asks the owner's authorisation instead of the operator's", "the owner alone executes as any registered operator"),
 "C07j2": ("C07", "token approve loses from.require_auth", "anyone sets an allowance on a victim's balance"),
 "C07j3": ("C07", "token burn_from loses spender.require_auth", "a stranger burns the holder's tokens through a standing allowance"),
 "C07j4": ("C07", "mint_from loses validate_amount", "a minter mints a negative amount: `to` is debited without authorising"),
 "C08j1": ("C08", "retention check measures `current_epoch - 1`", "every set installed at epoch 2 or later is refused too early"),
 "C08j2": ("C08", "latest flag `signers_epoch == current_epoch` becomes `1 == current_epoch`", "from epoch 2 on the newest set cannot rotate without bypass; validate_proof returns false for it"),
 "C08j3": ("C08", "approve_messages no longer extends the instance lifetime", "only the archival of the gateway instance differs (outside the model: expected silent)"),
 "C08j4": ("C08", "rotate_signers passes `!is_latest_signers` as enforce-delay", "a bypass rotation with a retained older set's proof is refused for the delay; the newest set's plain rotation is never delayed"),
 "C09j1": ("C09", "delay condition `now - last` becomes `now + last`", "a plain rotation is accepted well before the delay has elapsed"),
 "C09j2": ("C09", "the clock stores the previous value instead of now", "the clock never restarts"),
 "C09j3": ("C09", "rotate_signers passes `bypass` instead of `!bypass`", "the bypass is rate-limited, plain rotations never"),
 "C09j4": ("C09", "update_rotation_timestamp(env, false)", "the delay is never enforced"),
 "C10j1": ("C10", "to_i128 `== 0` becomes `<= 0`", "an amount with bit 255 set decodes as its low half"),
 "C10j2": ("C10", "type word decoded with validate=false", "tag 0x0104 taken as ReceiveFromHub"),
 "C10j3": ("C10", "get_message_type `len >= 32` becomes `>= 31`", "a 31-byte payload traps instead of InsufficientMessageLength"),
 "C10j4": ("C10", "DeployInterchainToken arm decoded with validate=false", "decimals 0x0112 or dirty string padding accepted"),
 "C11j1": ("C11", "initial_minter selection `supply > 0` becomes `!= 0`", "negative supply with a designated minter: the minter gets no right"),
 "C11j2": ("C11", "remove_minter(service) and add_minter(minter) swapped", "minter = the service itself: the service loses its minting right"),
 "C11j3": ("C11", "token constructor no longer stores the token id", "token_id() of a source-built token traps"),
 "C11j4": ("C11", "token name() returns the symbol", "a source-built token does not report the requested name"),
 "C12j1": ("C12", "read_allowance `<` becomes `<=`", "an allowance reads 0 at its expiration ledger"),
 "C12j2": ("C12", "remove_minter `.remove` becomes `.has`", "a removed minter still mints"),
 "C12j3": ("C12", "mint_from loses validate_amount", "negative mint: balances and supply go negative"),
 "C12j4": ("C12", "transfer_ownership emits set_admin(new, previous)", "the event names the wrong previous / new administrator"),
 "C13j1": ("C13", "call_contract extends the instance lifetime", "only the lifetime of the gateway instance differs (outside the model: expected silent)"),
 "C13j2": ("C13", "call_contract asks the sender's authorisation only for a non-empty payload", "an empty-payload call announced in anyone's name"),
 "C13j3": ("C13", "announced hash is over the first 32 bytes of the payload", "wrong hash for payloads longer than 32 bytes"),
 "C13j4": ("C13", "no event for an empty destination address", "an authorised call with an empty destination address announces nothing"),
 "C14j1": ("C14", "collect_fees `>=` becomes `>`", "collecting exactly the holding is refused"),
 "C14j2": ("C14", "pay_gas `amount > 0` becomes `!= 0`", "a negative payment passes the service's own check (a sign-blind token pays out)"),
 "C14j3": ("C14", "refund asks the receiver's authorisation", "anyone naming itself receiver drains the service"),
 "C14j4": ("C14", "add_gas `amount > 0` becomes `!= 0`", "as C14j2 on the top-up path"),
 "C14j5": ("C14", "collect_fees transfers to the collector instead of the receiver", "fees go to the collector whatever receiver is named"),
 "C15j1": ("C15", "migrate loses the owner's require_auth", "anybody migrates while the window is open"),
 "C15j2": ("C15", "complete_migration removes the marker from temporary storage", "the window is never closed: a second migration succeeds"),
 "C15j3": ("C15", "Upgrader pre-check `!=` becomes `<=`", "a request for the current version goes through"),
 "C15j4": ("C15", "Upgrader post-check `==` becomes `>=`", "requesting 0.1.5 when the new code reports 0.2.0 is accepted"),
 "C16j1": ("C16", "example: validation error swallowed (unwrap_or_default)", "a never-approved delivery succeeds and emits executed"),
 "C16j2": ("C16", "message_approval_hash hashes only the message id", "an approval is good for another payload, source or application"),
 "C16j3": ("C16", "validate_message returns true for an executed slot", "a second delivery goes through"),
 "C16j4": ("C16", "replay guard compares with the approval hash", "re-relaying the batch after delivery re-approves it: delivered twice"),
 "C17j1": ("C17", "execute loses operator.require_auth", "a listed operator's calls are forwarded without its authorisation"),
 "C17j2": ("C17", "execute forwards an empty argument list", "the caller's arguments never reach the target"),
 "C17j3": ("C17", "execute returns void", "the target's return value is dropped"),
 "C17j4": ("C17", "the invoke_contract line is duplicated", "every execute reaches the target twice"),
 "C18j1": ("C18", "validate_token_metadata `<=` becomes `<`", "a token with exactly 255 decimals is refused for remote deployment"),
 "C18j2": ("C18", "hub chain and hub address swapped in gateway.call_contract", "the deploy message is emitted toward chain \"hub address\" / address \"axelar\""),
 "C18j3": ("C18", "source-built token symbol() returns the name", "a canonical source-built token is announced with the wrong symbol"),
 "C18j4": ("C18", "source-built token name() returns the symbol", "... with the wrong name"),
 "C18j5": ("C18", "gateway.call_contract toward the destination chain instead of the hub chain", "the deploy message bypasses the hub"),
}
OUTSIDE = {"C08j3": "only the archival of the gateway's instance entry differs (section 7: archival is outside the model); no sentence of the property is observable differently within a history in which the instance is alive",
           "C13j1": "only the lifetime of the gateway's instance entry differs (section 7); events, return value and every query are unchanged"}
for name, tup in D.items():
    pid, chg, needs = tup[0], tup[1], tup[2]
    owner = tup[3] if len(tup) > 3 else pid
    d = '/verif/seeded/' + name
    if not os.path.isdir(d):
        print("missing", name); continue
    conf = open(d + '/confirm.txt').read().strip() if os.path.exists(d + '/confirm.txt') else ""
    k = name[4:]
    notes = '/tmp/seed10-out/%s/NOTES.md' % pid
    if os.path.exists(notes):
        open(d + '/NOTES.md', 'w').write(open(notes).read())
    for f in glob.glob(d + '/*.log'):
        os.remove(f)
    demo = [os.path.basename(f) for f in glob.glob(d + '/*.rs')]
    meta = {"breaks_property": owner, "change": chg, "needs_to_manifest": needs, "round": 10,
            "source": "independent sub-agent given only the property text and a scratch worktree, asked for four different single-token or single-expression changes (mutant %s of %s's four)" % (k, pid),
            "demonstration": demo, "confirmed_by": "tools/confirm_seed.sh in scratch worktree /tmp/confirm",
            "confirmation": conf, "how_to_run": "tools/try_mutant.sh seeded/%s/patch.diff %s" % (name, owner)}
    if owner != pid:
        meta["produced_for"] = pid
        meta["attribution_note"] = "produced for %s, whose statement it does not contradict by itself; it is %s's clause that breaks, and %s's check reports it (the identical change was also produced for %s)" % (pid, owner, owner, owner)
    if name in OUTSIDE:
        meta["reported"] = False
        meta["why_not_reported"] = OUTSIDE[name]
    json.dump(meta, open(d + '/meta.json', 'w'), indent=1)
    print(name, conf[-60:])
