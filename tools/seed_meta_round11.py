#!/usr/bin/env python3
"""writes seeded/<name>/meta.json for the eleventh round (names C<nn>k): one change per property, 18 agents, each asked to need something specific to manifest (history, boundary input, cooperating sites).  Seven agents
produced a change identical to an earlier one (C05 = C05b / C04k in substance, C11 = C11d-handover-order-service-as-minter, C14 = C14j1, C02 = C02-reapprove-executed, C16 =
C16-helper-does-not-consume, C10 = C10b-inner-transfer-not-validated, C12 = C12j1): confirmed and reported again, not
stored twice."""
import json, os, glob
D = {
 "C04k": ("C04", "abi.rs `to_i128` rewritten over 64-bit limbs; only the top limb (bits 192..255) is tested for zero, bits 128..191 of the amount word are dropped",
          "an approved, otherwise conforming receive-from-hub transfer whose amount word is k*2^128 + x is executed as a transfer of x (the typed Message cannot express it: a hand-patched payload word)"),
 "C09k": ("C09", "two cooperating sites in auth.rs: initialize_auth writes LastRotationTimestamp itself, update_rotation_timestamp returns early when the delay is not enforced - a bypass rotation no longer restarts the clock",
          "delay D > 0, a bypass rotation at time B after a rotation at P < B, then a plain rotation at t with P + D <= t < B + D is accepted"),
 "C15k": ("C15", "Upgrader post-check compares the target's version with the version read BEFORE the upgrade (`!= current_version`) instead of with the requested one",
          "a request for a version that differs from both the current one and the one the new code reports returns Ok and leaves the target upgraded and migrated"),
 "C17k": ("C17", "operators: membership read as the stored flag, remove_operator writes a `false` tombstone instead of deleting the key, while execute still guards with `has(key)`",
          "history add -> remove -> execute by the removed address: the call is forwarded although is_operator reports false"),
 "C13k": ("C13", "call_contract returns early, after require_auth, when the payload is empty",
          "an authorised call with a zero-length payload succeeds and is not announced"),
 "C03k": ("C03", "validate_signers tracks the previous key as an Option starting at None instead of the all-zero sentinel: the first key is never compared with zero",
          "a candidate or initial set whose lowest key is 32 zero bytes is installed"),
 "C06k": ("C06", "shared `transfer_ownership` asks for authorisation and writes only when the new owner differs from the current one; the event is emitted every time",
          "transfer_ownership(<current owner>) succeeds with nobody's authorisation and emits ownership_transferred, in every Ownable contract"),
 "C01k": ("C01", "validate_signatures: `let Signed(sig) = signature else { break }` - the first Unsigned entry ends the weight count",
          "an honest proof whose signing subset is not a prefix of the sorted signer list (signer 0 unsigned, 1 and 2 signed, threshold w1 + w2) is rejected"),
 "C07k": ("C07", "token spend_allowance: a partial spend writes the remainder with `from` and `spender` swapped",
          "approve(A->B, N), partial spend k by B: allowance A->B stays N and an allowance B->A of N-k appears that B never granted - A debits B with only A's authorisation"),
 "C08k": ("C08", "signature check split out of validate_proof into verify_proof; approve_messages calls verify_proof and so skips the retention test",
          "retention r, r+1 rotations, then approve_messages with a proof of the epoch-1 set is accepted (rotations and the validate_proof query unchanged)"),
 "C18k": ("C18", "deploy_remote_token narrows `token.decimals() as u8` before validate_token_metadata, so the > 255 refusal can never trigger",
          "a registered canonical token reporting 256 or 300 decimals is announced with decimals 0 / 44 and the gas payment is taken"),
}
OWNER = {"C07k": ("C12", "produced for C07; what the change breaks first is C12's sentence 'delegated transfers and burns reduce the allowance by exactly the amount spent' (the remainder is written under the swapped pair); the follow-on - the counterparty debits the spender on an allowance nobody granted - is refused by the specification for the `allowance` guard, which C12 owns; C07's instance grants unit allowances only, so no partial spend occurs in it and its check stays silent; C12's check reports the change (state differs in allowance.alice / allowance.bob, 600 violating walks)")}
for name, (pid, chg, needs) in D.items():
    d = '/verif/seeded/' + name
    if not os.path.isdir(d):
        print("missing", name); continue
    conf = open(d + '/confirm.txt').read().strip() if os.path.exists(d + '/confirm.txt') else ""
    notes = '/tmp/seed-out/%s/NOTES.md' % pid
    if os.path.exists(notes):
        open(d + '/NOTES.md', 'w').write(open(notes).read())
    for f in glob.glob(d + '/*.log'):
        os.remove(f)
    demo = [os.path.basename(f) for f in glob.glob(d + '/*.rs')]
    meta = {"breaks_property": pid, "change": chg, "needs_to_manifest": needs, "round": 11,
            "source": "independent sub-agent given only the property text and a scratch worktree",
            "demonstration": demo, "confirmed_by": "tools/confirm_seed.sh in scratch worktree /tmp/confirm",
            "confirmation": conf, "how_to_run": "tools/try_mutant.sh /verif/seeded/%s/patch.diff %s" % (name, OWNER.get(name, (pid,))[0])}
    if name in OWNER:
        meta["breaks_property"] = OWNER[name][0]; meta["produced_for"] = pid; meta["attribution_note"] = OWNER[name][1]
    json.dump(meta, open(d + '/meta.json', 'w'), indent=1)
    print(name, conf[-60:])
