#!/usr/bin/env python3
"""writes seeded/<name>/meta.json for the eleventh round (names C<nn>k): one change per property for C04, C09, C15, C17,
C18, each asked to need something specific to manifest (history, boundary input, cooperating sites).  The agent for C14
produced `collect_fees >= becomes >`, byte-identical to C14j1 of round 10: confirmed and reported again, not stored twice."""
import json, os, glob
D = {
 "C04k": ("C04", "abi.rs `to_i128` rewritten over 64-bit limbs; only the top limb (bits 192..255) is tested for zero, bits 128..191 of the amount word are dropped",
          "an approved, otherwise conforming receive-from-hub transfer whose amount word is k*2^128 + x is executed as a transfer of x (the typed Message cannot express it: a hand-patched payload word)"),
 "C09k": ("C09", "two cooperating sites in auth.rs: initialize_auth writes LastRotationTimestamp itself, update_rotation_timestamp returns early when the delay is not enforced - a bypass rotation no longer restarts the clock",
          "delay D > 0, a bypass rotation at time B after a rotation at P < B, then a plain rotation at t with P + D <= t < B + D is accepted"),
 "C15k": ("C15", "Upgrader post-check compares the target's version with the version read BEFORE the upgrade (`!= current_version`) instead of with the requested one",
          "a request for a version that differs from both the current one and the one the new code reports returns Ok and leaves the target upgraded and migrated"),
 "C17k": ("C17", "operators: membership read as the stored flag, remove_operator writes a `false` tombstone instead of deleting the key, while execute still guards with `has(key)`",
          "history add -> remove -> execute by the removed address: the call is forwarded although is_operator reports false"),
 "C18k": ("C18", "deploy_remote_token narrows `token.decimals() as u8` before validate_token_metadata, so the > 255 refusal can never trigger",
          "a registered canonical token reporting 256 or 300 decimals is announced with decimals 0 / 44 and the gas payment is taken"),
}
for name, (pid, chg, needs) in D.items():
    d = '/verif/seeded/' + name
    if not os.path.isdir(d):
        print("missing", name); continue
    conf = open(d + '/confirm.txt').read().strip() if os.path.exists(d + '/confirm.txt') else ""
    notes = '/tmp/seed-out/%s/NOTES.md' % pid
    if os.path.exists(notes):
        open(d + '/NOTES.md', 'w').write(open(notes).read())
    for f in glob.glob(d + '/*.log'):
        os.remove(f)
    demo = [os.path.basename(f) for f in glob.glob(d + '/*.rs')]
    meta = {"breaks_property": pid, "change": chg, "needs_to_manifest": needs, "round": 11,
            "source": "independent sub-agent given only the property text and a scratch worktree",
            "demonstration": demo, "confirmed_by": "tools/confirm_seed.sh in scratch worktree /tmp/confirm",
            "confirmation": conf, "how_to_run": "tools/try_mutant.sh seeded/%s/patch.diff %s" % (name, pid)}
    json.dump(meta, open(d + '/meta.json', 'w'), indent=1)
    print(name, conf[-60:])
