#!/bin/sh
# every seeded change against its own property's quick check (apply, check, undo); writes seeded/DIAGONAL.md
# usage: tools/seeds_regress.sh [name-prefix ...]
cd /verif
out=seeded/DIAGONAL.md.tmp
: > $out
sel="$*"
for d in seeded/C*/; do
  n=$(basename $d)
  if [ -n "$sel" ]; then ok=0; for s in $sel; do case $n in $s*) ok=1;; esac; done; [ $ok = 1 ] || continue; fi
  p=$(python3 -c "import json;print(json.load(open('$d/meta.json'))['breaks_property'])")
  rep=$(python3 -c "import json;print(json.load(open('$d/meta.json')).get('reported', True))")
  git -C /repo diff --quiet || { echo "/repo has local changes" >&2; exit 3; }
  git -C /repo apply $PWD/$d/patch.diff || { echo "| $n | $p | patch does not apply |" >> $out; continue; }
  ./check $p quick > work/seed_run.log 2>&1; rc=$?
  git -C /repo checkout -- .
  nv=$(grep -c '^VIOLATION' work/seed_run.log)
  [ "$rep" = "False" ] && n="$n (outside the model: expected silent)"
  echo "| $n | $p | rc=$rc | $nv | $(grep -E "^$p quick:" work/seed_run.log | sed 's/.*transitions, //') |" >> $out
  echo "$n $p rc=$rc violations=$nv"
done
dest=seeded/DIAGONAL.md; [ -n "$sel" ] && dest=seeded/DIAGONAL.partial.md   # a selection never overwrites the full table
{ echo "# Every seeded change against its own property's quick check"; echo; echo "| change | property | exit | VIOLATION lines | run |"; echo "|---|---|---|---|---|"; cat $out; } > $dest
rm -f $out
