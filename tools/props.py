"""Per-property job lists and slice policies (DESIGN.md 2.4 / 5)."""

GW_EVENTS = ["message_approved", "message_executed", "signers_rotated", "contract_called",
             "ownership_transferred", "operatorship_transferred"]

ITS_EVENTS = ["contract_called", "gas_paid", "delivery_executed", "transfer_received", "token_executed",
              "trusted_chain_set", "trusted_chain_removed", "token_id_claimed", "ownership_transferred"]

GW_IND = {"kind": "apalache", "tiers": ["thorough"], "module": "GatewayInd", "inv": "IndInv", "refute": "NotInvariant", "refute_init": "RefuteInit"}
GW_TRACE = {"kind": "trace", "spec": "TraceGateway", "module": "Gateway", "quick": (8, 250), "thorough": (64, 600)}

TOKEN_TRACE = {"kind": "trace", "spec": "TraceToken", "module": "Token", "quick": (8, 300), "thorough": (64, 800)}
GAS_TRACE = {"kind": "trace", "spec": "TraceGas", "module": "GasService", "quick": (8, 300), "thorough": (64, 800)}
ITS_TRACE = {"kind": "trace", "spec": "TraceITS", "module": "ITS", "quick": (8, 100), "thorough": (24, 300), "tlc_timeout": 3600}
ITS_IND = {"kind": "apalache", "tiers": ["thorough"], "module": "ITSInd", "inv": "IndInv", "refute": "NotInvariant", "refute_init": "RefuteInit"}
SMALL_TRACES = [dict(t, quick=(4, 120)) for t in (GW_TRACE, TOKEN_TRACE, GAS_TRACE)] + [dict(ITS_TRACE, quick=(4, 80))]

SYSTEM_JOB = {"kind": "graph", "spec": "MC_System", "module": "System", "evkinds": GW_EVENTS + ITS_EVENTS,
              "need": ["ApproveMessages/ok", "ApproveMessages/retention", "ApproveMessages/signatures", "RotateSigners/ok",
                       "Execute/ok", "Execute/approved", "Execute/hub_chain", "DeployInterchainToken/ok"],
              "max_len": 40}

GOOD_PROOF = {"set": "s1", "sigs": ["Valid", "Valid"]}


def ctl_c02(e, g):
    """control for C02: the same entry point on a never-used key cannot be built inside the instance;
    instead relax the message dimension: approval of the same batch is the control for itself (none)."""
    return None


def sibling_control(match_keys, vary_key):
    """control = a sibling transition from the same pre-state that the specification accepts, equal to the
    failing one on `match_keys` and different on `vary_key` (the property's own dimension relaxed)."""
    def f(e, g):
        if not e['exp']['ok']:
            return None
        a = e['act']
        for ei in g.out[e['_pre']]:
            o = g.edges[ei]
            b = o['act']
            if o is e or not o['exp']['ok'] or b['name'] != a['name']:
                continue
            if all(b.get(k) == a.get(k) for k in match_keys) and b.get(vary_key) != a.get(vary_key):
                return [b]
        return None
    return f


def c17_control(e, g):
    """C17: every other forwarded call of the same operator with the same authorisers toward the same target that the
    specification accepts (another argument kind, or the function that takes no argument)"""
    if not e['exp']['ok'] or e['act']['name'] != 'Execute':
        return sibling_control(["op", "auth", "acct", "target"], "arg")(e, g)
    a = e['act']
    alts = []
    for ei in g.out[e['_pre']]:
        o = g.edges[ei]
        b = o['act']
        if o is e or not o['exp']['ok'] or b['name'] != 'Execute':
            continue
        if all(b.get(k) == a.get(k) for k in ("op", "auth", "target")) and (b.get('fn'), b.get('arg')) != (a.get('fn'), a.get('arg')):
            alts.append([b])
    # one per (function, argument kind)
    seen, out = set(), []
    for x in alts:
        k = (x[0].get('fn'), x[0].get('arg'))
        if k not in seen:
            seen.add(k); out.append(x)
    return out[:6] or None


def c18_control(e, g):
    """C18: the same request toward another destination, or for another registered token (other salt / other
    canonical token, same caller, payer, gas and destination) that the specification also accepts - the
    property's own dimensions (destination, token and its metadata) relaxed one at a time"""
    if not e['exp']['ok']:
        return None
    a = e['act']
    alts = []
    for vary in ('dest', 'salt', 'tok'):
        keep = [k for k in ("name", "caller", "salt", "tok", "spender", "auth", "gas", "dest") if k != vary]
        for ei in g.out[e['_pre']]:
            o = g.edges[ei]
            b = o['act']
            if o is e or not o['exp']['ok'] or b['name'] != a['name'] or vary not in b:
                continue
            if all(b.get(k) == a.get(k) for k in keep) and b.get(vary) != a.get(vary):
                alts.append([b])
                break
    return alts or None


def latest_proof_control(e, g):
    """C08: the same call with a proof from the newest set"""
    if not e['exp']['ok'] or 'proof' not in e['act']:
        return None
    latest = e['pre']['hashByEpoch'][-1] if e['pre'].get('hashByEpoch') else None
    if latest is None or e['act']['proof']['set'] == latest:
        return None
    for ei in g.out[e['_pre']]:
        b = g.edges[ei]['act']
        if g.edges[ei]['exp']['ok'] and b['name'] == e['act']['name'] and b.get('proof', {}).get('set') == latest \
                and all(b.get(k) == e['act'].get(k) for k in ('new', 'bypass', 'auth', 'msgs', 'data')):
            return [b]
    return None


def wait_longer_control(e, g):
    """C09: the same rotation after waiting well past the delay"""
    if not e['exp']['ok'] or e['act']['name'] != 'RotateSigners':
        return None
    return [{"name": "Tick", "dt": 50}, e['act']]


def all_valid_control(e, g):
    """C01: the same call with every signer's valid signature attached"""
    a = e['act']
    if not e['exp']['ok'] or 'proof' not in a or all(t == 'Valid' for t in a['proof']['sigs']):
        return None
    b = dict(a)
    b['proof'] = {'set': a['proof']['set'], 'sigs': ['Valid'] * len(a['proof']['sigs'])}
    return [b]


TOKEN_EVENTS = ["mint", "transfer", "burn", "approve", "set_admin", "minter_added", "minter_removed", "ownership_transferred"]


def zero_amount_control(e, g):
    """token/gas rules: the same call with amount 0 (auth and roles unchanged), or, for a zero-amount call,
    a sibling with another amount"""
    a = e['act']
    if not e['exp']['ok'] or 'amt' not in a:
        return None
    if a['amt'] != 0:
        b = dict(a); b['amt'] = 0
        return [[b]]
    alts = []
    for ei in g.out[e['_pre']]:
        o = g.edges[ei]
        b = o['act']
        if o['exp']['ok'] and b['name'] == a['name'] and b.get('amt') != 0 and \
                all(b.get(k) == a.get(k) for k in a if k not in ('amt', 'exp')):
            alts.append([b])
            if len(alts) >= 2:
                break
    return alts or None


def other_amount_control(e, g):
    """the same call with a different amount that the specification accepts"""
    a = e['act']
    if not e['exp']['ok'] or 'amt' not in a:
        return None
    alts = []
    for ei in g.out[e['_pre']]:
        o = g.edges[ei]
        b = o['act']
        if o['exp']['ok'] and b['name'] == a['name'] and b.get('amt') != a['amt'] and \
                all(b.get(k) == a.get(k) for k in a if k != 'amt'):
            alts.append([b])
    return alts[:3] or None


FEES_EV = ["gas_paid", "gas_added", "gas_collected", "gas_refunded", "operator_added", "operator_removed", "ownership_transferred"]


def fees_job(need, upstream=()):
    """the operators contract deployed as the gas service's collector (spec/Fees.tla): fees leave only through a
    forwarded call of a current operator.  `upstream`: guards of the contract in front (the operators contract seen
    from the gas service's property)"""
    return {"kind": "graph", "spec": "MC_Fees", "module": "Fees", "evkinds": FEES_EV, "need": need,
            "control": other_amount_control, "quick_edges": 12000, "policy_extra": {"upstream_guards": list(upstream)}}


def bridge_job(need, control=None):
    """two deployments of the service joined by the hub (spec/Bridge.tla): the bytes one side announces are the bytes
    the other side is handed"""
    return {"kind": "graph", "spec": "MC_Bridge", "module": "Bridge", "evkinds": ITS_EVENTS, "need": need, "control": control,
            "max_len": 40, "workers": 16, "quick_edges": 2500, "thorough_edges": 40000, "field_prefixes": ["A.", "B."],
            "revisit": {"quick_budget": 800, "quick_arrival_budget": 800}}


C04_NEED = ["Execute/ok", "Execute/approved", "Deliver/ok", "Deliver/is_receive_from_hub", "Deliver/hub_chain",
            "Deliver/decodes", "Deliver/origin_trusted", "Deliver/recipient_decodes", "Deliver/registered", "Deliver/already_deployed",
            "Deliver/metadata", "Deliver/minter_decodes", "Deliver/receiver_ok", "Deliver/custody", "SetTrusted/ok", "RemoveTrusted/ok"]


def conforming_delivery_control(e, g):
    """C04: the plain conforming transfer delivered under a fresh id in the same state"""
    a = e['act']
    if not e['exp']['ok'] or a['name'] not in ('Execute', 'Deliver'):
        return None
    ctl = {"name": "Deliver", "payload": "p_tx", "srcChain": "axelar", "srcAddr": "hub"}
    if a == ctl:
        return None
    return [ctl]


C05_NEED = ["InterchainTransfer/ok", "InterchainTransfer/positive_amount", "InterchainTransfer/balance", "InterchainTransfer/destination_trusted",
            "InterchainTransfer/registered", "InterchainTransfer/gas_positive", "InterchainTransfer/gas_balance", "Deliver/ok", "Deliver/custody",
            "Deliver/receiver_ok", "DeployInterchainToken/ok", "RegisterCanonical/ok", "RemoveTrusted/ok"]

C18_NEED = ["DeployRemoteInterchainToken/ok", "DeployRemoteInterchainToken/registered", "DeployRemoteInterchainToken/destination_trusted",
            "DeployRemoteInterchainToken/named_auth", "DeployRemoteInterchainToken/gas_positive", "DeployRemoteInterchainToken/gas_balance",
            "DeployRemoteCanonical/ok", "DeployRemoteCanonical/metadata", "DeployRemoteCanonical/registered", "DeployRemoteCanonical/gas_auth",
            "SetFakeMeta/ok", "RemoveTrusted/ok"]

PROPS = {
    "C02": {
        "title": "Each message is approved once and executed once, only by its destination",
        "policy": {
            "guards": [],
            "fields": ["status"],
            "events": ["message_approved", "message_executed"],
            "rets": ["ValidateMessage"],
            # approvals with a canonical valid proof and consumption by the authorised caller are
            # always accepted by the specification: a refusal is charged through the control rule
        },
        "jobs": [
            {"kind": "graph", "spec": "MC_C02", "module": "Gateway", "evkinds": GW_EVENTS,
             "need": ["ApproveMessages/ok", "ValidateMessage/ok"]},
            {"kind": "graph", "spec": "MC_C02", "cfg": "MC_C02_deep", "tiers": ["thorough"], "module": "Gateway", "evkinds": GW_EVENTS,
             "need": ["ApproveMessages/ok", "ValidateMessage/ok"]},
            GW_TRACE,
            # unbounded epochs / clock / configuration, on the design (Apalache inductive invariant)
            GW_IND,
        ],
        "level_text": "TLC proves the status-monotonicity / exactly-once invariants on every reachable state of a finite instance (all interleavings, no depth bound) and every one of its transitions is executed against the real gateway with the specification's post-state as oracle. Thorough additionally discharges, with Apalache, an inductive invariant of the gateway design over unbounded epochs, clock values, retention and delay settings (spec/apalache/GatewayInd.tla).",
        "rule": "cases = transitions (pre-state, action) of the bounded TLC instance replayed against the contracts; "
                "distinct = distinct (abstract pre-state, action) pairs; every one changes or probes message status",
        "assumptions": ["soroban-env-host test mode implements on-chain semantics (rollback, require_auth, crypto)",
                        "bounds: 4 message keys (two sharing an id across chains) with 7 contents, batches of <= 2 messages, one signer set"],
    },
    "C03": {
        "title": "Rotation installs only well-formed sets, authorised by the latest signers",
        "policy": {
            "guards": ["wellformed", "duplicate", "latest_or_bypass", "signatures", "set_known", "nonempty_list", "operator_auth"],
            "fields": ["epoch", "hashByEpoch", "epochOf"],
            "invariants": ["LookupsInverse", "InstalledWellFormed", "EpochLen"],
            "events": ["signers_rotated"],
            "rets": [],
        },
        "jobs": [
            {"kind": "graph", "spec": "MC_C03", "module": "Gateway", "evkinds": GW_EVENTS,
             "need": ["RotateSigners/ok", "RotateSigners/wellformed", "RotateSigners/duplicate",
                      "RotateSigners/latest_or_bypass", "Construct/ok", "Construct/wellformed", "Construct/duplicate"],
             "control": sibling_control(["proof", "bypass", "auth"], "new")},
            GW_TRACE,
            # unbounded epochs / clock / configuration, on the design (Apalache inductive invariant)
            GW_IND,
        ],
        "level_text": "TLC proves epoch +1 / inverse lookups / well-formed-and-fresh / frame on every reachable state of the bounded instance; every transition (13 candidate shapes x proof kinds x bypass x operator auth over all histories of <= 4 rotations, and 20 constructor lists) is executed against the real gateway and epoch(), signers_hash_by_epoch(0..epoch+1), epoch_by_signers_hash(every catalogue hash) are compared. Thorough additionally discharges, with Apalache, an inductive invariant of the gateway design over unbounded epochs, clock values, retention and delay settings (spec/apalache/GatewayInd.tla).",
        "rule": "cases = transitions of the bounded TLC instance replayed against the contracts; distinct = distinct (abstract pre-state, action) pairs; each is a rotation or construction attempt",
        "assumptions": ["soroban-env-host test mode implements on-chain semantics", "u128 weights on a lattice: abstract w -> w*(2^128-1)/15, so overflow and threshold comparisons coincide exactly",
                        "bounds: 13 candidate sets, <= 5 epochs, retention 1, delay 0"],
    },
    "C08": {
        "title": "Old signer sets stay valid for exactly the configured number of rotations",
        # `duplicate`: a set installed a second time has two epochs - whichever one the lookup keeps, the window
        # statement is false for the other installation (its proofs are honoured after expiry, or the newest set
        # is refused), so accepting a repeated set is this property's business as well as C03's
        # using a proof must not move the bookkeeping the window is computed from (a set's recorded epoch, the epoch
        # counter): a set whose age restarts when it signs is honoured beyond the window
        "policy": {"guards": ["retention", "latest_or_bypass", "duplicate"], "fields": [], "events": [], "rets": ["ValidateProof"],
                   "act_fields": {"ApproveMessages": ["epoch", "epochOf", "hashByEpoch"], "ValidateProof": ["epoch", "epochOf", "hashByEpoch"]},
                   # "is honoured while at most the configured retention number of newer sets have been installed":
                   # a proof signed by EVERY member of a retained set must be accepted (which subsets suffice is C01's)
                   "complete_actions": ["ApproveMessages", "ValidateProof"], "complete_when": "full_proof"},
        "jobs": [
            # long histories (24 epochs) against retention settings in the tens and at the top of u64
            {"kind": "graph", "spec": "MC_C08L", "cfg": "MC_C08L_r16", "module": "Gateway", "evkinds": GW_EVENTS,
             "need": ["ApproveMessages/ok", "ApproveMessages/retention", "ValidateProof/retention", "RotateSigners/ok"], "control": latest_proof_control, "max_len": 60},
            {"kind": "graph", "spec": "MC_C08L", "cfg": "MC_C08L_r20", "tiers": ["thorough"], "module": "Gateway", "evkinds": GW_EVENTS,
             "need": ["ApproveMessages/ok", "ApproveMessages/retention"], "control": latest_proof_control, "max_len": 60},
            {"kind": "graph", "spec": "MC_C08L", "cfg": "MC_C08L_rmax", "module": "Gateway", "evkinds": GW_EVENTS,
             "need": ["ApproveMessages/ok", "RotateSigners/ok"], "control": latest_proof_control, "max_len": 60},
        ] + [
            {"kind": "graph", "spec": "MC_C08", "cfg": "MC_C08_r%s" % r, "module": "Gateway", "evkinds": GW_EVENTS,
             "need": ["ApproveMessages/ok", "RotateSigners/ok", "ValidateProof/ok"] + ([] if r in ("9", "max", "max1") else ["ApproveMessages/retention", "RotateSigners/retention"]),
             "control": latest_proof_control}
            # "1d": retention 1 with a minimum rotation delay that never elapses (the clock stands still): a bypass rotation
            # must still be honoured for every retained set, plain rotations are refused for the delay
            for r in ["0", "1", "1d", "2", "9", "max", "max1"]
        ] + [
            {"kind": "graph", "spec": "MC_C08", "cfg": "MC_C08_%s" % r, "tiers": ["thorough"], "module": "Gateway", "evkinds": GW_EVENTS,
             "need": ["ApproveMessages/ok", "ApproveMessages/retention", "RotateSigners/retention"], "control": latest_proof_control}
            for r in ["deep1", "deep3"]
        ] + [GW_TRACE, GW_IND],
        "level_text": "TLC proves honoured <=> epoch distance <= retention for approvals, proof checks and bypass rotations and 'plain rotation only by the newest set' on every reachable state; the instance keeps the route (1..3 initial sets, plain/bypass per epoch) in its state, so a proof from every installed epoch is replayed against the real gateway after every history of <= 6 epochs, for retention 0, 1, 2 and 9. Thorough additionally discharges, with Apalache, an inductive invariant of the gateway design over unbounded epochs, clock values, retention and delay settings (spec/apalache/GatewayInd.tla).",
        "rule": "cases = transitions of the bounded TLC instances (one per retention setting) replayed against the contracts; distinct = distinct (route, action) pairs, each a proof from one installed epoch through one entry point",
        "assumptions": ["soroban-env-host test mode implements on-chain semantics", "bounds: <= 6 epochs, retention in {0,1,2,9}, 1..3 initial sets"],
    },
    "C09": {
        "title": "Rotations are rate-limited unless the operator bypasses the delay",
        "policy": {"guards": ["delay", "operator_auth"], "fields": [], "events": [], "rets": []},
        "jobs": [
            {"kind": "graph", "spec": "MC_C09", "cfg": "MC_C09_%s" % d, "module": "Gateway", "evkinds": GW_EVENTS,
             "need": ["RotateSigners/ok", "RotateSigners/operator_auth", "Tick/ok"] + ([] if d == "d0" else ["RotateSigners/delay"]),
             "control": wait_longer_control}
            # d10z / d10top: the absolute ledger clock is 0 / within 1000 s of u64::MAX at deployment
            # dmax / dmax1: the delay is u64::MAX / u64::MAX - 1 (last rotation + delay does not fit into u64)
            for d in ["d0", "d1", "d10", "d10big", "d10z", "d10top", "dmax", "dmax1"]
        ] + [
            {"kind": "graph", "spec": "MC_C09", "cfg": "MC_C09_d30", "tiers": ["thorough"], "module": "Gateway", "evkinds": GW_EVENTS,
             "need": ["RotateSigners/ok", "RotateSigners/delay"], "control": wait_longer_control},
        ] + [GW_TRACE, GW_IND],
        "level_text": "TLC proves the delay limit, its completeness at the boundary, the clock rule (restart on every success incl. bypass, untouched on failure) and operator-only bypass on every reachable state; every transition (time steps of 1, D-1, D, D+1 interleaved with plain/bypass rotations that succeed or fail) is replayed against the real gateway with the ledger timestamp set by the harness.  The rotation clock is not observable; it is decided by the accept/reject outcome of every later rotation in the graph. Thorough additionally discharges, with Apalache, an inductive invariant of the gateway design over unbounded epochs, clock values, retention and delay settings (spec/apalache/GatewayInd.tla).",
        "rule": "cases = transitions of the bounded TLC instances (one per minimum delay) replayed against the contracts; distinct = distinct (abstract pre-state incl. now and last rotation time, action) pairs",
        "assumptions": ["soroban-env-host test mode implements on-chain semantics", "bounds: <= 4 epochs, delay in {0,1,10,10*2^40 s}, time horizon 2*delay+3"],
    },
    "C01": {
        "title": "Approvals need threshold-weight signatures from a live signer set",
        "policy": {"guards": ["signatures", "set_known"], "fields": [], "events": [], "rets": [],
                   # checking a proof must not move what proofs are checked against (installed sets and their epochs)
                   "act_fields": {"ApproveMessages": ["epoch", "epochOf", "hashByEpoch"], "ValidateProof": ["epoch", "epochOf", "hashByEpoch"]},
                   # "every honestly built proof ... is accepted": a refused honest proof is charged even when the control fails too
                   "complete_actions": ["ApproveMessages", "ValidateProof"]},
        "jobs": [
            {"kind": "graph", "spec": "MC_C01", "cfg": "MC_C01_%s" % c, "module": "Gateway", "evkinds": GW_EVENTS,
             "need": ["ApproveMessages/ok", "ApproveMessages/signatures", "ApproveMessages/set_known",
                      "ValidateProof/ok", "ValidateProof/signatures", "ValidateProof/retention"],
             "control": all_valid_control}
            for c in ["max", "unit"]
        ] + [
            # retention settings at the top of the u64 range ("keep old sets for ever"): every honest proof must still be accepted
            {"kind": "graph", "spec": "MC_C01", "cfg": "MC_C01_%s" % c, "module": "Gateway", "evkinds": GW_EVENTS,
             "need": ["ApproveMessages/ok", "ValidateProof/ok"], "control": all_valid_control, "quick_edges": 3000}
            for c in ["rmax", "rmax1"]
        ] + [
            {"kind": "graph", "spec": "MC_C01", "cfg": "MC_C01_deep", "tiers": ["thorough"], "module": "Gateway", "evkinds": GW_EVENTS,
             "need": ["ApproveMessages/ok", "ApproveMessages/signatures"], "control": all_valid_control},
        ] + [GW_TRACE],
        "level_text": "TLC proves soundness (accepted => retained set and valid weight >= threshold), completeness (honest sufficient subset => accepted) and the frame rule on every reachable state; every transition - all 8^n signature-tag vectors for every installed set, nine single tamperings of the declared set, claimed sets latest/retained/expired/unknown - is executed against the real gateway with signatures and digests built by the harness's own recipe (sha3 Keccak, ed25519-dalek), on the u128 lattice (threshold = total = u128::MAX) and in unit weights.",
        "rule": "cases = transitions of the two bounded TLC instances replayed against the contracts; distinct = distinct (pre-state, entry point, declared set, tag vector) tuples",
        "assumptions": ["soroban-env-host test mode implements on-chain semantics incl. Ed25519 and Keccak", "the signing digest layout keccak(domain || keccak(xdr(signers)) || keccak(xdr((command, data)))) is part of the external protocol and pinned by the harness",
                        "bounds: sets of 1..3 signers, <= 4 epochs, retention 1; weight sums past u128::MAX inside the verification loop are unreachable for installed (well-formed) sets"],
    },
    "C13": {
        "title": "Outbound calls are announced exactly, and only under the sender's authority",
        "policy": {"guards": ["named_auth"], "fields": [], "act_fields": {"CallContract": ["*"]}, "events": ["contract_called"], "rets": []},
        "jobs": [
            {"kind": "graph", "spec": "MC_C13", "module": "Gateway", "evkinds": GW_EVENTS,
             "need": ["CallContract/ok", "CallContract/named_auth"],
             "control": sibling_control(["caller", "via", "through", "auth"], "payload")},
            GW_TRACE,
        ],
        "level_text": "TLC proves 'exactly one announcement with these fields, no state change, only under the sender's authority' for every action of the instance; every one (3 kinds of sender x authorisers x 12 destination string pairs x 7 payload sizes up to 20 KiB) is executed against the real gateway. Bit-exactness of the published hash is decided by the binding's independent Keccak-256 (sha3 crate), not by TLC.",
        "rule": "cases = call_contract transitions replayed against the contract; distinct = distinct (sender kind, authorisers, chain, address, payload) tuples",
        "assumptions": ["soroban-env-host test mode implements on-chain semantics", "Keccak-256 of the sha3 crate is the reference hash"],
    },
    "C12": {
        "title": "Token balances, allowances and supply follow the standard token rules",
        "policy": {"guards": ["is_minter", "amount", "expiry", "allowance", "balance", "overflow"],
                   "fields": ["bal", "allowance", "minters"], "invariants": ["NonNegative"],
                   "events": ["mint", "transfer", "burn", "approve", "set_admin", "minter_added", "minter_removed"], "rets": []},
        "jobs": [
            {"kind": "graph", "spec": "MC_C12", "cfg": "MC_C12_unit", "module": "Token", "evkinds": TOKEN_EVENTS,
             "need": ["Transfer/ok", "Transfer/balance", "TransferFrom/ok", "TransferFrom/allowance", "BurnFrom/ok",
                      "Approve/ok", "Approve/expiry", "Approve/host_ttl", "Mint/ok", "Burn/ok", "AdvanceLedger/ok"],
             "control": zero_amount_control, "quick_edges": 20000, "max_len": 40},
            {"kind": "graph", "spec": "MC_C12", "cfg": "MC_C12_max", "module": "Token", "evkinds": TOKEN_EVENTS,
             "need": ["Mint/overflow", "Transfer/overflow", "TransferFrom/ok"],
             "control": zero_amount_control, "quick_edges": 10000, "max_len": 40},
            {"kind": "graph", "spec": "MC_C12", "cfg": "MC_C12_roles", "module": "Token", "evkinds": TOKEN_EVENTS,
             "need": ["MintFrom/ok", "MintFrom/is_minter", "Mint/is_minter", "AddMinter/ok", "RemoveMinter/ok", "TransferOwnership/ok",
                      "Clawback/unimplemented", "SetAuthorized/unimplemented", "Authorized/unimplemented"],
             "control": zero_amount_control},
            TOKEN_TRACE,
            # unbounded histories and unbounded amounts, on the design: non-negativity and supply = minted - burned
            {"kind": "apalache", "tiers": ["thorough"], "module": "TokenInd", "inv": "IndInv", "refute": "NotInvariant"},
        ],
        "level_text": "TLC proves the token step rules (exact deltas, conservation of supply, non-negativity, allowance decrease and expiry, minters only, admin event names previous and new) on every transition of three finite instances (unit amounts; the i128 lattice where 2 units = i128::MAX-1; minter/owner changes) - all interleavings, no depth bound; transitions are executed against the natively registered token from /repo and balances, effective allowances of all pairs, minters and events compared. Quick replays a node cover plus a seeded sample, thorough every edge.",
        "rule": "cases = transitions of the bounded TLC instances replayed against the contract; distinct = distinct (abstract pre-state, action) pairs",
        "assumptions": ["soroban-env-host test mode implements on-chain semantics incl. temporary-entry expiry", "host max_ttl is read at run time and must equal the instance's MaxLive",
                        "bounds: 3 users + owner, supply <= 2 units, one allowance pair, ledger 1..3"],
    },
    "C14": {
        "title": "The gas service holds exactly what was paid in minus what its collector paid out",
        "policy": {"guards": ["positive_amount", "negative_amount", "collector_auth", "sufficient_balance", "balance"],
                   "fields": ["bal", "collector"], "invariants": ["NonNegative"], "events": ["gas_paid", "gas_added", "gas_collected", "gas_refunded"], "rets": []},
        "jobs": [
            {"kind": "graph", "spec": "MC_C14", "init_owned": ["collector"], "module": "GasService", "evkinds": ["gas_paid", "gas_added", "gas_collected", "gas_refunded"],
             "need": ["PayGas/ok", "PayGas/positive_amount", "PayGas/balance", "AddGas/ok", "CollectFees/ok",
                      "CollectFees/collector_auth", "CollectFees/sufficient_balance", "Refund/ok", "Refund/collector_auth", "Refund/sufficient_balance"],
             "control": other_amount_control, "quick_edges": 25000},
            # owner and collector are the same address at deployment; ownership then moves on and back
            {"kind": "graph", "spec": "MC_C14R", "module": "GasService", "evkinds": ["gas_paid", "gas_added", "gas_collected", "gas_refunded", "ownership_transferred"],
             "need": ["CollectFees/ok", "CollectFees/collector_auth", "Refund/collector_auth", "TransferOwnership/ok"], "control": other_amount_control},
            fees_job(["PayGas/ok", "OpExecute/ok", "OpExecute/sufficient_balance", "OpExecute/negative_amount", "CollectFees/collector_auth", "Refund/collector_auth"],
                     upstream=["is_operator", "named_auth", "role_auth", "membership"]),
            # unbounded amounts and histories: the balance equation as an inductive invariant (Apalache)
            {"kind": "apalache", "tiers": ["thorough"], "module": "FeesInd", "inv": "IndInv", "refute": "NotInvariant", "refute_init": "RefuteInit"},
            GAS_TRACE,
        ],
        "level_text": "TLC proves the step rules (exact movement between spender/receiver and the service, per-token conservation, pay-outs only with the collector's authorisation and never beyond the holding, one event with the same token and amount, rejected calls move nothing) on every transition of a finite instance (all interleavings); the transitions are executed against the real gas service with a Stellar asset contract and the natively registered interchain token, comparing every balance of both tokens after every step.  Composed with the operators contract as collector (spec/Fees.tla, MC_Fees): pay-outs only through a forwarded call of a current operator who authorised it; the gas part of every composed step is a GasService step.  Thorough additionally discharges, with Apalache, an inductive invariant of the design over unbounded integer amounts and unbounded histories (spec/apalache/FeesInd.tla): holding = paid in - paid out (+ donated), no negative balance, constant supply, the holding shrinks only in a current operator's step.",
        "rule": "cases = transitions of the bounded TLC instance replayed against the contracts; distinct = distinct (abstract pre-state, action) pairs",
        "assumptions": ["soroban-env-host test mode implements on-chain semantics incl. the built-in Stellar asset contract", "bounds: 2 tokens x 3 units, 2 spenders, 2 receivers, amounts -1..3"],
    },
    "C17": {
        "title": "Only current operators act via the operators contract; calls forward intact",
        "policy": {"guards": ["is_operator", "membership", "target_ok", "named_auth", "role_auth"],
                   "fields": ["operators"], "events": ["probe_call", "operator_added", "operator_removed"], "rets": ["Execute"]},
        "jobs": [
            {"kind": "graph", "spec": "MC_C17", "module": "Operators",
             "evkinds": ["probe_call", "operator_added", "operator_removed", "ownership_transferred"],
             "need": ["Execute/ok", "Execute/is_operator", "Execute/named_auth", "Execute/target_ok", "AddOperator/ok",
                      "AddOperator/membership", "RemoveOperator/ok", "RemoveOperator/membership", "AddOperator/role_auth"],
             "control": c17_control},
            fees_job(["OpExecute/ok", "OpExecute/is_operator", "OpExecute/named_auth", "AddOperator/ok", "RemoveOperator/ok", "AddOperator/role_auth"]),
            # unbounded histories, any number of operators and owners, on the design
            {"kind": "apalache", "tiers": ["thorough"], "module": "OperatorsInd", "inv": "IndInv", "refute": "NotInvariant", "refute_init": "RefuteInit"},
        ],
        "level_text": "TLC proves member-and-authorised-only forwarding, owner-only set changes (add absent / remove present) and intact forwarding (one probe record with the same target, function and argument; value returned unchanged; failing target fails the whole call) on every transition of a finite instance whose membership is three-valued (never / member / former); all transitions are executed against the real operators contract with recording probe contracts as targets.  Composed with the gas service whose collector the operators contract is (spec/Fees.tla, MC_Fees): forwarded collect_fees / refund / transfer_ownership with the authorisation given for the forwarding call, for the inner call only, or not at all. Thorough additionally discharges, with Apalache, an inductive invariant of the design over unbounded histories, operator sets and owners (spec/apalache/OperatorsInd.tla).",
        "rule": "cases = transitions of the bounded TLC instance replayed against the contracts; distinct = distinct (membership history state, action) pairs",
        "assumptions": ["soroban-env-host test mode implements on-chain semantics", "bounds: 2 candidate operators, 2 owners, 2 probe targets, 4 return-value kinds"],
    },
    "C15": {
        "title": "Owner-only upgrades, one migration per upgrade, all-or-nothing Upgrader",
        "policy": {"guards": ["role_auth", "upgrade_auth", "migrate_auth", "window", "version_differs", "version_matches_after", "migrate_typed", "no_migrate"],
                   "fields": ["version", "data", "aux"], "events": ["upgraded"], "rets": []},
        "jobs": [
            {"kind": "graph", "spec": "MC_C15", "cfg": "MC_C15_%s" % t, "module": "Upgrade", "evkinds": ["upgraded", "ownership_transferred"],
             "need": ["Upgrade/ok", "Upgrade/role_auth", "Migrate/ok", "Migrate/role_auth", "UpgraderUpgrade/ok",
                      "UpgraderUpgrade/version_differs", "UpgraderUpgrade/version_matches_after", "UpgraderUpgrade/upgrade_auth",
                      "UpgraderUpgrade/migrate_auth", "UpgraderUpgrade/migrate_typed"] + ([] if t == "dummy" else ["Migrate/window", "HookOpenWindow/ok"])}
            for t in ["gateway", "gas", "operators", "its", "token", "dummy"]
        ] + [
            # unbounded histories (any number of owners, code versions, upgrades), on the design of the derived protocol
            {"kind": "apalache", "tiers": ["thorough"], "module": "UpgradeInd", "inv": "IndInv", "refute": "NotInvariant", "refute_init": "RefuteInit"},
        ],
        "level_text": "TLC proves owner-only upgrade, window opened by upgrade, migration only by the owner inside the window, closing it (the same migration is refused in the post-state) and announcing the version, and Upgrader atomicity (unchanged, or new code at the requested different version with the window closed) on every transition of six finite instances (one per target contract); every transition is executed against the natively registered contract from /repo, the real Upgrader and the repository's wasm fixtures.  The source's derived migrate is reached through the verif-hooks window opener. Thorough additionally discharges, with Apalache, an inductive invariant of the derived protocol over unbounded histories, owners and code versions (spec/apalache/UpgradeInd.tla: window open iff an upgrade is pending, migrations never outnumber upgrades, every administrative step by the owner of that moment, an Upgrader step ends at the requested version).",
        "rule": "cases = transitions of the bounded TLC instances (one per target contract) replayed against the contracts; distinct = distinct (abstract pre-state, action) pairs",
        "assumptions": ["soroban-env-host test mode implements on-chain semantics incl. update_current_contract_wasm", "upgrade destinations are the repository's pinned wasm fixtures (no wasm32 target offline); after a swap the fixture's code runs",
                        "the migration window flag is not observable; it is decided through later migrate outcomes"],
    },
    "C16": {
        "title": "Executable-interface apps act only on approved messages, exactly once",
        "policy": {"guards": ["approved"], "fields": ["status", "gw.status"], "events": ["app_executed", "message_executed"], "rets": []},
        "jobs": [
            {"kind": "graph", "spec": "MC_C16", "module": "Gateway", "evkinds": GW_EVENTS + ["app_executed"],
             "need": ["AppExecute/ok", "AppExecute/approved", "ApproveMessages/ok"],
             "control": sibling_control(["app"], "key")},
            # the token service is itself an application behind the executable interface: gateway + service composed
            SYSTEM_JOB,
        ],
        "level_text": "TLC proves gate (effect only on an unexecuted approval naming this app, chain, id, source address and payload hash), completeness, exactly-once (the same delivery is refused in the post-state) and no effect on failure on every transition of a finite instance (all interleavings of approvals deviating in one respect each and deliveries to both apps); all transitions are executed against the shipped example contract and a minimal app using AxelarExecutableInterface::validate_message, on the real gateway.",
        "rule": "cases = transitions of the bounded TLC instance replayed against the contracts; distinct = distinct (approval-table state, action) pairs",
        "assumptions": ["soroban-env-host test mode implements on-chain semantics", "bounds: 3 message keys, 9 approval contents, 2 apps, delivered payloads of 0, 2 and 32 bytes incl. the hash of an approved payload"],
    },
    "C10": {
        "title": "ITS codec is exact canonical Solidity ABI and never misdecodes",
        "policy": {"guards": ["canonical", "encodable"], "fields": [], "events": [], "rets": ["*"], "complete_without_control": True},
        "jobs": [
            {"kind": "graph", "spec": "MC_C10", "cfg": "MC_C10_quick", "module": "Abi", "tiers": ["quick"], "max_len": 400,
             "need": ["Encode/ok", "Encode/encodable", "Decode/ok", "DecodeMut/ok", "DecodeMut/canonical"]},
            # the harness's own codec (used by the ITS binding) is held to the same TLC verdicts: a mismatch is a tool error
            {"kind": "graph", "spec": "MC_C10", "cfg": "MC_C10_quick", "module": "AbiOwn", "suffix": "_own", "selfcheck": True, "max_len": 400},
            {"kind": "codec", "spec": "TraceAbi", "module": "Abi", "quick": 4000, "thorough": 60000},
            {"kind": "graph", "spec": "MC_C10", "cfg": "MC_C10_thorough", "module": "Abi", "tiers": ["thorough"], "max_len": 400,
             "tlc_timeout": 7200, "need": ["Encode/ok", "Decode/ok", "DecodeMut/ok", "DecodeMut/canonical"]},
        ],
        "technique": "Solidity ABI rules transcribed into TLA+ (Abi.tla); TLC is the independent encoder/decoder and case generator; every case executed against the contract's codec",
        "level_text": "Bounded input-space coverage against a TLA+ transcription of the ABI rules (the 'self-contained function with rich case analysis' use of TLC), not a state-machine argument: TLC encodes a catalogue of messages, checks round trip and injectivity on its own encoder, and decides every mutant of selected encodings (every single-byte flip at every offset with masks 0x01/0x80, every truncation, extensions, offset/length words +-1/+-32, type tags, amounts >= 2^127, decimals 256, invalid UTF-8); the contract's abi_encode / abi_decode must agree byte for byte, never panic, and re-encode every accepted input to itself.",
        "rule": "cases = encode / decode / decode-of-mutant evaluations, each decided by TLC and executed against the contract codec; distinct = distinct (message, mutation) pairs",
        "assumptions": ["Abi.tla is a faithful transcription of the Solidity ABI specification for tuples of (uint256, bytes32, bytes/string, uint8)", "bounds: dynamic fields up to 33 (quick) / 65 (thorough) bytes; mutants of every 29th (quick) / 7th (thorough) catalogue entry"],
    },
    "C11": {
        "title": "Token ids are deterministic, write-once; deployed tokens stay ITS-mintable",
        "policy": {"guards": ["already_deployed", "already_registered", "its_can_mint", "metadata", "is_minter"],
                   "fields": ["reg", "regTok", "tokMeta", "minters", "tokOwner", "tokSelfId", "idcheck", "bal", "meta", "owner"],
                   "invariants": ["ServiceCanMint"], "events": ["token_id_claimed"], "rets": ["DeployInterchainToken", "RegisterCanonical"]},
        "jobs": [
            {"kind": "graph", "spec": "MC_C11", "cfg": "MC_C11_small_dev", "design_cfg": "MC_C11_small", "tiers": ["quick"], "module": "ITS", "evkinds": ITS_EVENTS,
             "need": ["DeployInterchainToken/ok", "DeployInterchainToken/already_deployed", "DeployInterchainToken/metadata",
                      "RegisterCanonical/ok", "RegisterCanonical/already_registered", "Deliver/ok", "Deliver/already_deployed"],
             "control": sibling_control(["name", "caller", "auth"], "salt"), "quick_edges": 12000, "max_len": 40, "workers": 12},
            {"kind": "graph", "spec": "MC_C11", "cfg": "MC_C11_full_dev", "design_cfg": "MC_C11_full", "tiers": ["thorough"], "module": "ITS", "evkinds": ITS_EVENTS,
             "need": ["DeployInterchainToken/ok", "DeployInterchainToken/already_deployed", "DeployInterchainToken/metadata",
                      "RegisterCanonical/ok", "RegisterCanonical/already_registered", "Deliver/ok", "Deliver/already_deployed"],
             "control": sibling_control(["name", "caller", "auth"], "salt"), "quick_edges": 12000, "max_len": 40, "workers": 12},
            # the service's deployment / minting protocol against the token built from the repository's source
            {"kind": "graph", "spec": "MC_C11_token", "module": "Token", "evkinds": TOKEN_EVENTS,
             "need": ["Mint/ok", "RemoveMinter/ok", "AddMinter/ok", "MintFrom/ok", "MintFrom/is_minter"], "control": zero_amount_control,
             "init_fields": ["meta"]},
            ITS_TRACE,
            ITS_IND,
        ],
        "level_text": "TLC proves write-once registry, roles after every deployment (service + designated minter only, initial supply credited, metadata as requested), 'taken ids refuse' and service-mintability on every transition of a finite instance (every supply x minter combination, boundary metadata, same salt / other deployer, canonical registrations, remote deploy messages that collide or not, an inbound transfer after every deployment); transitions are executed against the real service, which deploys the repository's pinned interchain_token.wasm; the binding derives every catalogue id through the contract, checks determinism, injectivity and chain-name sensitivity, that token_address(id) is the address derived from (service, id) and that the token reports that id. Thorough additionally discharges, with Apalache, an inductive invariant of the service's design over unbounded amounts, message ids and histories (spec/apalache/ITSInd.tla: write-once registry with distinct token addresses, custody = locked - released >= 0, native supply = minted - burned >= 0, every message acts at most once and only when approved, from a trusted origin, for a registered token).",
        "rule": "cases = transitions of the bounded TLC instance replayed against the contracts; distinct = distinct (abstract pre-state, action) pairs",
        "assumptions": ["soroban-env-host test mode implements on-chain semantics", "service-deployed tokens run the pinned interchain_token.wasm (no wasm32 target offline)", "bounds: 3 local ids, 2 canonical tokens, 1 remote id"],
    },
    "C04": {
        "title": "ITS acts only on approved, well-formed hub messages from trusted chains",
        "policy": {"guards": ["approved", "is_receive_from_hub", "hub_chain", "hub_address", "decodes", "origin_trusted",
                              "recipient_decodes", "registered", "already_deployed", "metadata", "minter_decodes", "custody", "receiver_ok"],
                   # "takes effect exactly once": approving again must not re-open an executed delivery
                   "fields": [], "act_fields": {"Execute": ["*"], "Deliver": ["*"], "ApproveDelivery": ["appr"]},
                   "events": ["delivery_executed", "transfer_received", "token_executed", "message_executed"], "rets": []},
        "jobs": [
            {"kind": "graph", "spec": "MC_C04", "cfg": "MC_C04_small_dev", "design_cfg": "MC_C04_small", "tiers": ["quick"], "module": "ITS", "evkinds": ITS_EVENTS,
             "need": C04_NEED, "control": conforming_delivery_control, "quick_edges": 12000, "max_len": 40, "workers": 16},
            {"kind": "graph", "spec": "MC_C04", "cfg": "MC_C04_full_dev", "design_cfg": "MC_C04_full", "tiers": ["thorough"], "module": "ITS", "evkinds": ITS_EVENTS,
             "need": C04_NEED, "control": conforming_delivery_control, "max_len": 40, "workers": 16, "tlc_timeout": 3600},
            dict(SYSTEM_JOB, tiers=["thorough"]),
            ITS_TRACE,
            ITS_IND,
        ],
        "level_text": "TLC proves gate (every guard held in the pre-state of an executed delivery), exactly-once, 'rejected deliveries leave balances, registrations and the approval record untouched' and acceptance of conforming deliveries on every transition of a finite instance containing one conforming delivery of each kind and every single deviation the statement lists (approval-table deviations under tracked ids, payload / chain / address deviations under fresh ids), over trusted-chain histories; whether a mutated payload decodes is decided by Abi!Decode.  All transitions are executed against the real service, gateway, tokens and receiver contracts, with payload bytes built by the harness's own encoder. Thorough additionally discharges, with Apalache, an inductive invariant of the service's design over unbounded amounts, message ids and histories (spec/apalache/ITSInd.tla: write-once registry with distinct token addresses, custody = locked - released >= 0, native supply = minted - burned >= 0, every message acts at most once and only when approved, from a trusted origin, for a registered token).",
        "rule": "cases = transitions of the bounded TLC instance replayed against the contracts; distinct = distinct (abstract pre-state, action) pairs",
        "assumptions": ["soroban-env-host test mode implements on-chain semantics", "service-deployed tokens run the pinned interchain_token.wasm", "the harness's own ABI codec is cross-validated against Abi.tla by the C10 check"],
    },
    "C05": {
        "title": "Interchain transfers conserve value and announce exactly what was taken",
        "policy": {"guards": ["positive_amount", "balance", "custody", "destination_trusted", "registered", "gas_positive", "gas_balance", "its_can_mint", "receiver_ok", "decodes"],
                   "fields": ["bal", "gas"], "invariants": ["NonNegative"], "events": ["contract_called", "gas_paid", "transfer_received", "token_executed"], "rets": []},
        "jobs": [
            {"kind": "graph", "spec": "MC_C05", "cfg": "MC_C05_small", "tiers": ["quick"], "module": "ITS", "evkinds": ITS_EVENTS,
             "need": C05_NEED, "control": other_amount_control, "max_len": 40, "workers": 16},
            {"kind": "graph", "spec": "MC_C05", "cfg": "MC_C05_full", "tiers": ["thorough"], "module": "ITS", "evkinds": ITS_EVENTS,
             "need": C05_NEED + ["MinterMint/ok"], "control": other_amount_control, "max_len": 40, "workers": 16, "tlc_timeout": 3600,
             # all ~350 000 edges take 37 min of replay on a loaded machine: a node cover plus 150 000 sampled edges
             "thorough_edges": 150000},
            # the canonical token is an interchain token built from the repository's source (not the pinned wasm)
            {"kind": "graph", "spec": "MC_C05", "cfg": "MC_C05_itk", "module": "ITS", "evkinds": ITS_EVENTS,
             "need": C05_NEED, "control": other_amount_control, "max_len": 40, "workers": 16},
            bridge_job(["InterchainTransfer/ok", "Relay/ok", "Relay/registered", "Relay/origin_trusted", "DeployRemoteInterchainToken/ok", "DeployRemoteCanonical/ok"], other_amount_control),
            ITS_TRACE,
            ITS_IND,
            # two deployments behind the hub: conservation across the chains, unbounded amounts / messages / histories
            {"kind": "apalache", "tiers": ["thorough"], "module": "BridgeInd", "inv": "IndInv", "refute": "NotInvariant", "refute_init": "RefuteInit"},
        ],
        "level_text": "TLC proves custody = locked - released >= 0 with the canonical token's supply conserved, service-deployed supply changing only by outbound burns, inbound mints, the initial supply and minters' own mints, exact debit / gas / announcement on every successful outbound transfer (trusted destination, positive amount), exact credit inbound, and the frame rule, on every transition of a finite instance (all interleavings; every outbound transfer costs gas); the transitions are executed against the real service, gateway, gas service, a Stellar asset contract and the pinned interchain token; the announced payload bytes are decoded by the harness's own codec and compared field by field.  Two deployments joined by the hub (spec/Bridge.tla, MC_Bridge): value conserved across chains, remote tokens carry the home side's id and metadata; the raw bytes one deployment announced are rewrapped as the hub does and handed to the other deployment. Thorough additionally discharges, with Apalache, an inductive invariant of the service's design over unbounded amounts, message ids and histories (spec/apalache/ITSInd.tla: write-once registry with distinct token addresses, custody = locked - released >= 0, native supply = minted - burned >= 0, every message acts at most once and only when approved, from a trusted origin, for a registered token). For two deployments joined by the hub, spec/apalache/BridgeInd.tla discharges conservation across the chains (custody at home = remote supply + everything in flight; a release is never refused for lack of custody; each message delivered at most once) as an inductive invariant.",
        "rule": "cases = transitions of the bounded TLC instance replayed against the contracts; distinct = distinct (abstract pre-state, action) pairs",
        "assumptions": ["soroban-env-host test mode implements on-chain semantics", "the harness's own ABI codec is cross-validated against Abi.tla by the C10 check", "bounds: 2 users, 2-3 tokens, amounts -1..3, gas budget 2-4 units"],
    },
    "C18": {
        "title": "Remote token deployments announce the registered token's true id and metadata",
        "policy": {"guards": ["registered", "destination_trusted", "metadata", "encodable", "gas_auth", "gas_positive", "gas_balance", "named_auth"],
                   "fields": [], "act_fields": {"DeployRemoteInterchainToken": ["*"], "DeployRemoteCanonical": ["*"]},
                   "events": ["contract_called", "gas_paid"], "rets": ["DeployRemoteInterchainToken", "DeployRemoteCanonical"]},
        "jobs": [
            {"kind": "graph", "spec": "MC_C18", "cfg": "MC_C18_small", "tiers": ["quick"], "module": "ITS", "evkinds": ITS_EVENTS,
             "need": C18_NEED, "control": c18_control, "max_len": 40, "workers": 16},
            # the canonical token is an interchain token built from the repository's source, with 0 decimals
            {"kind": "graph", "spec": "MC_C18", "cfg": "MC_C18_itk", "module": "ITS", "evkinds": ITS_EVENTS,
             "need": ["DeployRemoteCanonical/ok", "RegisterCanonical/ok"], "control": c18_control, "max_len": 40, "workers": 16},
            {"kind": "graph", "spec": "MC_C18", "cfg": "MC_C18_full", "tiers": ["thorough"], "module": "ITS", "evkinds": ITS_EVENTS,
             "need": C18_NEED + ["DeployRemoteCanonical/encodable"], "control": c18_control, "max_len": 40, "workers": 16},
            ITS_TRACE,
        ],
        "level_text": "TLC proves 'announces exactly the id derived from the caller's (deployer, salt) or the token address with the token's actual metadata and no minter, only for a registered token, a trusted destination, representable metadata and a paid, authorised gas amount; moves nothing but the gas; failures change nothing' on every transition of a finite instance (gas is finite); transitions are executed against the real service with a Stellar asset contract and a metadata-forging canonical token; the announced bytes are decoded by the harness's own codec.",
        "rule": "cases = transitions of the bounded TLC instance replayed against the contracts; distinct = distinct (abstract pre-state, action) pairs",
        "assumptions": ["soroban-env-host test mode implements on-chain semantics", "the harness's own ABI codec is cross-validated against Abi.tla by the C10 check"],
    },
    "C06": {
        "title": "Admin operations need the current role holder's authorisation",
        "policy": {"guards": ["role_auth", "operator_auth", "collector_auth", "upgrade_auth", "migrate_auth"],
                   "fields": ["owner", "operator", "collector", "aux"],
                   "events": ["ownership_transferred", "operatorship_transferred"], "rets": []},
        "jobs": [
            {"kind": "graph", "spec": "MC_C06_gateway", "module": "Gateway", "evkinds": GW_EVENTS, "init_owned": ["owner", "operator"],
             # skipping the rotation delay is the operator's privilege: a plain rotation inside the delay that goes through
             # exercised it without the operator
             "policy_extra": {"guards": ["role_auth", "operator_auth", "collector_auth", "upgrade_auth", "migrate_auth", "delay"]},
             "need": ["TransferOwnership/ok", "TransferOwnership/role_auth", "TransferOperatorship/ok", "TransferOperatorship/role_auth",
                      "RotateSigners/ok", "RotateSigners/operator_auth", "RotateSigners/delay"]},
            # owner and operator are the same address at construction
            {"kind": "graph", "spec": "MC_C06_gateway", "cfg": "MC_C06_gateway_same", "module": "Gateway", "evkinds": GW_EVENTS, "init_owned": ["owner", "operator"],
             "policy_extra": {"guards": ["role_auth", "operator_auth", "collector_auth", "upgrade_auth", "migrate_auth", "delay"]},
             "need": ["TransferOwnership/ok", "TransferOwnership/role_auth", "TransferOperatorship/ok", "TransferOperatorship/role_auth",
                      "RotateSigners/ok", "RotateSigners/operator_auth"]},
            {"kind": "graph", "spec": "MC_C06_gas", "init_owned": ["owner", "collector"], "module": "GasService", "evkinds": ["gas_collected", "gas_refunded", "ownership_transferred"],
             "need": ["CollectFees/ok", "CollectFees/collector_auth", "Refund/ok", "Refund/collector_auth", "TransferOwnership/ok", "TransferOwnership/role_auth"]},
            {"kind": "graph", "spec": "MC_C06_ops", "init_owned": ["owner"], "module": "Operators", "evkinds": ["operator_added", "operator_removed", "ownership_transferred"],
             "need": ["AddOperator/ok", "AddOperator/role_auth", "RemoveOperator/ok", "RemoveOperator/role_auth", "TransferOwnership/ok", "TransferOwnership/role_auth"]},
            {"kind": "graph", "spec": "MC_C06_token", "init_owned": ["owner"], "module": "Token", "evkinds": TOKEN_EVENTS,
             "need": ["AddMinter/ok", "AddMinter/role_auth", "RemoveMinter/ok", "RemoveMinter/role_auth", "Mint/ok", "Mint/role_auth", "TransferOwnership/ok", "TransferOwnership/role_auth"]},
            {"kind": "graph", "spec": "MC_C06_its", "init_owned": ["owner"], "module": "ITS", "evkinds": ITS_EVENTS,
             "need": ["SetTrusted/ok", "SetTrusted/role_auth", "RemoveTrusted/ok", "RemoveTrusted/role_auth", "TransferOwnership/ok", "TransferOwnership/role_auth"]},
        ] + [
            {"kind": "graph", "spec": "MC_C15", "cfg": "MC_C15_%s" % t, "module": "Upgrade", "evkinds": ["upgraded", "ownership_transferred"], "init_owned": ["owner"],
             "need": ["Upgrade/ok", "Upgrade/role_auth", "Migrate/ok", "Migrate/role_auth", "UpgraderUpgrade/upgrade_auth", "UpgraderUpgrade/migrate_auth", "TransferOwnership/ok"]}
            for t in ["gateway", "gas", "operators", "its", "token"]
        ] + SMALL_TRACES,
        "level_text": "TLC proves 'succeeds only with the current holder among the authorisers; the role moves only by the holder's transfer and then belongs to the named successor; refused calls change nothing' on every transition of ten finite instances (gateway, gas service, operators, token, token service; upgrade / migrate / Upgrader on each of the five production contracts): every administrative entry point x every principal as sole authoriser (current holder, former holder, holder of another role, beneficiary, stranger) and nobody x every role-transfer history over three addresses. All transitions are executed against the real contracts with exactly the stated principal's authorisation entry installed.",
        "rule": "cases = transitions of the bounded TLC instances replayed against the contracts; distinct = distinct (role state, entry point, authoriser) tuples",
        "assumptions": ["soroban-env-host test mode implements require_auth as on chain; an authorisation entry is installed only for the named principal and only for the exact call tree"],
    },
    "C07": {
        "title": "No spending, burning, sending or consuming for an address without its auth",
        # a message is consumed only FOR the address that authorised the call: a validate_message that returns false
        # (someone else's message) must leave the approval where it was
        "policy": {"guards": ["named_auth", "gas_auth"], "fields": [], "act_fields": {"ValidateMessage": ["status"]}, "events": [], "rets": []},
        "jobs": [
            {"kind": "graph", "spec": "MC_C07_token", "module": "Token", "evkinds": TOKEN_EVENTS,
             "need": ["%s/%s" % (n, o) for n in ["Approve", "Transfer", "TransferFrom", "Burn", "BurnFrom", "MintFrom"] for o in ["ok", "named_auth"]]},
            {"kind": "graph", "spec": "MC_C07_gas", "module": "GasService", "evkinds": ["gas_paid", "gas_added"],
             "need": ["PayGas/ok", "PayGas/named_auth", "AddGas/ok", "AddGas/named_auth"]},
            {"kind": "graph", "spec": "MC_C07_gateway", "module": "Gateway", "evkinds": GW_EVENTS,
             "need": ["ValidateMessage/ok", "ValidateMessage/named_auth", "CallContract/ok", "CallContract/named_auth"]},
            {"kind": "graph", "spec": "MC_C07_its", "module": "ITS", "evkinds": ITS_EVENTS + ["app_called"],
             "need": ["DeployInterchainToken/ok", "DeployInterchainToken/named_auth", "DeployRemoteInterchainToken/ok", "DeployRemoteInterchainToken/named_auth",
                      "DeployRemoteCanonical/ok", "DeployRemoteCanonical/gas_auth", "InterchainTransfer/ok", "InterchainTransfer/named_auth",
                      "ExampleSend/ok", "ExampleSend/named_auth"]},
            {"kind": "graph", "spec": "MC_C17", "module": "Operators", "suffix": "_c07",
             "evkinds": ["probe_call", "operator_added", "operator_removed", "ownership_transferred"],
             "need": ["Execute/ok", "Execute/named_auth"]},
        ] + SMALL_TRACES + [
        ],
        "level_text": "TLC proves 'a successful spending / burning / gas-paying / sending / consuming / deploying / executing call carries the authorisation of the address it names (or that address is the calling contract); refused calls change nothing' on every transition of five finite instances (token, gas service, gateway, token service + example app, operators): every such entry point x authoriser in {the named address, the counterparty or recipient, the contract owner, a stranger, nobody}, in states with and without allowances / registrations. All transitions are executed against the real contracts with exactly the stated principal's authorisation entries (full call trees) installed.",
        "rule": "cases = transitions of the bounded TLC instances replayed against the contracts; distinct = distinct (state, entry point, authoriser) tuples",
        "assumptions": ["soroban-env-host test mode implements require_auth as on chain; an authorisation entry is installed only for the named principal"],
    },
}

NOT_YET = {}
