"""Per-property job lists and slice policies (DESIGN.md 2.4 / 5)."""

GW_EVENTS = ["message_approved", "message_executed", "signers_rotated", "contract_called",
             "ownership_transferred", "operatorship_transferred"]

GOOD_PROOF = {"set": "s1", "sigs": ["Valid", "Valid"]}


def ctl_c02(e, g):
    """control for C02: the same entry point on a never-used key cannot be built inside the instance;
    instead relax the message dimension: approval of the same batch is the control for itself (none)."""
    return None


PROPS = {
    "C02": {
        "title": "Each message is approved once and executed once, only by its destination",
        "policy": {
            "guards": [],
            "fields": ["status"],
            "events": ["message_approved", "message_executed"],
            "rets": ["ValidateMessage"],
            # approvals with a canonical valid proof and consumption by the authorised caller are
            # always accepted by the specification: a refusal is charged through the control rule
        },
        "jobs": [
            {"kind": "graph", "spec": "MC_C02", "module": "Gateway", "evkinds": GW_EVENTS,
             "need": ["ApproveMessages/ok", "ValidateMessage/ok"]},
        ],
        "level_text": "TLC proves the status-monotonicity / exactly-once invariants on every reachable state of a finite instance (all interleavings, no depth bound) and every one of its transitions is executed against the real gateway with the specification's post-state as oracle.",
        "rule": "cases = transitions (pre-state, action) of the bounded TLC instance replayed against the contracts; "
                "distinct = distinct (abstract pre-state, action) pairs; every one changes or probes message status",
        "assumptions": ["soroban-env-host test mode implements on-chain semantics (rollback, require_auth, crypto)",
                        "bounds: 3 message keys x 2 contents, batches of <= 2 messages, one signer set"],
    },
}

NOT_YET = {}
