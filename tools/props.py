"""Per-property job lists and slice policies (DESIGN.md 2.4 / 5)."""

GW_EVENTS = ["message_approved", "message_executed", "signers_rotated", "contract_called",
             "ownership_transferred", "operatorship_transferred"]

GOOD_PROOF = {"set": "s1", "sigs": ["Valid", "Valid"]}


def ctl_c02(e, g):
    """control for C02: the same entry point on a never-used key cannot be built inside the instance;
    instead relax the message dimension: approval of the same batch is the control for itself (none)."""
    return None


def sibling_control(match_keys, vary_key):
    """control = a sibling transition from the same pre-state that the specification accepts, equal to the
    failing one on `match_keys` and different on `vary_key` (the property's own dimension relaxed)."""
    def f(e, g):
        if not e['exp']['ok']:
            return None
        a = e['act']
        for ei in g.out[e['_pre']]:
            o = g.edges[ei]
            b = o['act']
            if o is e or not o['exp']['ok'] or b['name'] != a['name']:
                continue
            if all(b.get(k) == a.get(k) for k in match_keys) and b.get(vary_key) != a.get(vary_key):
                return [b]
        return None
    return f


PROPS = {
    "C02": {
        "title": "Each message is approved once and executed once, only by its destination",
        "policy": {
            "guards": [],
            "fields": ["status"],
            "events": ["message_approved", "message_executed"],
            "rets": ["ValidateMessage"],
            # approvals with a canonical valid proof and consumption by the authorised caller are
            # always accepted by the specification: a refusal is charged through the control rule
        },
        "jobs": [
            {"kind": "graph", "spec": "MC_C02", "module": "Gateway", "evkinds": GW_EVENTS,
             "need": ["ApproveMessages/ok", "ValidateMessage/ok"]},
        ],
        "level_text": "TLC proves the status-monotonicity / exactly-once invariants on every reachable state of a finite instance (all interleavings, no depth bound) and every one of its transitions is executed against the real gateway with the specification's post-state as oracle.",
        "rule": "cases = transitions (pre-state, action) of the bounded TLC instance replayed against the contracts; "
                "distinct = distinct (abstract pre-state, action) pairs; every one changes or probes message status",
        "assumptions": ["soroban-env-host test mode implements on-chain semantics (rollback, require_auth, crypto)",
                        "bounds: 3 message keys x 2 contents, batches of <= 2 messages, one signer set"],
    },
    "C03": {
        "title": "Rotation installs only well-formed sets, authorised by the latest signers",
        "policy": {
            "guards": ["wellformed", "duplicate", "latest_or_bypass", "signatures", "set_known", "nonempty_list"],
            "fields": ["epoch", "hashByEpoch", "epochOf"],
            "events": ["signers_rotated"],
            "rets": [],
        },
        "jobs": [
            {"kind": "graph", "spec": "MC_C03", "module": "Gateway", "evkinds": GW_EVENTS,
             "need": ["RotateSigners/ok", "RotateSigners/wellformed", "RotateSigners/duplicate",
                      "RotateSigners/latest_or_bypass", "Construct/ok", "Construct/wellformed", "Construct/duplicate"],
             "control": sibling_control(["proof", "bypass", "auth"], "new")},
        ],
        "level_text": "TLC proves epoch +1 / inverse lookups / well-formed-and-fresh / frame on every reachable state of the bounded instance; every transition (13 candidate shapes x proof kinds x bypass x operator auth over all histories of <= 4 rotations, and 20 constructor lists) is executed against the real gateway and epoch(), signers_hash_by_epoch(0..epoch+1), epoch_by_signers_hash(every catalogue hash) are compared.",
        "rule": "cases = transitions of the bounded TLC instance replayed against the contracts; distinct = distinct (abstract pre-state, action) pairs; each is a rotation or construction attempt",
        "assumptions": ["soroban-env-host test mode implements on-chain semantics", "u128 weights on a lattice: abstract w -> w*(2^128-1)/15, so overflow and threshold comparisons coincide exactly",
                        "bounds: 13 candidate sets, <= 5 epochs, retention 1, delay 0"],
    },
}

NOT_YET = {}
