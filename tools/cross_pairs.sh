#!/bin/sh
# a seeded change that breaks property X against the quick check of ANOTHER property Y (apply, check, undo)
# usage: tools/cross_pairs.sh <seeded-name>:<Cyy> ...      e.g. tools/cross_pairs.sh C07j2:C12 C06j1:C04
cd /verif
for pair in "$@"; do
  n=${pair%%:*}; p=${pair#*:}
  git -C /repo diff --quiet || { echo "/repo has local changes" >&2; exit 3; }
  git -C /repo apply /verif/seeded/$n/patch.diff || { echo "$n x $p :: patch does not apply"; continue; }
  ./check $p quick > work/cross_run.log 2>&1; rc=$?
  git -C /repo checkout -- .
  echo "$n x $p :: rc=$rc $(grep -ac '^VIOLATION' work/cross_run.log) VIOLATION lines; $(grep -aE "^$p quick:" work/cross_run.log | sed 's/.*transitions, //')"
done
