#!/bin/sh
# usage: tools/try_mutant.sh <patch.diff> <Cxx> [tier]   -- apply to /repo, run the check, always undo
patch="$1"; prop="$2"; tier="${3:-quick}"
cd /verif
git -C /repo diff --quiet || { echo "/repo has local changes" >&2; exit 3; }
git -C /repo apply "$patch" || { echo "patch does not apply" >&2; exit 3; }
./check "$prop" "$tier"; rc=$?
git -C /repo checkout -- .
echo "check rc=$rc"
exit $rc
