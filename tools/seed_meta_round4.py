#!/usr/bin/env python3
"""writes seeded/<name>/meta.json for the fourth (site-directed) round from the confirm.txt files"""
import json, os, glob
D = {
 "C01d-unsigned-weight-counted": ("C01", "validate_signatures adds the weight of Unsigned entries too (the threshold is still only tested on a verified Signed entry)", "proof with heavy Unsigned entries ahead of one validly signed light entry"),
 "C02d-refused-validate-burns-approval": ("C02", "validate_message marks the id executed as soon as it is approved and only then compares caller / source address / payload hash, returning false on mismatch", "a refused direct validate_message (wrong caller or content) on an approved id, then a query or the real consumption"),
 "C03d-overflow-flag-last-addition-only": ("C03", "weight sum uses overflowing_add with a flag that is reassigned, not OR-ed: only an overflow at the last addition is caught", "candidate set whose weights pass u128::MAX at an addition that is not the last one"),
 "C04d-deploy-from-untrusted-origin": ("C04", "origin-chain trust check (and the trailing TTL extension that would fail on a missing key) moved into the transfer arm only: inbound deploy messages are not checked", "approved deploy message whose original source chain is not (or no longer) trusted"),
 "C05d-unlock-clamped-to-custody": ("C05", "unlocking a canonical token is clamped to what the service holds while event and executable call still carry the announced amount", "inbound transfer of a canonical token announcing more than the current custody"),
 "C06d-collect-to-collector-no-auth": ("C06", "collect_fees demands the collector's authorisation only when the receiver is not the collector", "collect_fees(receiver = gas collector) by a stranger / the owner / nobody"),
 "C07d-self-paying-sender-skips-auth": ("C07", "pay_gas / add_gas skip the spender's authorisation when spender == sender", "service's own address as sender and spender; or a spender who signed only a bare token transfer to the service"),
 "C08d-duplicate-vs-current-epoch-only": ("C08", "duplicate check compares the candidate only with the set of the current epoch: an older set can be installed again and gets a fresh epoch", "retention 1, S1 -> S2 -> S3, then a rotation naming S1: S1's proofs are honoured again"),
 "C09d-saturating-delay-comparison": ("C09", "delay comparison rewritten as last <= current.saturating_sub(delay)", "minimum delay larger than the absolute ledger time and the previous rotation at ledger time 0"),
 "C10d-zero-bytes-field-encoded-empty": ("C10", "encoder treats an optional bytes field made only of zero bytes as absent", "outgoing message whose data / minter field is non-empty and all zero"),
 "C11d-handover-order-service-as-minter": ("C11", "minter hand-over reordered to add_minter(minter) then remove_minter(service)", "deploy_interchain_token with a positive supply and the service itself named as minter: the service loses its own minting right"),
 "C12d-owner-mint-skips-minter-check": ("C12", "administrator mint(to, amount) only checks the owner's authorisation, not that the owner is a current minter", "remove_minter(owner) or ownership transfer to a non-minter, then mint"),
 "C13d-destination-chain-lowercased": ("C13", "contract_called event lower-cases destination chain names of up to 20 bytes", "call_contract with an upper-case letter in the destination chain"),
 "C14d-refund-event-reports-balance": ("C14", "gas_refunded event carries the receiver's balance after the transfer instead of the refunded amount", "refund to a receiver that already holds the token"),
 "C15d-window-flag-never-removed": ("C15", "migration window marker became a boolean: complete_migration stores false, ensure_is_migrating still tests presence", "a second migrate after a completed one (native code): the window never closes"),
 "C16d-service-validates-against-hub-chain": ("C16", "the token service validates the gateway approval against the hub chain name instead of the delivered source chain, and the hub-chain check is dropped", "delivery naming another chain but reusing id, source address and payload of an unexecuted hub approval"),
 "C17d-swap-remove-deletes-wrong-entry": ("C17", "operator list with swap-remove: remove_operator deletes the membership entry of the popped (last) account instead of the named one", "add A, add B, remove A: A keeps membership, B loses it"),
 "C18d-255-decimals-refused": ("C18", "shared metadata validator bounds decimals with < u8::MAX instead of <=", "remote deployment of a registered token with exactly 255 decimals is refused"),
}
for name,(pid,chg,needs) in D.items():
    d='/verif/seeded/'+name
    if not os.path.isdir(d): print("missing",name); continue
    conf=open(d+'/confirm.txt').read().strip() if os.path.exists(d+'/confirm.txt') else ""
    notes='/tmp/seed4-out/%s/NOTES.md'%pid
    if os.path.exists(notes):
        open(d+'/NOTES.md','w').write(open(notes).read())
    for f in glob.glob(d+'/*.log'): os.remove(f)
    demo=[os.path.basename(f) for f in glob.glob(d+'/*.rs')]
    meta={"breaks_property":pid,"change":chg,"needs_to_manifest":needs,"round":4,
     "source":"independent sub-agent given only the property text, a scratch worktree, one-line descriptions of the earlier changes to avoid and a SITE hint (a part of the code the earlier rounds had not touched)",
     "demonstration":demo,"confirmed_by":"tools/confirm_seed.sh in scratch worktree /tmp/confirm",
     "confirmation":conf,"how_to_run":"tools/try_mutant.sh seeded/%s/patch.diff %s"%(name,pid)}
    json.dump(meta,open(d+'/meta.json','w'),indent=1)
    print(name, conf[-60:])
