import json, os, glob
D = {
 "C01c-approve-requires-latest-set": ("C01", "approve_messages validates the proof with the 'must be the latest set' flag, so retained older signer sets can no longer approve", "approval proof signed by a retained, non-latest signer set"),
 "C02c-concatenated-key-hash": ("C02", "message storage key derived from the concatenation of source chain and message id without separator", "two messages whose (chain, id) pairs concatenate to the same string, e.g. (\"ab\",\"c\") and (\"a\",\"bc\")"),
 "C03c-constructor-skips-validation": ("C03", "constructor installs every initial signer set without the well-formedness check", "deployment with an ill-formed initial set (empty, duplicate or unsorted keys, zero weight, threshold 0 or above the total)"),
 "C04c-wrapper-decoded-unvalidated": ("C04", "the hub wrapper of an incoming payload is decoded without the validation the inner message gets, so truncated or padded wrappers are accepted", "approved delivery whose outer ReceiveFromHub encoding is malformed (bytes beyond the canonical layout)"),
 "C05c-gas-failure-swallowed": ("C05", "pay_gas is called through the try_ client and its failure ignored: a transfer or deployment goes out although the stated gas payment failed", "cross-chain send whose gas payment fails (insufficient gas token balance or zero gas amount)"),
 "C06c-transfer-to-current-owner-no-auth": ("C06", "transfer_ownership returns early, before require_auth, when the new owner equals the current owner (and emits the events)", "transfer of ownership to the current owner authorised by nobody / a stranger"),
 "C07c-self-spender-skips-auth": ("C07", "transfer_from / burn_from return through a shortcut placed above the relocated require_auth when spender == from", "delegated transfer or burn naming the debited account itself as spender, authorised by nobody"),
 "C08c-approve-requires-latest-set": ("C08", "approve_messages validates the proof with the 'must be the latest set' flag, so sets inside the retention window are refused", "approval signed by a retained previous set (epoch within retention of the current epoch)"),
 "C09c-clock-not-started-at-deploy": ("C09", "the helper that also writes the last-rotation timestamp is skipped for the constructor's rotations, so the first rotation after deployment is not subject to the minimum delay", "rotate_signers right after deployment, before the minimum delay has elapsed"),
 "C10c-amount-limb2-ignored": ("C10", "to_i128 checks only the top 64-bit limb of a uint256 amount, so bits 128..191 are silently dropped", "payload whose amount word has bits only in 128..191 (e.g. 2^128+5)"),
 "C11c-negative-supply-drops-minter": ("C11", "initial minter chosen with `initial_supply != 0` while the mint/handover block still tests `> 0`: a negative initial supply leaves the designated minter without rights", "deploy_interchain_token with a negative initial supply and a designated minter"),
 "C12c-spend-ignores-expiry": ("C12", "the expiry check lives only in the public allowance() getter; spend_allowance reads the raw entry", "transfer_from / burn_from of exactly the remaining allowance after its expiration ledger but within the entry's lifetime"),
 "C13c-event-payload-capped": ("C13", "contract_called event body capped at 8192 bytes while the hash topic is still of the full payload", "call_contract with a payload longer than 8192 bytes"),
 "C14c-zero-pay-after-funding": ("C14", "pay_gas checks the service's balance after the transfer instead of the paid amount", "pay_gas with amount 0 in a token the service already holds"),
 "C15c-empty-data-skips-migrate": ("C15", "Upgrader.upgrade skips the migrate call when the migration data list is empty", "Upgrader.upgrade with an empty migration-data vector: code swapped, no migration, success reported"),
 "C16c-approval-hash-drops-destination": ("C16", "the stored approval hash no longer includes the destination contract address", "message approved for app A delivered to a different app B"),
 "C17c-return-value-discarded": ("C17", "AxelarOperators.execute discards the forwarded call's result and returns void", "operator forwards a call to a function with a non-void return value"),
 "C18c-remote-canonical-unregistered": ("C18", "deploy_remote_canonical_token passes the token address through without the registry lookup", "deploy_remote_canonical_token for a live token contract that was never registered"),
}
for name,(pid,chg,needs) in D.items():
    d='/verif/seeded/'+name
    if not os.path.isdir(d): print("missing",name); continue
    conf=open(d+'/confirm.txt').read().strip() if os.path.exists(d+'/confirm.txt') else ""
    notes='/tmp/seed3-out/%s/NOTES.md'%pid
    if os.path.exists(notes):
        open(d+'/NOTES.md','w').write(open(notes).read())
    for f in glob.glob(d+'/*.log'): os.remove(f)
    meta={"breaks_property":pid,"change":chg,"needs_to_manifest":needs,"round":3,
     "source":"independent sub-agent given only the property text, a scratch worktree and one-line descriptions of the two earlier changes to avoid",
     "demonstration":["demo_break.rs"],"confirmed_by":"tools/confirm_seed.sh in scratch worktree /tmp/confirm",
     "confirmation":conf,"how_to_run":"tools/try_mutant.sh seeded/%s/patch.diff %s"%(name,pid)}
    json.dump(meta,open(d+'/meta.json','w'),indent=1)
    print(name, conf[-60:])
