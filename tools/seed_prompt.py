#!/usr/bin/env python3
"""print the prompt for a mutation sub-agent for property <id> (only the property text leaves /verif)"""
import json,sys
pid=sys.argv[1]
p=[json.loads(l) for l in open('/verif/properties.jsonl') if json.loads(l)['id']==pid][0]
print(f"""You are helping test a verification tool by producing a realistic *property-breaking change* to a Rust codebase.

Codebase: axelarnetwork/axelar-cgp-soroban (Soroban/Stellar smart contracts for Axelar's cross-chain gateway), checked out as a scratch git worktree at /tmp/seed/{pid} . Work ONLY inside /tmp/seed/{pid} (edit files there) and write your deliverables to /tmp/seed-out/{pid}/ . Do not read or touch /repo or /verif. The sandbox is offline; cargo must be run with --offline. To limit machine load run cargo with `-j 4`. The full test suite is: `cd /tmp/seed/{pid} && cargo test --workspace --no-fail-fast --offline -j 4` (always use --workspace: building a single package with -p fails because of feature unification). It takes a few minutes the first time.

The semantic property you must break:

  Title: {p['title']}
  Statement: {p['statement']}
  Quantified over: {p['quantifier']['text']}
  Code it is anchored in: {', '.join(p['anchors']['files'])}

Your task: make ONE small, realistic source change (the kind of bug a maintainer could plausibly introduce in a refactor: an off-by-one, a dropped or weakened check, a wrong variable, a swapped order, two sites that are each fine alone but wrong together, ...) to the NON-test source of the repository such that
  1. the workspace still compiles and the ENTIRE existing test suite still passes unchanged (do not edit, delete or add to the existing tests or golden files);
  2. the property above is violated on the changed code;
  3. the violation needs something specific to manifest - a particular multi-step sequence of operations, an unusual or boundary input, a specific history, or two cooperating sites - NOT something ordinary use would expose at once, and not something that makes the normal happy path fail.
Prefer a change that breaks only this property and leaves unrelated behaviour intact.

Deliverables in /tmp/seed-out/{pid}/ :
  - patch.diff : `git -C /tmp/seed/{pid} diff` of your source change ONLY (no new test files in it);
  - demo.rs (or demo_<name>.rs): a NEW integration test file (note in NOTES.md where it must be placed, e.g. contracts/<crate>/tests/demo_break.rs) containing a test that FAILS with your change applied and PASSES on the original code; it must demonstrate the property violation through the public contract API (clients, events, queries);
  - NOTES.md : what the change is, why the existing tests miss it, what exactly is needed to make it manifest, and the exact commands you ran with their outcome (suite passing with the change; demo failing with the change; demo passing without the change - use a reverse patch (`git apply -R patch.diff`, then `git apply patch.diff`) to check this; do NOT use `git stash`: the stash is shared between worktrees and other people are working in sibling worktrees).
Verify all three outcomes yourself before finishing. When finished, delete the build output to save disk: `rm -rf /tmp/seed/{pid}/target`, but leave your source change and demo file in place in the worktree. Final answer: a 5-line summary of the change and what you verified.""")
