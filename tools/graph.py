#!/usr/bin/env python3
"""TLC edge dump -> labelled state graph -> walks from the initial state that cover every edge.

TLC prints one line per generated transition:   <<"EDGE", "<json>">>   and one   <<"INST", "<json>">>.
"""
import json, sys, collections, random


def _unq(line, tag):
    pre = '<<"%s", ' % tag
    body = line[len(pre):].rstrip()
    assert body.endswith('>>'), line[:200]
    return json.loads(json.loads(body[:-2]))


def canon(x):
    return json.dumps(x, sort_keys=True, separators=(',', ':'))


def parse_tlc(path):
    """returns (inst, edges, stats) ; edges = list of dict(pre, act, exp, post)"""
    inst = None
    edges = []
    stats = {'generated': None, 'distinct': None, 'depth': None, 'error': None, 'log_tail': []}
    tail = collections.deque(maxlen=40)
    with open(path, errors='replace') as f:
        for line in f:
            if line.startswith('<<"EDGE", '):
                edges.append(_unq(line, 'EDGE'))
            elif line.startswith('<<"NODE", '):
                # compact form: one line per state, edges listed with post = "same" for self-loops
                n = _unq(line, 'NODE')
                for e in n['edges']:
                    x = {'pre': n['pre'], 'act': e['act'], 'exp': e['exp'],
                         'post': n['pre'] if e['post'] == 'same' else e['post']}
                    if 'alt' in e:
                        x['alt'] = e['alt']
                    edges.append(x)
            elif line.startswith('<<"INST", '):
                inst = _unq(line, 'INST')
            else:
                tail.append(line.rstrip())
                if 'states generated' in line and 'distinct states found' in line and not line.startswith('Progress'):
                    p = line.replace(',', '').split()
                    stats['generated'] = int(p[0])
                    stats['distinct'] = int(p[p.index('distinct') - 1])
                elif line.startswith('The depth of the complete state graph search is'):
                    stats['depth'] = int(line.rstrip().rstrip('.').split()[-1])
                elif line.startswith('Error:') and stats['error'] is None:
                    stats['error'] = line.strip()
    stats['log_tail'] = list(tail)
    return inst, edges, stats


class Graph:
    def __init__(self, edges, init=None):
        self.nodes = {}          # canon(pre) -> state
        self.out = collections.defaultdict(list)   # canon(pre) -> [edge index]
        self.edges = edges
        for i, e in enumerate(edges):
            k = canon(e['pre'])
            e['_pre'] = k
            e['_post'] = canon(e['post'])
            self.nodes.setdefault(k, e['pre'])
            self.out[k].append(i)
        for e in edges:
            self.nodes.setdefault(e['_post'], e['post'])
        self.init = canon(init) if init is not None else None

    def find_init(self):
        """the initial state: the only node that is not the post of a moving edge, else first seen"""
        if self.init:
            return self.init
        targets = {e['_post'] for e in self.edges if e['_post'] != e['_pre']}
        roots = [k for k in self.nodes if k not in targets]
        self.init = roots[0] if roots else self.edges[0]['_pre']
        return self.init

    def _bfs_to_unvisited(self, start, pending):
        """shortest path (list of edge indices) from start to a node with pending edges"""
        if pending.get(start):
            return []
        prev = {start: None}
        dq = collections.deque([start])
        while dq:
            u = dq.popleft()
            for ei in self.out.get(u, []):
                e = self.edges[ei]
                v = e['_post']
                if v == u or v in prev:
                    continue
                prev[v] = (u, ei)
                if pending.get(v):
                    path = []
                    x = v
                    while prev[x] is not None:
                        u2, ei2 = prev[x]
                        path.append(ei2)
                        x = u2
                    return list(reversed(path))
                dq.append(v)
        return None

    def cover_walks(self, select=None, max_len=60, seed=0):
        """walks (lists of edge indices) from init covering every edge in `select` (default: all)"""
        rnd = random.Random(seed)
        init = self.find_init()
        want = set(range(len(self.edges))) if select is None else set(select)
        pending = collections.defaultdict(list)
        for ei in sorted(want):
            pending[self.edges[ei]['_pre']].append(ei)
        for k in pending:
            # self-loops (rejections, queries) first, then moving edges in random order
            loops = [ei for ei in pending[k] if self.edges[ei]['_post'] == k]
            moves = [ei for ei in pending[k] if self.edges[ei]['_post'] != k]
            rnd.shuffle(moves)
            pending[k] = moves + loops[::-1]      # pop() takes from the end: loops first
        remaining = len(want)
        walks = []
        unreachable = 0
        while remaining > 0:
            cur = init
            walk = []
            progressed = False
            while len(walk) < max_len:
                if pending.get(cur):
                    ei = pending[cur].pop()
                    if not pending[cur]:
                        del pending[cur]
                    walk.append(ei)
                    remaining -= 1
                    progressed = True
                    cur = self.edges[ei]['_post']
                    continue
                path = self._bfs_to_unvisited(cur, pending)
                if path is None:
                    break
                if len(walk) + len(path) >= max_len and walk:
                    break
                walk.extend(path)
                cur = self.edges[path[-1]]['_post'] if path else cur
            if not progressed:
                # whatever is left cannot be reached from init (should not happen for TLC output)
                unreachable = remaining
                break
            walks.append(walk)
        return walks, unreachable

    def revisit_walks(self, budget=6000, seed=0):
        """History diversity against hidden residue: for every moving edge s -> t, a walk
        (shortest path to s) + edge + refusals at t that hinge on a SINGLE guard.  The edge cover executes each
        (state, action) pair after one history only; an implementation that keeps hidden residue (a flag written
        instead of removed, a stale entry) behaves differently in the same abstract state after another history,
        and single-guard refusals are the calls whose outcome flips with such residue."""
        rnd = random.Random(seed + 7919)
        init = self.find_init()
        prev = {init: None}
        dq = collections.deque([init])
        while dq:
            u = dq.popleft()
            for ei in self.out.get(u, []):
                v = self.edges[ei]['_post']
                if v not in prev:
                    prev[v] = (u, ei)
                    dq.append(v)

        def path_to(k):
            p = []
            while prev[k] is not None:
                u, ei = prev[k]
                p.append(ei)
                k = u
            return p[::-1]

        probes = {}
        for k, outs in self.out.items():
            c = [ei for ei in outs if self.edges[ei]['_post'] == k and not self.edges[ei]['exp']['ok']
                 and len(self.edges[ei]['exp'].get('fails', [])) == 1 and not self.edges[ei]['exp'].get('free')]
            probes[k] = c
        moving = [i for i, e in enumerate(self.edges) if e['_post'] != e['_pre'] and e['_pre'] in prev
                  and probes.get(e['_post'])]
        rnd.shuffle(moving)
        # every probe after every moving edge if that fits the step budget, else an even share per edge
        total = sum(len(probes.get(self.edges[i]['_post'], [])) + 1 for i in moving)
        per_edge = 0 if budget is None or total <= budget else max(1, budget // max(1, len(moving)) - 1)
        max_walks = None if budget is None else budget // (per_edge + 1 if per_edge else 1)
        walks = []
        for ei in moving:
            e = self.edges[ei]
            c = list(probes.get(e['_post'], []))
            if not c:
                continue
            # one probe per distinct (action name, failing guard) first, then at random
            rnd.shuffle(c)
            seen, first, rest = set(), [], []
            for pi in c:
                key = (self.edges[pi]['act'].get('name'), tuple(self.edges[pi]['exp']['fails']))
                (rest if key in seen else first).append(pi)
                seen.add(key)
            pick = (first + rest)[:per_edge] if per_edge else first + rest
            # accepted calls that leave the abstract state unchanged (opening an open window again, transfer to
            # the current holder, zero amounts, queries) are where hidden counters drift: repeat them before the move
            idem, names = [], set()
            for li in self.out.get(e['_pre'], []):
                le = self.edges[li]
                if le['_post'] == e['_pre'] and le['exp']['ok'] and le['act'].get('name') not in names:
                    names.add(le['act'].get('name'))
                    idem.append(li)
            walks.append(path_to(e['_pre']) + idem[:4] + [ei] + pick)
            if max_walks and len(walks) >= max_walks:
                break
        return walks

    def flip_walks(self, budget=1500, depth=2, seed=0):
        """Calls that were ACCEPTED a moment ago and are refused now: for an accepted edge (s, a) -> s2 and a state t
        reached from s2 by at most `depth` moving edges in which the very same call `a` is refused by a single
        guard, the walk  path(s) . a . path(s2 -> t) . a  .  This is where an implementation that remembers its
        last positive answer (a cache, a short-lived marker, a flag that is set but never cleared) differs from the
        specification: the edge cover reaches t by its own shortest history, which need not contain the earlier
        success of `a`.  Classes (action name, guard, gap) are served round-robin within the step budget."""
        rnd = random.Random(seed + 15485863)
        init = self.find_init()
        prev = {init: None}
        dq = collections.deque([init])
        while dq:
            u = dq.popleft()
            for ei in self.out.get(u, []):
                v = self.edges[ei]['_post']
                if v not in prev:
                    prev[v] = (u, ei)
                    dq.append(v)

        def path_to(k):
            p = []
            while prev[k] is not None:
                u, ei = prev[k]
                p.append(ei)
                k = u
            return p[::-1]

        # per node: the single-guard refusals by canonical action
        refused = {}
        for k, outs in self.out.items():
            d = {}
            for ei in outs:
                e = self.edges[ei]
                if e['_post'] == k and not e['exp']['ok'] and len(e['exp'].get('fails', [])) == 1 and not e['exp'].get('free'):
                    d[canon(e['act'])] = ei
            if d:
                refused[k] = d
        accepted = [i for i, e in enumerate(self.edges) if e['exp']['ok'] and e['_pre'] in prev]
        rnd.shuffle(accepted)
        classes = collections.defaultdict(list)
        cap = max(200, (budget or 100000) // 2)
        found = 0
        for ei in accepted[:200000]:
            e = self.edges[ei]
            ca = canon(e['act'])
            # forward search over moving accepted edges, at most `depth` of them, small fan-out
            frontier = [(e['_post'], [])]
            seen = {e['_post']}
            for gap in range(depth + 1):
                nxt = []
                for (t, pth) in frontier:
                    ri = refused.get(t, {}).get(ca)
                    if ri is not None:
                        key = (e['act'].get('name'), self.edges[ri]['exp']['fails'][0], gap)
                        if len(classes[key]) < 40:
                            classes[key].append(path_to(e['_pre']) + [ei] + pth + [ri])
                            found += 1
                    if gap < depth:
                        outs = [oi for oi in self.out.get(t, []) if self.edges[oi]['exp']['ok'] and self.edges[oi]['_post'] != t]
                        rnd.shuffle(outs)
                        for oi in outs[:6]:
                            v = self.edges[oi]['_post']
                            if v not in seen:
                                seen.add(v)
                                nxt.append((v, pth + [oi]))
                frontier = nxt[:24]
            if found >= cap * 4:
                break
        walks, steps = [], 0
        keys = sorted(classes.keys(), key=lambda k: (str(k[0]), str(k[1]), k[2]))
        i = 0
        while keys and (budget is None or steps < budget):
            progressed = False
            for k in keys:
                if i < len(classes[k]):
                    w = classes[k][i]
                    walks.append(w)
                    steps += len(w)
                    progressed = True
                    if budget is not None and steps >= budget:
                        break
            if not progressed:
                break
            i += 1
        return walks

    def single_guard_refusals(self):
        probes = {}
        for k, outs in self.out.items():
            probes[k] = [ei for ei in outs if self.edges[ei]['_post'] == k and not self.edges[ei]['exp']['ok']
                         and len(self.edges[ei]['exp'].get('fails', [])) == 1 and not self.edges[ei]['exp'].get('free')]
        return probes

    def add_arrival_probes(self, walks, budget=4000, seed=0):
        """re-try single-guard refusals on EVERY arrival at a node through a moving edge of the covering walks (whose
        histories are richer than shortest paths: repeated openings, self-loops taken before the move, detours).
        Probes are refusals, so they do not disturb the rest of the walk.  Round-robin per node so that different
        arrivals try different refusals when the budget does not allow all of them each time."""
        probes = self.single_guard_refusals()
        rnd = random.Random(seed + 104729)
        for k in probes:
            rnd.shuffle(probes[k])
            # one per distinct (action, guard) first
            seen, first, rest = set(), [], []
            for pi in probes[k]:
                key = (self.edges[pi]['act'].get('name'), tuple(self.edges[pi]['exp']['fails']))
                (rest if key in seen else first).append(pi)
                seen.add(key)
            probes[k] = first + rest
        arrivals = sum(1 for w in walks for ei in w if self.edges[ei]['_post'] != self.edges[ei]['_pre'] and probes.get(self.edges[ei]['_post']))
        total = sum(len(probes.get(self.edges[ei]['_post'], [])) for w in walks for ei in w
                    if self.edges[ei]['_post'] != self.edges[ei]['_pre'])
        if arrivals == 0:
            return walks, 0
        per = None if budget is None or total <= budget else max(1, budget // arrivals)
        ptr = collections.defaultdict(int)
        out, added = [], 0
        for w in walks:
            nw = []
            for ei in w:
                nw.append(ei)
                e = self.edges[ei]
                t = e['_post']
                if t != e['_pre'] and probes.get(t):
                    c = probes[t]
                    if per is None or per >= len(c):
                        pick = c
                    else:
                        pick = [c[(ptr[t] + j) % len(c)] for j in range(per)]
                        ptr[t] += per
                    if budget is not None and added + len(pick) > budget * 1.2:
                        continue
                    nw.extend(pick)
                    added += len(pick)
            out.append(nw)
        return out, added

    def node_cover_edges(self):
        """a set of edges whose walks visit every node: BFS tree edges"""
        init = self.find_init()
        seen = {init}
        dq = collections.deque([init])
        tree = []
        while dq:
            u = dq.popleft()
            for ei in self.out.get(u, []):
                v = self.edges[ei]['_post']
                if v not in seen:
                    seen.add(v)
                    tree.append(ei)
                    dq.append(v)
        return tree


def write_walks(path, inst, graph, walks, control=None, evkinds=None, modes=None):
    with open(path, 'w') as f:
        inst = dict(inst)
        if evkinds is not None:
            inst['evkinds'] = evkinds
        # constant fields a contract reports about itself; a mismatch in the initial state is reported once and
        # masked, so that the walks still run for the properties that do not own those fields
        inst['init_soft'] = ['idcheck', 'wiring', 'meta']
        f.write(json.dumps(inst) + '\n')
        init = graph.nodes[graph.find_init()]
        for wi, w in enumerate(walks):
            steps = []
            for ei in w:
                e = graph.edges[ei]
                s = {'act': e['act'], 'exp': e['exp'], 'post': e['post'], 'edge': ei}
                if 'alt' in e:
                    s['alt'] = e['alt']
                if control is not None:
                    c = control(e, graph)
                    if c is not None:
                        s['control'] = c
                steps.append(s)
            rec = {'id': wi, 'init': init, 'steps': steps}
            if modes and wi in modes:
                rec['aging'] = modes[wi]       # "A": ledgers pass between calls but no long pauses (see flip_walks)
            f.write(json.dumps(rec) + '\n')


if __name__ == '__main__':
    inst, edges, stats = parse_tlc(sys.argv[1])
    g = Graph(edges)
    walks, unreach = g.cover_walks()
    print(json.dumps({'inst': inst is not None, 'edges': len(edges), 'nodes': len(g.nodes), 'walks': len(walks),
                      'steps': sum(map(len, walks)), 'unreachable': unreach, 'stats': {k: v for k, v in stats.items() if k != 'log_tail'}}))
    if len(sys.argv) > 2:
        write_walks(sys.argv[2], inst, g, walks)
