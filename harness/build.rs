// The build-dependency on soroban-sdk (testutils) exists only so that the host-side copy of
// soroban-sdk pulled in by the derive proc-macro is built with `testutils` too (feature
// unification of soroban-sdk-macros); see DESIGN.md section 1.
fn main() {}
