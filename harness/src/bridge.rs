//! Binding of spec/Bridge.tla: two deployments of the interchain token service (each with its own gateway, gas
//! service and tokens, in its own world) joined by a hub played by this binding.  What one side announces
//! (the raw SendToHub payload bytes the CODE produced) is kept in flight; `Relay` rewraps exactly those bytes as
//! ReceiveFromHub(origin chain, same inner message) - what the hub does - and delivers them to the other side under
//! a fresh approval.  So the bytes one deployment's encoder wrote are the bytes the other deployment's decoder reads.
#![allow(dead_code)]

use crate::abi::{own_decode, own_encode};
use crate::common::*;
use crate::its::ItsBinder;
use serde_json::{json, Value as J};

pub struct BridgeBinder {
    pub a: ItsBinder,
    pub b: ItsBinder,
    pub chain_a: String,
    pub chain_b: String,
    /// (destination side, raw SendToHub payload as announced)
    pub flight: Vec<(String, Vec<u8>)>,
}

fn jb(v: &J) -> Vec<u8> {
    v.as_array().map(|a| a.iter().map(|x| x.as_u64().unwrap_or(0) as u8).collect()).unwrap_or_default()
}
fn to_jb(b: &[u8]) -> J {
    J::Array(b.iter().map(|x| json!(*x)).collect())
}

impl BridgeBinder {
    pub fn new(inst: &J, init: &J) -> BridgeBinder {
        let chain_a = jstr(inst, "ChainA");
        let chain_b = jstr(inst, "ChainB");
        let mut ia = inst["its"].clone();
        ia["ChainName"] = json!(chain_a);
        let mut ib = inst["its"].clone();
        ib["ChainName"] = json!(chain_b);
        let mut a = ItsBinder::new(&ia, &init["A"]);
        let mut b = ItsBinder::new(&ib, &init["B"]);
        // token ids are global names: the home side (A) derives them, the other side meets them in messages
        b.ids = a.ids.clone();
        for n in jstrs(&inst["its"], "Accts") {
            let on_b = b.addr_xdr(&n);
            let on_a = a.addr_xdr(&n);
            a.remote_parties.insert(n.clone(), on_b);
            b.remote_parties.insert(n, on_a);
        }
        BridgeBinder { a, b, chain_a, chain_b, flight: vec![] }
    }

    fn other(side: &str) -> &'static str {
        if side == "A" { "B" } else { "A" }
    }
    fn chain_of(&self, side: &str) -> String {
        if side == "A" { self.chain_a.clone() } else { self.chain_b.clone() }
    }
    fn side(&mut self, side: &str) -> &mut ItsBinder {
        if side == "A" { &mut self.a } else { &mut self.b }
    }

    /// what `side` announced during the call just made goes into the flight when it is addressed to the other side
    fn collect(&mut self, side: &str, ok: bool) {
        let raws: Vec<Vec<u8>> = std::mem::take(&mut self.side(side).out_raw);
        if !ok {
            return;
        }
        let other = Self::other(side).to_string();
        let other_chain = self.chain_of(&other);
        for raw in raws {
            let dest = own_decode(&raw).map(|m| String::from_utf8_lossy(&jb(&m["chain"])).into_owned());
            if dest.as_deref() == Some(other_chain.as_str()) {
                self.flight.push((other.clone(), raw));
            }
        }
    }

    /// the hub: SendToHub(destination, m) from `origin` becomes ReceiveFromHub(origin, m); bytes it cannot read go on as they are
    fn rewrap(raw: &[u8], origin: &str) -> Vec<u8> {
        match own_decode(raw) {
            Some(mut m) if m["outer"] == json!("send") => {
                m["outer"] = json!("recv");
                m["chain"] = to_jb(origin.as_bytes());
                own_encode(&m)
            }
            _ => raw.to_vec(),
        }
    }

    pub fn exec(&mut self, act: &J) -> Obs {
        let name = jstr(act, "name");
        if name == "Relay" {
            let i = act["i"].as_u64().unwrap() as usize - 1;
            if i >= self.flight.len() {
                return Obs { ok: false, ret: json!("none"), ev: vec![], err: "nothing in flight at this position".into() };
            }
            let (to, raw) = self.flight[i].clone();
            let origin = self.chain_of(Self::other(&to));
            let bytes = Self::rewrap(&raw, &origin);
            let deliver = json!({"name": "Deliver", "payload": act["payload"]});
            let dst = self.side(&to);
            dst.raw_next = Some(bytes);
            let obs = dst.exec(&deliver);
            if obs.ok {
                self.flight.remove(i);
            }
            self.collect(&to, obs.ok);
            return obs;
        }
        let side = jstr(act, "side");
        let obs = self.side(&side).exec(act);
        self.collect(&side, obs.ok);
        obs
    }

    pub fn project(&mut self) -> J {
        json!({"A": self.a.project(), "B": self.b.project()})
    }
}
