//! Seeded random driver for the gas service (impl -> spec).
use crate::gas::GasBinder;
use rand::{Rng, SeedableRng};
use rand_chacha::ChaCha8Rng;
use serde_json::{json, Value as J};
use std::io::Write;

const ACCTS: [&str; 5] = ["alice", "bob", "carol", "dave", "gs"];
const TOKENS: [&str; 2] = ["itk", "sac"];

fn rand_act(rng: &mut ChaCha8Rng, pre: &J) -> J {
    let users = ["alice", "bob", "carol", "dave"];
    let t = TOKENS[rng.gen_range(0..2)];
    let held = pre["bal"][t]["gs"].as_i64().unwrap_or(0);
    let auth = |rng: &mut ChaCha8Rng, named: &str| -> Vec<String> {
        let x: f64 = rng.gen();
        if x < 0.8 { vec![named.to_string()] } else if x < 0.9 { vec![] } else { vec![["owner0", "mallory", "col0", "alice"][rng.gen_range(0..4)].to_string()] }
    };
    match rng.gen_range(0..100) {
        0..=44 => {
            let sp = users[rng.gen_range(0..4)];
            let b = pre["bal"][t][sp].as_i64().unwrap_or(0);
            let amt = [-1, 0, 1, 2, b, b + 1, (b - 1).max(0)][rng.gen_range(0..7)];
            let n = if rng.gen_bool(0.6) { "PayGas" } else { "AddGas" };
            json!({"name": n, "sender": users[rng.gen_range(0..4)], "spender": sp, "token": t, "amt": amt, "auth": auth(rng, sp)})
        }
        45..=94 => {
            let amt = [-1, 0, 1, 2, held, held + 1, (held - 1).max(0)][rng.gen_range(0..7)];
            let n = if rng.gen_bool(0.5) { "CollectFees" } else { "Refund" };
            json!({"name": n, "receiver": users[rng.gen_range(0..4)], "token": t, "amt": amt, "auth": auth(rng, "col0")})
        }
        _ => json!({"name": "TransferOwnership", "new": (["owner0", "bob", "col0"][rng.gen_range(0..3)]), "auth": auth(rng, pre["owner"].as_str().unwrap())}),
    }
}

pub fn drive(seed: u64, runs: usize, steps: usize, out: &str) {
    let inst = json!({"module": "GasService", "Tokens": TOKENS, "Accts": ACCTS});
    let mut handles = vec![];
    for run in 0..runs {
        let inst = inst.clone();
        handles.push(
            std::thread::Builder::new()
                .stack_size(64 << 20)
                .spawn(move || {
                    let mut rng = ChaCha8Rng::seed_from_u64(seed.wrapping_mul(9_000_011).wrapping_add(run as u64));
                    let mut bal = serde_json::Map::new();
                    for t in TOKENS {
                        let mut row = serde_json::Map::new();
                        for a in ACCTS {
                            row.insert(a.to_string(), json!(if a == "gs" { 0 } else { rng.gen_range(0..=5) }));
                        }
                        bal.insert(t.to_string(), J::Object(row));
                    }
                    let init = json!({"bal": bal, "collector": "col0", "owner": "owner0"});
                    let mut b = GasBinder::new(&inst, &init);
                    let mut pre = b.project();
                    let mut buf = vec![json!({"reset": true, "pre": pre}).to_string()];
                    for _ in 0..steps {
                        let act = rand_act(&mut rng, &pre);
                        let obs = b.exec(&act);
                        let post = b.project();
                        buf.push(json!({"reset": false, "pre": pre, "act": act, "obs": {"ok": obs.ok, "ret": obs.ret, "ev": obs.ev}, "post": post}).to_string());
                        pre = post;
                    }
                    buf
                })
                .unwrap(),
        );
    }
    let mut f = std::io::BufWriter::new(std::fs::File::create(out).unwrap());
    writeln!(f, "{}", inst).unwrap();
    for h in handles {
        for l in h.join().unwrap() {
            writeln!(f, "{}", l).unwrap();
        }
    }
    f.flush().unwrap();
}
