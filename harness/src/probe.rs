//! Harness-side contracts: a call probe that can (a) act as a contract caller towards the
//! gateway ("the named address is itself the calling contract"), (b) record forwarded calls.
#![allow(dead_code)]
use soroban_sdk::{
    contract, contractimpl, contracttype, symbol_short, vec, Address, Bytes, BytesN, Env, IntoVal, String, Symbol, Val,
    Vec,
};

#[contracttype]
#[derive(Clone)]
pub enum PKey {
    Log,
}

#[contract]
pub struct Probe;

#[contractimpl]
impl Probe {
    /// gateway.validate_message(caller = this contract, ...)
    pub fn gw_validate(env: Env, gateway: Address, chain: String, id: String, src: String, ph: BytesN<32>) -> bool {
        let me = env.current_contract_address();
        env.invoke_contract::<bool>(
            &gateway,
            &Symbol::new(&env, "validate_message"),
            vec![&env, me.into_val(&env), chain.into_val(&env), id.into_val(&env), src.into_val(&env), ph.into_val(&env)],
        )
    }

    /// gateway.call_contract(caller, ...) issued by this contract for an arbitrary `caller`
    pub fn gw_call(env: Env, gateway: Address, caller: Address, chain: String, addr: String, payload: Bytes) {
        env.invoke_contract::<()>(
            &gateway,
            &Symbol::new(&env, "call_contract"),
            vec![&env, caller.into_val(&env), chain.into_val(&env), addr.into_val(&env), payload.into_val(&env)],
        )
    }

    /// generic forwarder: this contract invokes `target.func(args)` itself
    pub fn fwd(env: Env, target: Address, func: Symbol, args: Vec<Val>) -> Val {
        env.invoke_contract::<Val>(&target, &func, args)
    }

    /// records the call and returns its argument unchanged
    pub fn echo(env: Env, tag: u32, v: Val) -> Val {
        let mut log: Vec<Val> = env.storage().instance().get(&PKey::Log).unwrap_or(Vec::new(&env));
        log.push_back((symbol_short!("echo"), tag, v).into_val(&env));
        env.storage().instance().set(&PKey::Log, &log);
        v
    }

    /// records the call, then traps
    pub fn boom(env: Env, tag: u32) {
        let mut log: Vec<Val> = env.storage().instance().get(&PKey::Log).unwrap_or(Vec::new(&env));
        log.push_back((symbol_short!("boom"), tag).into_val(&env));
        env.storage().instance().set(&PKey::Log, &log);
        panic!("boom");
    }

    pub fn log(env: Env) -> Vec<Val> {
        env.storage().instance().get(&PKey::Log).unwrap_or(Vec::new(&env))
    }
}

/// Minimal application on the executable interface: validates through the interface's helper and
/// panics on error, then performs its effect (an `executed` event shaped like the example's).
pub mod miniapp {
    use axelar_gateway::executable::AxelarExecutableInterface;
    use soroban_sdk::{contract, contractimpl, contracttype, panic_with_error, Address, Bytes, Env, String, Symbol};

    #[contracttype]
    #[derive(Clone)]
    pub enum MKey {
        Gateway,
    }

    #[contract]
    pub struct MiniApp;

    #[contractimpl]
    impl MiniApp {
        pub fn __constructor(env: Env, gateway: Address) {
            env.storage().instance().set(&MKey::Gateway, &gateway);
        }
    }

    #[contractimpl]
    impl AxelarExecutableInterface for MiniApp {
        fn gateway(env: &Env) -> Address {
            env.storage().instance().get(&MKey::Gateway).unwrap()
        }

        fn execute(env: Env, source_chain: String, message_id: String, source_address: String, payload: Bytes) {
            Self::validate_message(&env, &source_chain, &message_id, &source_address, &payload)
                .unwrap_or_else(|err| panic_with_error!(env, err));
            env.events()
                .publish((Symbol::new(&env, "executed"), source_chain, message_id, source_address), (payload,));
        }
    }
}

/// Dry-run helper: invokes `target.func(args)`, then traps so that the host rolls everything back.
pub mod dry {
    use soroban_sdk::{contract, contractimpl, Address, Env, Symbol, Val, Vec};
    #[contract]
    pub struct Dry;
    #[contractimpl]
    impl Dry {
        pub fn run(env: Env, target: Address, func: Symbol, args: Vec<Val>) {
            let _ = env.try_invoke_contract::<Val, soroban_sdk::Error>(&target, &func, args);
            panic!("dry run: roll back");
        }
    }
}
