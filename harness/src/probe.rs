//! Harness-side contracts: a call probe that can (a) act as a contract caller towards the
//! gateway ("the named address is itself the calling contract"), (b) record forwarded calls.
#![allow(dead_code)]
use soroban_sdk::{
    contract, contractimpl, contracttype, symbol_short, vec, Address, Bytes, BytesN, Env, IntoVal, String, Symbol, Val,
    Vec,
};

#[contracttype]
#[derive(Clone)]
pub enum PKey {
    Log,
}

#[contract]
pub struct Probe;

#[contractimpl]
impl Probe {
    /// gateway.validate_message(caller = this contract, ...)
    pub fn gw_validate(env: Env, gateway: Address, chain: String, id: String, src: String, ph: BytesN<32>) -> bool {
        let me = env.current_contract_address();
        env.invoke_contract::<bool>(
            &gateway,
            &Symbol::new(&env, "validate_message"),
            vec![&env, me.into_val(&env), chain.into_val(&env), id.into_val(&env), src.into_val(&env), ph.into_val(&env)],
        )
    }

    /// gateway.call_contract(caller, ...) issued by this contract for an arbitrary `caller`
    pub fn gw_call(env: Env, gateway: Address, caller: Address, chain: String, addr: String, payload: Bytes) {
        env.invoke_contract::<()>(
            &gateway,
            &Symbol::new(&env, "call_contract"),
            vec![&env, caller.into_val(&env), chain.into_val(&env), addr.into_val(&env), payload.into_val(&env)],
        )
    }

    /// the same gateway.call_contract issued `n` times in ONE transaction by this contract, for itself
    pub fn gw_call_n(env: Env, gateway: Address, chain: String, addr: String, payload: Bytes, n: u32) {
        let me = env.current_contract_address();
        for _ in 0..n {
            env.invoke_contract::<()>(
                &gateway,
                &Symbol::new(&env, "call_contract"),
                vec![&env, me.into_val(&env), chain.into_val(&env), addr.into_val(&env), payload.into_val(&env)],
            );
        }
    }

    /// generic forwarder: this contract invokes `target.func(args)` itself
    pub fn fwd(env: Env, target: Address, func: Symbol, args: Vec<Val>) -> Val {
        env.invoke_contract::<Val>(&target, &func, args)
    }

    /// records the call and returns its argument unchanged
    pub fn echo(env: Env, tag: u32, v: Val) -> Val {
        let mut log: Vec<Val> = env.storage().instance().get(&PKey::Log).unwrap_or(Vec::new(&env));
        log.push_back((symbol_short!("echo"), tag, v).into_val(&env));
        env.storage().instance().set(&PKey::Log, &log);
        v
    }

    /// takes NO argument: records the call and returns nothing
    pub fn ping(env: Env) {
        let mut log: Vec<Val> = env.storage().instance().get(&PKey::Log).unwrap_or(Vec::new(&env));
        log.push_back((symbol_short!("ping"), 0u32).into_val(&env));
        env.storage().instance().set(&PKey::Log, &log);
    }

    /// records the call, then traps
    pub fn boom(env: Env, tag: u32) {
        let mut log: Vec<Val> = env.storage().instance().get(&PKey::Log).unwrap_or(Vec::new(&env));
        log.push_back((symbol_short!("boom"), tag).into_val(&env));
        env.storage().instance().set(&PKey::Log, &log);
        panic!("boom");
    }

    /// records the call, then fails with a CONTRACT error of the given code (no trap): fail2 collides with the
    /// operators contract's own error codes, fail7 does not
    pub fn fail2(env: Env, tag: u32) -> Result<(), soroban_sdk::Error> {
        let mut log: Vec<Val> = env.storage().instance().get(&PKey::Log).unwrap_or(Vec::new(&env));
        log.push_back((symbol_short!("fail2"), tag).into_val(&env));
        env.storage().instance().set(&PKey::Log, &log);
        Err(soroban_sdk::Error::from_contract_error(2))
    }
    pub fn fail7(env: Env, tag: u32) -> Result<(), soroban_sdk::Error> {
        let mut log: Vec<Val> = env.storage().instance().get(&PKey::Log).unwrap_or(Vec::new(&env));
        log.push_back((symbol_short!("fail7"), tag).into_val(&env));
        env.storage().instance().set(&PKey::Log, &log);
        Err(soroban_sdk::Error::from_contract_error(7))
    }

    pub fn log(env: Env) -> Vec<Val> {
        env.storage().instance().get(&PKey::Log).unwrap_or(Vec::new(&env))
    }
}

/// Minimal application on the executable interface: validates through the interface's helper and
/// panics on error, then performs its effect (an `executed` event shaped like the example's).
pub mod miniapp {
    use axelar_gateway::executable::AxelarExecutableInterface;
    use soroban_sdk::{contract, contractimpl, contracttype, panic_with_error, Address, Bytes, Env, String, Symbol};

    #[contracttype]
    #[derive(Clone)]
    pub enum MKey {
        Gateway,
    }

    #[contract]
    pub struct MiniApp;

    #[contractimpl]
    impl MiniApp {
        pub fn __constructor(env: Env, gateway: Address) {
            env.storage().instance().set(&MKey::Gateway, &gateway);
        }
    }

    #[contractimpl]
    impl AxelarExecutableInterface for MiniApp {
        fn gateway(env: &Env) -> Address {
            env.storage().instance().get(&MKey::Gateway).unwrap()
        }

        fn execute(env: Env, source_chain: String, message_id: String, source_address: String, payload: Bytes) {
            Self::validate_message(&env, &source_chain, &message_id, &source_address, &payload)
                .unwrap_or_else(|err| panic_with_error!(env, err));
            env.events()
                .publish((Symbol::new(&env, "executed"), source_chain, message_id, source_address), (payload,));
        }
    }
}

/// Dry-run helper: invokes `target.func(args)`, then traps so that the host rolls everything back.
pub mod dry {
    use soroban_sdk::{contract, contractimpl, Address, Env, Symbol, Val, Vec};
    #[contract]
    pub struct Dry;
    #[contractimpl]
    impl Dry {
        pub fn run(env: Env, target: Address, func: Symbol, args: Vec<Val>) {
            let _ = env.try_invoke_contract::<Val, soroban_sdk::Error>(&target, &func, args);
            panic!("dry run: roll back");
        }
    }
}

/// A canonical-token stand-in that reports arbitrary metadata (name, symbol, decimals are settable)
/// and keeps a minimal SEP-41 style ledger (balance / transfer / mint) with real authorisation.
pub mod faketoken {
    use soroban_sdk::{contract, contractimpl, contracttype, Address, Env, String};
    #[contracttype]
    #[derive(Clone)]
    pub enum FKey {
        Name,
        Symbol,
        Decimals,
        Bal(Address),
    }
    #[contract]
    pub struct FakeToken;
    #[contractimpl]
    impl FakeToken {
        pub fn set_meta(env: Env, name: String, symbol: String, decimals: u32) {
            env.storage().instance().set(&FKey::Name, &name);
            env.storage().instance().set(&FKey::Symbol, &symbol);
            env.storage().instance().set(&FKey::Decimals, &decimals);
        }
        pub fn name(env: Env) -> String {
            env.storage().instance().get(&FKey::Name).unwrap()
        }
        pub fn symbol(env: Env) -> String {
            env.storage().instance().get(&FKey::Symbol).unwrap()
        }
        pub fn decimals(env: Env) -> u32 {
            env.storage().instance().get(&FKey::Decimals).unwrap()
        }
        pub fn balance(env: Env, id: Address) -> i128 {
            env.storage().persistent().get(&FKey::Bal(id)).unwrap_or(0)
        }
        pub fn mint(env: Env, to: Address, amount: i128) {
            let b: i128 = env.storage().persistent().get(&FKey::Bal(to.clone())).unwrap_or(0);
            env.storage().persistent().set(&FKey::Bal(to), &(b + amount));
        }
        pub fn transfer(env: Env, from: Address, to: Address, amount: i128) {
            from.require_auth();
            assert!(amount >= 0, "negative amount");
            let fb: i128 = env.storage().persistent().get(&FKey::Bal(from.clone())).unwrap_or(0);
            assert!(fb >= amount, "insufficient balance");
            env.storage().persistent().set(&FKey::Bal(from.clone()), &(fb - amount));
            let tb: i128 = env.storage().persistent().get(&FKey::Bal(to.clone())).unwrap_or(0);
            env.storage().persistent().set(&FKey::Bal(to.clone()), &(tb + amount));
            env.events().publish((soroban_sdk::symbol_short!("transfer"), from, to), amount);
        }
    }
}

/// Receivers of inbound transfers with data (InterchainTokenExecutable): one accepts, one traps.
pub mod receivers {
    use soroban_sdk::{contract, contractimpl, Address, Bytes, BytesN, Env, String, Symbol};
    #[contract]
    pub struct AcceptingApp;
    #[contractimpl]
    impl AcceptingApp {
        pub fn execute_with_interchain_token(
            env: Env,
            source_chain: String,
            message_id: String,
            source_address: Bytes,
            payload: Bytes,
            token_id: BytesN<32>,
            token_address: Address,
            amount: i128,
        ) {
            // everything the application was handed, so that the binding can compare it with what was delivered
            env.events().publish(
                (Symbol::new(&env, "token_executed"), token_id),
                (amount, source_chain, message_id, source_address, payload, token_address),
            );
        }
    }
}
pub mod trapping {
    use soroban_sdk::{contract, contractimpl, Address, Bytes, BytesN, Env, String};
    #[contract]
    pub struct TrappingApp;
    #[contractimpl]
    impl TrappingApp {
        pub fn execute_with_interchain_token(
            _env: Env,
            _source_chain: String,
            _message_id: String,
            _source_address: Bytes,
            _payload: Bytes,
            _token_id: BytesN<32>,
            _token_address: Address,
            _amount: i128,
        ) {
            panic!("receiver traps");
        }
    }
}

/// A receiver that fails with a CONTRACT error instead of trapping.
pub mod erroring {
    use soroban_sdk::{contract, contractimpl, Address, Bytes, BytesN, Env, String};
    #[contract]
    pub struct ErrApp;
    #[contractimpl]
    impl ErrApp {
        pub fn execute_with_interchain_token(
            _env: Env,
            _source_chain: String,
            _message_id: String,
            _source_address: Bytes,
            _payload: Bytes,
            _token_id: BytesN<32>,
            _token_address: Address,
            _amount: i128,
        ) -> Result<(), soroban_sdk::Error> {
            Err(soroban_sdk::Error::from_contract_error(7))
        }
    }
}

/// A token that moves balances without checking the sign of the amount (still asks the sender's
/// authorisation): contracts that take payments must not rely on the token to refuse negatives.
pub mod naivetoken {
    use soroban_sdk::{contract, contractimpl, contracttype, Address, Env};
    #[contracttype]
    #[derive(Clone)]
    pub enum NKey {
        Bal(Address),
    }
    #[contract]
    pub struct NaiveToken;
    #[contractimpl]
    impl NaiveToken {
        pub fn balance(env: Env, id: Address) -> i128 {
            env.storage().persistent().get(&NKey::Bal(id)).unwrap_or(0)
        }
        pub fn mint(env: Env, to: Address, amount: i128) {
            let b: i128 = env.storage().persistent().get(&NKey::Bal(to.clone())).unwrap_or(0);
            env.storage().persistent().set(&NKey::Bal(to), &(b + amount));
        }
        pub fn transfer(env: Env, from: Address, to: Address, amount: i128) {
            from.require_auth();
            let fb: i128 = env.storage().persistent().get(&NKey::Bal(from.clone())).unwrap_or(0);
            assert!(fb >= amount, "insufficient balance");
            let tb: i128 = env.storage().persistent().get(&NKey::Bal(to.clone())).unwrap_or(0);
            env.storage().persistent().set(&NKey::Bal(from), &(fb - amount));
            env.storage().persistent().set(&NKey::Bal(to), &(tb + amount));
        }
    }
}
