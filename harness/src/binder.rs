//! module name -> binder
use crate::common::Obs;
use crate::gateway::GatewayBinder;
use serde_json::Value as J;

pub enum B {
    Gateway(GatewayBinder),
}

impl B {
    pub fn exec(&mut self, act: &J) -> Obs {
        match self {
            B::Gateway(b) => b.exec(act),
        }
    }
    pub fn project(&mut self) -> J {
        match self {
            B::Gateway(b) => b.project(),
        }
    }
}

pub fn make_binder(module: &str, inst: &J, init: &J) -> B {
    match module {
        "Gateway" => B::Gateway(GatewayBinder::new(inst, init)),
        m => panic!("unknown module {m}"),
    }
}

pub fn cmd_drive(_args: &[String]) {
    eprintln!("drive: not implemented yet");
    std::process::exit(2);
}
