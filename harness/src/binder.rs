//! module name -> binder
use crate::abi::{AbiBinder, AbiOwnBinder};
use crate::common::Obs;
use crate::bridge::BridgeBinder;
use crate::fees::FeesBinder;
use crate::gas::GasBinder;
use crate::gateway::GatewayBinder;
use crate::its::ItsBinder;
use crate::operators::OperatorsBinder;
use crate::system::SystemBinder;
use crate::token::TokenBinder;
use crate::upgrade::UpgradeBinder;
use serde_json::Value as J;

pub enum B {
    Gateway(GatewayBinder),
    Token(TokenBinder),
    Gas(GasBinder),
    Fees(FeesBinder),
    Bridge(Box<BridgeBinder>),
    Operators(OperatorsBinder),
    Upgrade(UpgradeBinder),
    Abi(AbiBinder),
    AbiOwn(AbiOwnBinder),
    Its(Box<ItsBinder>),
    System(Box<SystemBinder>),
}

impl B {
    pub fn exec(&mut self, act: &J) -> Obs {
        match self {
            B::Gateway(b) => b.exec(act),
            B::Token(b) => b.exec(act),
            B::Gas(b) => b.exec(act),
            B::Fees(b) => b.exec(act),
            B::Bridge(b) => b.exec(act),
            B::Operators(b) => b.exec(act),
            B::Upgrade(b) => b.exec(act),
            B::Abi(b) => b.exec(act),
            B::AbiOwn(b) => b.exec(act),
            B::Its(b) => b.exec(act),
            B::System(b) => b.exec(act),
        }
    }
    pub fn project(&mut self) -> J {
        match self {
            B::Gateway(b) => b.project(),
            B::Token(b) => b.project(),
            B::Gas(b) => b.project(),
            B::Fees(b) => b.project(),
            B::Bridge(b) => b.project(),
            B::Operators(b) => b.project(),
            B::Upgrade(b) => b.project(),
            B::Abi(b) => b.project(),
            B::AbiOwn(b) => b.project(),
            B::Its(b) => b.project(),
            B::System(b) => b.project(),
        }
    }
}

pub fn make_binder(module: &str, inst: &J, init: &J) -> B {
    match module {
        "Gateway" => B::Gateway(GatewayBinder::new(inst, init)),
        "Token" => B::Token(TokenBinder::new(inst, init)),
        "GasService" => B::Gas(GasBinder::new(inst, init)),
        "Fees" => B::Fees(FeesBinder::new(inst, init)),
        "Bridge" => B::Bridge(Box::new(BridgeBinder::new(inst, init))),
        "Operators" => B::Operators(OperatorsBinder::new(inst, init)),
        "Upgrade" => B::Upgrade(UpgradeBinder::new(inst, init)),
        "Abi" => B::Abi(AbiBinder::new(inst, init)),
        "AbiOwn" => B::AbiOwn(AbiOwnBinder::new(inst, init)),
        "ITS" => B::Its(Box::new(ItsBinder::new(inst, init))),
        "System" => B::System(Box::new(SystemBinder::new(inst, init))),
        m => panic!("unknown module {m}"),
    }
}

/// conform drive <module> <seed> <runs> <steps> <out.ndjson>
pub fn cmd_drive(args: &[String]) {
    let seed: u64 = args[1].parse().unwrap();
    let runs: usize = args[2].parse().unwrap();
    let steps: usize = args[3].parse().unwrap();
    match args[0].as_str() {
        "Gateway" => crate::drive_gateway::drive(seed, runs, steps, &args[4]),
        "Token" => crate::drive_token::drive(seed, runs, steps, &args[4]),
        "GasService" => crate::drive_gas::drive(seed, runs, steps, &args[4]),
        "ITS" => crate::drive_its::drive(seed, runs, steps, &args[4]),
        "Abi" => crate::drive_abi::drive(seed, runs, steps, &args[4]),
        m => panic!("no driver for module {m}"),
    }
}
