//! Binding of spec/Abi.tla to the ITS codec (HubMessage::abi_encode / abi_decode of /repo).
#![allow(dead_code)]

use crate::common::*;
use interchain_token_service::types::{DeployInterchainToken, HubMessage, InterchainTransfer, Message};
use serde_json::{json, Value as J};
use soroban_sdk::{Bytes, BytesN, Env, String as SStr};

pub fn jbytes(v: &J) -> Vec<u8> {
    v.as_array().map(|a| a.iter().map(|x| x.as_u64().unwrap() as u8).collect()).unwrap_or_default()
}
pub fn to_jbytes(b: &[u8]) -> J {
    J::Array(b.iter().map(|x| json!(*x)).collect())
}

fn opt_bytes(env: &Env, b: &[u8]) -> Option<Bytes> {
    if b.is_empty() {
        None
    } else {
        Some(Bytes::from_slice(env, b))
    }
}

pub fn msg_from_json(env: &Env, m: &J) -> HubMessage {
    let chain = SStr::from_bytes(env, &jbytes(&m["chain"]));
    let mut tid = [0u8; 32];
    tid.copy_from_slice(&jbytes(&m["tokenId"]));
    let token_id = BytesN::from_array(env, &tid);
    let inner = if m["inner"] == json!("transfer") {
        let a = jbytes(&m["amount"]);
        let mut buf = [0u8; 16];
        buf.copy_from_slice(&a);
        Message::InterchainTransfer(InterchainTransfer {
            token_id,
            source_address: Bytes::from_slice(env, &jbytes(&m["src"])),
            destination_address: Bytes::from_slice(env, &jbytes(&m["dst"])),
            amount: i128::from_be_bytes(buf),
            data: opt_bytes(env, &jbytes(&m["data"])),
        })
    } else {
        Message::DeployInterchainToken(DeployInterchainToken {
            token_id,
            name: SStr::from_bytes(env, &jbytes(&m["name"])),
            symbol: SStr::from_bytes(env, &jbytes(&m["symbol"])),
            decimals: m["decimals"].as_u64().unwrap() as u8,
            minter: opt_bytes(env, &jbytes(&m["minter"])),
        })
    };
    if m["outer"] == json!("send") {
        HubMessage::SendToHub { destination_chain: chain, message: inner }
    } else {
        HubMessage::ReceiveFromHub { source_chain: chain, message: inner }
    }
}

fn sbytes(s: &SStr) -> Vec<u8> {
    let mut v = vec![0u8; s.len() as usize];
    s.copy_into_slice(&mut v);
    v
}

pub fn msg_to_json(m: &HubMessage) -> J {
    let (outer, chain, inner) = match m {
        HubMessage::SendToHub { destination_chain, message } => ("send", destination_chain, message),
        HubMessage::ReceiveFromHub { source_chain, message } => ("recv", source_chain, message),
    };
    let ob = |o: &Option<Bytes>| -> J { to_jbytes(&o.as_ref().map(bytes_to_vec).unwrap_or_default()) };
    match inner {
        Message::InterchainTransfer(t) => json!({
            "outer": outer, "chain": to_jbytes(&sbytes(chain)), "inner": "transfer", "tokenId": to_jbytes(&t.token_id.to_array()),
            "src": to_jbytes(&bytes_to_vec(&t.source_address)), "dst": to_jbytes(&bytes_to_vec(&t.destination_address)),
            "amount": to_jbytes(&t.amount.to_be_bytes()), "data": ob(&t.data)}),
        Message::DeployInterchainToken(d) => json!({
            "outer": outer, "chain": to_jbytes(&sbytes(chain)), "inner": "deploy", "tokenId": to_jbytes(&d.token_id.to_array()),
            "name": to_jbytes(&sbytes(&d.name)), "symbol": to_jbytes(&sbytes(&d.symbol)), "decimals": d.decimals, "minter": ob(&d.minter)}),
    }
}

pub fn apply_mut(b: &[u8], m: &J) -> Vec<u8> {
    let mut v = b.to_vec();
    match m["kind"].as_str().unwrap() {
        "flip" => {
            let off = m["off"].as_u64().unwrap() as usize;
            v[off] ^= m["mask"].as_u64().unwrap() as u8;
        }
        "trunc" => v.truncate(b.len() - m["n"].as_u64().unwrap() as usize),
        "extend" => v.extend(std::iter::repeat(m["byte"].as_u64().unwrap() as u8).take(m["n"].as_u64().unwrap() as usize)),
        "setbytes" => {
            let off = m["off"].as_u64().unwrap() as usize;
            for (i, x) in jbytes(&m["bytes"]).iter().enumerate() {
                if off + i < v.len() {
                    v[off + i] = *x;
                }
            }
        }
        "shortinner" => {
            // a canonical wrapper whose nested message field holds only the first n bytes of the nested message
            let n = m["n"].as_u64().unwrap() as usize;
            let s = u32::from_be_bytes([b[92], b[93], b[94], b[95]]) as usize + 32; // start of the nested bytes
            let inner: Vec<u8> = b[s..].iter().cloned().take(n).collect();
            v.truncate(s - 32);
            let mut lenw = [0u8; 32];
            lenw[28..].copy_from_slice(&(inner.len() as u32).to_be_bytes());
            v.extend_from_slice(&lenw);
            v.extend_from_slice(&inner);
            v.extend(std::iter::repeat(0u8).take((32 - inner.len() % 32) % 32));
        }
        k => panic!("mutation kind {k}"),
    }
    v
}

/// encode through the contract's codec; panics are data
pub fn code_encode(env: &Env, m: &J) -> Result<Vec<u8>, String> {
    let env2 = env.clone();
    let mj = m.clone();
    match std::panic::catch_unwind(std::panic::AssertUnwindSafe(move || {
        let hm = msg_from_json(&env2, &mj);
        hm.abi_encode(&env2).map(|b| bytes_to_vec(&b)).map_err(|e| format!("{:?}", e))
    })) {
        Ok(r) => r,
        Err(_) => Err("PANIC".into()),
    }
}

/// decode through the contract's codec: Ok(message json, re-encoding) | Err | PANIC
pub fn code_decode(env: &Env, b: &[u8]) -> Result<(J, Vec<u8>), String> {
    let env2 = env.clone();
    let bytes = b.to_vec();
    match std::panic::catch_unwind(std::panic::AssertUnwindSafe(move || {
        let payload = Bytes::from_slice(&env2, &bytes);
        match HubMessage::abi_decode(&env2, &payload) {
            Ok(m) => {
                let j = msg_to_json(&m);
                let re = m.abi_encode(&env2).map(|b| bytes_to_vec(&b)).unwrap_or_default();
                Ok((j, re))
            }
            Err(e) => Err(format!("{:?}", e)),
        }
    })) {
        Ok(r) => r,
        Err(_) => Err("PANIC".into()),
    }
}

pub struct AbiBinder {
    pub env: Env,
    pub inst: J,
}

impl AbiBinder {
    pub fn new(inst: &J, _init: &J) -> AbiBinder {
        AbiBinder { env: new_env(), inst: inst.clone() }
    }
    fn okobs(ret: J) -> Obs {
        Obs { ok: true, ret, ev: vec![], err: String::new() }
    }
    fn rej(e: String) -> Obs {
        // a crash is never a legitimate rejection: surface it as a (wrong) acceptance so that it is reported
        if e == "PANIC" {
            return Obs { ok: true, ret: json!("PANIC"), ev: vec![], err: e };
        }
        Obs { ok: false, ret: json!("none"), ev: vec![], err: e }
    }
    pub fn exec(&mut self, act: &J) -> Obs {
        match act["name"].as_str().unwrap() {
            "Encode" => {
                let i = act["msg"].as_u64().unwrap() as usize - 1;
                match code_encode(&self.env, &self.inst["Msgs"][i]) {
                    Ok(b) => Self::okobs(if b == jbytes(&self.inst["Enc"][i]) { json!("enc_ok") } else { json!({"enc_mismatch": to_jbytes(&b)}) }),
                    Err(e) => Self::rej(e),
                }
            }
            "Decode" => {
                let i = act["msg"].as_u64().unwrap() as usize - 1;
                let b = jbytes(&self.inst["Enc"][i]);
                match code_decode(&self.env, &b) {
                    Ok((m, re)) => Self::okobs(if m == self.inst["Msgs"][i] && re == b { json!("dec_ok") } else { json!({"dec_mismatch": m}) }),
                    Err(e) => Self::rej(e),
                }
            }
            "DecodeMut" => {
                let i = act["base"].as_u64().unwrap() as usize - 1;
                let b = apply_mut(&jbytes(&self.inst["Enc"][i]), &act["mut"]);
                match code_decode(&self.env, &b) {
                    Ok((m, re)) => Self::okobs(if re == b { m } else { json!({"reencode_mismatch": m}) }),
                    Err(e) => Self::rej(e),
                }
            }
            "EncodeJ" => match code_encode(&self.env, &act["m"]) {
                Ok(b) => Self::okobs(to_jbytes(&b)),
                Err(e) => Self::rej(e),
            },
            "DecodeB" => match code_decode(&self.env, &jbytes(&act["b"])) {
                Ok((m, re)) => Self::okobs(if re == jbytes(&act["b"]) { m } else { json!({"reencode_mismatch": m}) }),
                Err(e) => Self::rej(e),
            },
            n => panic!("Abi: unknown action {n}"),
        }
    }
    pub fn project(&mut self) -> J {
        json!({"s": "abi"})
    }
}

// ---------------------------------------------------------------------------------------------
// The harness's own codec for hub messages (used by the ITS binding to build inbound payloads and
// to read announced ones).  It is a port of spec/Abi.tla and is cross-validated against TLC's
// encodings and verdicts by the C10 check (module "AbiOwn"): it never consults the contract's codec.

fn word(n: usize) -> Vec<u8> {
    let mut w = vec![0u8; 32];
    w[24..].copy_from_slice(&(n as u64).to_be_bytes());
    w
}
fn pad_len(n: usize) -> usize {
    (n + 31) / 32 * 32
}
fn enc_bytes(b: &[u8]) -> Vec<u8> {
    let mut v = word(b.len());
    v.extend_from_slice(b);
    v.extend(std::iter::repeat(0u8).take(pad_len(b.len()) - b.len()));
    v
}

pub fn own_representable(m: &J) -> bool {
    let utf = |k: &str| std::str::from_utf8(&jbytes(&m[k])).is_ok();
    if !utf("chain") || jbytes(&m["tokenId"]).len() != 32 {
        return false;
    }
    if m["inner"] == json!("transfer") {
        let a = jbytes(&m["amount"]);
        a.len() == 16 && a[0] <= 127
    } else {
        utf("name") && utf("symbol") && m["decimals"].as_u64().map(|d| d <= 255).unwrap_or(false)
    }
}

pub fn own_encode_inner(m: &J) -> Vec<u8> {
    let mut v = vec![];
    if m["inner"] == json!("transfer") {
        let (src, dst, data) = (jbytes(&m["src"]), jbytes(&m["dst"]), jbytes(&m["data"]));
        let o1 = 192;
        let o2 = o1 + 32 + pad_len(src.len());
        let o3 = o2 + 32 + pad_len(dst.len());
        v.extend(word(0));
        v.extend(jbytes(&m["tokenId"]));
        v.extend(word(o1));
        v.extend(word(o2));
        v.extend(vec![0u8; 16]);
        v.extend(jbytes(&m["amount"]));
        v.extend(word(o3));
        v.extend(enc_bytes(&src));
        v.extend(enc_bytes(&dst));
        v.extend(enc_bytes(&data));
    } else {
        let (name, symbol, minter) = (jbytes(&m["name"]), jbytes(&m["symbol"]), jbytes(&m["minter"]));
        let o1 = 192;
        let o2 = o1 + 32 + pad_len(name.len());
        let o3 = o2 + 32 + pad_len(symbol.len());
        v.extend(word(1));
        v.extend(jbytes(&m["tokenId"]));
        v.extend(word(o1));
        v.extend(word(o2));
        v.extend(word(m["decimals"].as_u64().unwrap() as usize));
        v.extend(word(o3));
        v.extend(enc_bytes(&name));
        v.extend(enc_bytes(&symbol));
        v.extend(enc_bytes(&minter));
    }
    v
}

pub fn own_encode(m: &J) -> Vec<u8> {
    let chain = jbytes(&m["chain"]);
    let inner = own_encode_inner(m);
    let mut v = word(if m["outer"] == json!("send") { 3 } else { 4 });
    v.extend(word(96));
    v.extend(word(96 + 32 + pad_len(chain.len())));
    v.extend(enc_bytes(&chain));
    v.extend(enc_bytes(&inner));
    v
}

fn small_word(b: &[u8], off: usize) -> Option<usize> {
    if off + 32 > b.len() || b[off..off + 28].iter().any(|x| *x != 0) || b[off + 28] > 127 {
        return None;
    }
    Some(u32::from_be_bytes([b[off + 28], b[off + 29], b[off + 30], b[off + 31]]) as usize)
}
fn dyn_at(b: &[u8], off: usize) -> Option<Vec<u8>> {
    let len = small_word(b, off)?;
    if off + 32 + len > b.len() {
        return None;
    }
    Some(b[off + 32..off + 32 + len].to_vec())
}

fn own_parse_inner(b: &[u8]) -> Option<J> {
    if b.len() < 192 {
        return None;
    }
    let t = small_word(b, 0)?;
    if t > 1 {
        return None;
    }
    let (o1, o2, o3) = (small_word(b, 64)?, small_word(b, 96)?, small_word(b, 160)?);
    let (d1, d2, d3) = (dyn_at(b, o1)?, dyn_at(b, o2)?, dyn_at(b, o3)?);
    let tid = to_jbytes(&b[32..64]);
    if t == 0 {
        if b[128..144].iter().any(|x| *x != 0) {
            return None;
        }
        Some(json!({"inner": "transfer", "tokenId": tid, "src": to_jbytes(&d1), "dst": to_jbytes(&d2), "amount": to_jbytes(&b[144..160]), "data": to_jbytes(&d3)}))
    } else {
        let dec = small_word(b, 128)?;
        if dec > 255 {
            return None;
        }
        Some(json!({"inner": "deploy", "tokenId": tid, "name": to_jbytes(&d1), "symbol": to_jbytes(&d2), "decimals": dec, "minter": to_jbytes(&d3)}))
    }
}

/// canonical decode: Some(message) iff the bytes are exactly the encoding of a representable message
pub fn own_decode(b: &[u8]) -> Option<J> {
    if b.len() < 96 {
        return None;
    }
    let t = small_word(b, 0)?;
    if t != 3 && t != 4 {
        return None;
    }
    let (o1, o2) = (small_word(b, 32)?, small_word(b, 64)?);
    let chain = dyn_at(b, o1)?;
    let inner = dyn_at(b, o2)?;
    let mut m = own_parse_inner(&inner)?;
    m["outer"] = json!(if t == 3 { "send" } else { "recv" });
    m["chain"] = to_jbytes(&chain);
    if own_representable(&m) && own_encode(&m) == b {
        Some(m)
    } else {
        None
    }
}

/// the same catalogue actions as AbiBinder, executed against the harness's own codec
pub struct AbiOwnBinder {
    pub inst: J,
}
impl AbiOwnBinder {
    pub fn new(inst: &J, _init: &J) -> AbiOwnBinder {
        AbiOwnBinder { inst: inst.clone() }
    }
    pub fn exec(&mut self, act: &J) -> Obs {
        let ok = |ret: J| Obs { ok: true, ret, ev: vec![], err: String::new() };
        let rej = || Obs { ok: false, ret: json!("none"), ev: vec![], err: "own".into() };
        match act["name"].as_str().unwrap() {
            "Encode" => {
                let i = act["msg"].as_u64().unwrap() as usize - 1;
                let m = &self.inst["Msgs"][i];
                if !own_representable(m) {
                    return rej();
                }
                ok(if own_encode(m) == jbytes(&self.inst["Enc"][i]) { json!("enc_ok") } else { json!("enc_mismatch") })
            }
            "Decode" => {
                let i = act["msg"].as_u64().unwrap() as usize - 1;
                match own_decode(&jbytes(&self.inst["Enc"][i])) {
                    Some(m) => ok(if m == self.inst["Msgs"][i] { json!("dec_ok") } else { json!({"dec_mismatch": m}) }),
                    None => rej(),
                }
            }
            "DecodeMut" => {
                let i = act["base"].as_u64().unwrap() as usize - 1;
                match own_decode(&apply_mut(&jbytes(&self.inst["Enc"][i]), &act["mut"])) {
                    Some(m) => ok(m),
                    None => rej(),
                }
            }
            n => panic!("AbiOwn: unknown action {n}"),
        }
    }
    pub fn project(&mut self) -> J {
        json!({"s": "abi"})
    }
}
