//! Seeded random driver for the interchain token service (impl -> spec).
use crate::its::ItsBinder;
use rand::{Rng, SeedableRng};
use rand_chacha::ChaCha8Rng;
use serde_json::{json, Value as J};
use std::io::Write;

const USERS: [&str; 4] = ["alice", "bob", "carol", "dave"];
const CHAINS: [&str; 3] = ["ethereum", "avalanche", "polygon"];
const IDS: [&str; 8] = ["iA1", "iA2", "iB1", "iB2", "cS", "cF", "r1", "r2"];
const METAS: [&str; 8] = ["good", "mb255", "dec0", "asset", "dec256", "emptyName", "emptySym", "sacMeta"];

fn inst() -> J {
    let mut payloads = serde_json::Map::new();
    let nomut = json!({"kind": "none"});
    let mut n = 0;
    let mut add = |p: J| {
        n += 1;
        payloads.insert(format!("p{:02}", n), p);
    };
    for id in ["iA1", "iA2", "iB1", "cS", "cF", "r1", "r2"] {
        for (rcp, amt, data) in [("bob", 1, "none"), ("carol", 2, "none"), ("app", 1, "d1"), ("trap", 1, "d1"), ("alice", 0, "none"), ("garbage", 1, "none")] {
            for origin in ["ethereum", "polygon"] {
                if origin == "polygon" && rcp != "bob" {
                    continue;
                }
                add(json!({"outer": "recv", "origin": origin, "inner": "transfer", "id": id, "sender": "evm1", "recipient": rcp, "amt": amt, "data": data, "mut": nomut}));
            }
        }
    }
    for (id, meta, minter) in [("r1", "good", "none"), ("r1", "dec0", "carol"), ("r2", "mb255", "none"), ("r2", "emptySym", "none"), ("iA1", "good", "none"), ("cS", "good", "none"), ("r2", "good", "garbage"), ("r2", "good", "garbageRaw")] {
        add(json!({"outer": "recv", "origin": "ethereum", "inner": "deploy", "id": id, "meta": meta, "minter": minter, "mut": nomut}));
    }
    let base = json!({"outer": "recv", "origin": "ethereum", "inner": "transfer", "id": "iA1", "sender": "evm1", "recipient": "bob", "amt": 1, "data": "none", "mut": nomut});
    let w = |v: u8| -> J { let mut b = vec![0u8; 32]; b[31] = v; json!(b) };
    for m in [json!({"kind": "trunc", "n": 1}), json!({"kind": "trunc", "n": 32}), json!({"kind": "extend", "n": 1}), json!({"kind": "extend", "n": 32}),
              json!({"kind": "setinner", "off": 0, "bytes": w(2)}), json!({"kind": "setinner", "off": 0, "bytes": w(5)}), json!({"kind": "setouter", "off": 0, "bytes": w(5)})] {
        let mut p = base.clone();
        p["mut"] = m;
        add(p);
    }
    let mut s = base.clone();
    s["outer"] = json!("send");
    add(s);
    add(json!({"outer": "short", "origin": "ethereum", "inner": "none", "id": "iA1", "mut": nomut}));
    json!({
        "module": "ITS", "Chains": CHAINS, "Accts": ["alice", "bob", "carol", "dave", "its", "gs", "app", "trap"],
        "Ids": IDS, "IdOf": {"alice": {"s1": "iA1", "s2": "iA2"}, "bob": {"s1": "iB1", "s2": "iB2"}},
        "IdCOf": {"sac": "cS", "fk": "cF"}, "Canon": ["sac", "fk"],
        "Metas": {
            "good": {"nameLen": 10, "symLen": 4, "decimals": 7, "utf8": true, "style": "ascii"},
            "mb255": {"nameLen": 33, "symLen": 3, "decimals": 255, "utf8": true, "style": "mb"},
            "dec0": {"nameLen": 1, "symLen": 32, "decimals": 0, "utf8": true, "style": "ascii"},
            "asset": {"nameLen": 61, "symLen": 4, "decimals": 7, "utf8": true, "style": "asset"},
            "dec256": {"nameLen": 5, "symLen": 4, "decimals": 256, "utf8": true, "style": "ascii"},
            "emptyName": {"nameLen": 0, "symLen": 4, "decimals": 7, "utf8": true, "style": "ascii"},
            "emptySym": {"nameLen": 5, "symLen": 0, "decimals": 7, "utf8": true, "style": "ascii"},
            "sacMeta": {"nameLen": 6, "symLen": 6, "decimals": 7, "utf8": true, "style": "sac"}},
        "Deliveries": {"d0": {"key": "k0", "srcChain": "axelar", "srcAddr": "hub", "dest": "its", "payload": "p01"}},
        "Payloads": payloads, "Keys": ["k0"], "RemoteIds": ["r1", "r2"],
    })
}

fn auth_for(rng: &mut ChaCha8Rng, named: &str) -> Vec<String> {
    let x: f64 = rng.gen();
    if x < 0.85 {
        vec![named.to_string()]
    } else if x < 0.92 {
        vec![]
    } else {
        vec![["owner0", "mallory", "alice", "bob"][rng.gen_range(0..4)].to_string()]
    }
}

fn rand_act(rng: &mut ChaCha8Rng, inst: &J, pre: &J) -> J {
    let pnames: Vec<String> = inst["Payloads"].as_object().unwrap().keys().cloned().collect();
    let owner = pre["owner"].as_str().unwrap().to_string();
    let u = |rng: &mut ChaCha8Rng| USERS[rng.gen_range(0..4)];
    match rng.gen_range(0..100) {
        0..=7 => {
            let n = if rng.gen_bool(0.6) { "SetTrusted" } else { "RemoveTrusted" };
            json!({"name": n, "chain": CHAINS[rng.gen_range(0..3)], "auth": auth_for(rng, &owner)})
        }
        8..=19 => {
            let c = ["alice", "bob"][rng.gen_range(0..2)];
            let minter = ["none", "none", "carol", c, "its"][rng.gen_range(0..5)];
            json!({"name": "DeployInterchainToken", "caller": c, "salt": (["s1", "s2"][rng.gen_range(0..2)]), "meta": (METAS[rng.gen_range(0..7)]),
                   "supply": ([-1, 0, 0, 3, 5][rng.gen_range(0..5)]), "minter": minter, "auth": auth_for(rng, c)})
        }
        20..=24 => json!({"name": "RegisterCanonical", "tok": (["sac", "fk"][rng.gen_range(0..2)])}),
        25..=31 => json!({"name": "SetFakeMeta", "meta": (METAS[rng.gen_range(0..7)])}),
        32..=41 => {
            let c = ["alice", "bob"][rng.gen_range(0..2)];
            json!({"name": "DeployRemoteInterchainToken", "caller": c, "salt": (["s1", "s2"][rng.gen_range(0..2)]), "dest": (CHAINS[rng.gen_range(0..3)]),
                   "gas": ([1, 1, 1, 0, -1, 50][rng.gen_range(0..6)]), "auth": auth_for(rng, c)})
        }
        42..=49 => {
            let sp = u(rng);
            json!({"name": "DeployRemoteCanonical", "tok": (["sac", "fk"][rng.gen_range(0..2)]), "dest": (CHAINS[rng.gen_range(0..3)]), "spender": sp,
                   "gas": ([1, 1, 1, 0, 50][rng.gen_range(0..5)]), "auth": auth_for(rng, sp)})
        }
        50..=69 => {
            // mostly sensible: a registered token, a holder, an affordable amount, a trusted chain
            let regd: Vec<&str> = IDS.iter().cloned().filter(|i| pre["reg"][*i] != json!("none")).collect();
            let smart = !regd.is_empty() && rng.gen_bool(0.75);
            let id = if smart { regd[rng.gen_range(0..regd.len())] } else { IDS[rng.gen_range(0..8)] };
            let tok = if pre["reg"][id] == json!("lock") { pre["regTok"][id].as_str().unwrap_or("sac").to_string() } else { id.to_string() };
            let holders: Vec<&str> = USERS.iter().cloned().filter(|x| pre["bal"][&tok][*x].as_i64().unwrap_or(0) > 0).collect();
            let c = if smart && !holders.is_empty() { holders[rng.gen_range(0..holders.len())] } else { u(rng) };
            let b = pre["bal"][&tok][c].as_i64().unwrap_or(0);
            let amt = if smart { [1, 1, b, b + 1, 0, -1][rng.gen_range(0..6)] } else { [-1, 0, 1, 2, 9][rng.gen_range(0..5)] };
            let trusted: Vec<&str> = CHAINS.iter().cloned().filter(|x| pre["trusted"][*x] == json!(true)).collect();
            let dest = if smart && !trusted.is_empty() && rng.gen_bool(0.85) { trusted[rng.gen_range(0..trusted.len())] } else { CHAINS[rng.gen_range(0..3)] };
            json!({"name": "InterchainTransfer", "caller": c, "id": id, "dest": dest, "destAddr": "0xdest",
                   "amt": amt, "data": (["none", "none", "d1"][rng.gen_range(0..3)]),
                   "gas": ([1, 1, 1, 1, 0, 50][rng.gen_range(0..6)]), "auth": auth_for(rng, c)})
        }
        70..=91 => {
            let sensible: Vec<&String> = pnames.iter().filter(|p| {
                let e = &inst["Payloads"][p.as_str()];
                e["inner"] == json!("transfer") && pre["reg"][e["id"].as_str().unwrap_or("")] != json!("none") && e["mut"]["kind"] == json!("none")
            }).collect();
            let p = if !sensible.is_empty() && rng.gen_bool(0.6) { sensible[rng.gen_range(0..sensible.len())].clone() } else { pnames[rng.gen_range(0..pnames.len())].clone() };
            let chain = if rng.gen_bool(0.93) { "axelar" } else { "ethereum" };
            let addr = if rng.gen_bool(0.93) { "hub" } else { "nothub" };
            json!({"name": "Deliver", "payload": p, "srcChain": chain, "srcAddr": addr})
        }
        92..=94 => json!({"name": "MinterMint", "id": (["iA1", "iA2", "iB1", "r1"][rng.gen_range(0..4)]), "minter": (["carol", "alice", "bob"][rng.gen_range(0..3)]),
                          "to": u(rng), "amt": 1, "auth": ["carol"]}),
        95..=97 => {
            let c = u(rng);
            json!({"name": "ExampleSend", "caller": c, "gas": ([1, 1, 0, 50][rng.gen_range(0..4)]), "auth": auth_for(rng, c)})
        }
        _ => json!({"name": "TransferOwnership", "new": (["owner0", "bob"][rng.gen_range(0..2)]), "auth": auth_for(rng, &owner)}),
    }
}

pub fn drive(seed: u64, runs: usize, steps: usize, out: &str) {
    let inst = inst();
    let mut handles = vec![];
    for run in 0..runs {
        let inst = inst.clone();
        handles.push(
            std::thread::Builder::new()
                .stack_size(128 << 20)
                .spawn(move || {
                    let mut rng = ChaCha8Rng::seed_from_u64(seed.wrapping_mul(5_000_011).wrapping_add(run as u64));
                    let g = |rng: &mut ChaCha8Rng| rng.gen_range(5..=14);
                    let init = json!({"owner": "owner0", "fkMeta": "good",
                        "trusted": {"ethereum": true, "avalanche": false, "polygon": rng.gen_bool(0.7)},
                        "gas": {"alice": g(&mut rng), "bob": g(&mut rng), "carol": g(&mut rng), "dave": 0},
                        "bal": {"sac": {"alice": 4, "bob": 2, "carol": 0}, "fk": {"alice": 3, "bob": 0}}});
                    let mut b = ItsBinder::new(&inst, &init);
                    let mut pre = b.project();
                    let mut buf = vec![json!({"reset": true, "pre": pre}).to_string()];
                    for _ in 0..steps {
                        let act = rand_act(&mut rng, &inst, &pre);
                        let obs = b.exec(&act);
                        let post = b.project();
                        buf.push(json!({"reset": false, "pre": pre, "act": act, "obs": {"ok": obs.ok, "ret": obs.ret, "ev": obs.ev}, "post": post}).to_string());
                        pre = post;
                    }
                    buf
                })
                .unwrap(),
        );
    }
    let mut f = std::io::BufWriter::new(std::fs::File::create(out).unwrap());
    writeln!(f, "{}", inst).unwrap();
    for h in handles {
        for l in h.join().unwrap() {
            writeln!(f, "{}", l).unwrap();
        }
    }
    f.flush().unwrap();
}
