//! Seeded random driver for the interchain token (impl -> spec): logs {pre, act, obs, post} per call.
use crate::token::TokenBinder;
use rand::{Rng, SeedableRng};
use rand_chacha::ChaCha8Rng;
use serde_json::{json, Value as J};
use std::io::Write;

const ACCTS: [&str; 6] = ["its0", "alice", "bob", "carol", "dave", "mallory"];

fn pick<'a>(rng: &mut ChaCha8Rng, xs: &[&'a str]) -> &'a str {
    xs[rng.gen_range(0..xs.len())]
}

fn auth_for(rng: &mut ChaCha8Rng, named: &str) -> Vec<String> {
    let x: f64 = rng.gen();
    if x < 0.82 {
        vec![named.to_string()]
    } else if x < 0.90 {
        vec![]
    } else {
        let mut o = pick(rng, &ACCTS).to_string();
        if o == named {
            o = "mallory".into();
        }
        vec![o]
    }
}

fn rand_amt(rng: &mut ChaCha8Rng, around: i64) -> i64 {
    match rng.gen_range(0..10) {
        0 => -1,
        1 => 0,
        2 => around,
        3 => around + 1,
        4 => (around - 1).max(0),
        _ => rng.gen_range(0..=4),
    }
}

fn rand_act(rng: &mut ChaCha8Rng, pre: &J) -> J {
    let users = ["alice", "bob", "carol", "dave"];
    let owner = pre["owner"].as_str().unwrap().to_string();
    let seq = pre["seq"].as_i64().unwrap();
    let bal = |a: &str| pre["bal"][a].as_i64().unwrap_or(0);
    let alw = |f: &str, s: &str| pre["allowance"][f][s].as_i64().unwrap_or(0);
    match rng.gen_range(0..100) {
        0..=13 => {
            let to = pick(rng, &users);
            json!({"name": "Mint", "to": to, "amt": rand_amt(rng, 2), "auth": auth_for(rng, &owner)})
        }
        14..=21 => {
            let m = pick(rng, &["bob", "carol", "its0"]);
            json!({"name": "MintFrom", "minter": m, "to": pick(rng, &users), "amt": rand_amt(rng, 1), "auth": auth_for(rng, m)})
        }
        22..=27 => {
            let n = if rng.gen_bool(0.6) { "AddMinter" } else { "RemoveMinter" };
            json!({"name": n, "minter": pick(rng, &["bob", "carol", "its0"]), "auth": auth_for(rng, &owner)})
        }
        28..=42 => {
            let f = pick(rng, &users);
            let s = pick(rng, &users);
            let exp = seq + [-1i64, 0, 0, 1, 2, 3, 6311999, 6312000][rng.gen_range(0..8)];
            json!({"name": "Approve", "from": f, "spender": s, "amt": rand_amt(rng, bal(f)), "exp": exp.max(0), "auth": auth_for(rng, f)})
        }
        43..=57 => {
            let f = pick(rng, &users);
            json!({"name": "Transfer", "from": f, "to": pick(rng, &users), "amt": rand_amt(rng, bal(f)), "auth": auth_for(rng, f)})
        }
        58..=70 => {
            let f = pick(rng, &users);
            let s = pick(rng, &users);
            json!({"name": "TransferFrom", "spender": s, "from": f, "to": pick(rng, &users), "amt": rand_amt(rng, alw(f, s)), "auth": auth_for(rng, s)})
        }
        71..=78 => {
            let f = pick(rng, &users);
            json!({"name": "Burn", "from": f, "amt": rand_amt(rng, bal(f)), "auth": auth_for(rng, f)})
        }
        79..=87 => {
            let f = pick(rng, &users);
            let s = pick(rng, &users);
            json!({"name": "BurnFrom", "spender": s, "from": f, "amt": rand_amt(rng, alw(f, s)), "auth": auth_for(rng, s)})
        }
        88..=91 => json!({"name": "TransferOwnership", "new": pick(rng, &["its0", "carol", "dave"]), "auth": auth_for(rng, &owner)}),
        92..=93 => {
            let f = pick(rng, &users);
            match rng.gen_range(0..4) {
                0 => json!({"name": "SetAuthorized", "id": f, "flag": rng.gen_bool(0.5), "auth": auth_for(rng, &owner)}),
                1 => json!({"name": "Authorized", "id": f, "auth": []}),
                _ => json!({"name": "Clawback", "from": f, "amt": rand_amt(rng, bal(f)), "auth": auth_for(rng, &owner)}),
            }
        }
        _ => json!({"name": "AdvanceLedger", "d": rng.gen_range(0..=2)}),
    }
}

pub fn drive(seed: u64, runs: usize, steps: usize, out: &str) {
    let inst = json!({"module": "Token", "Accts": ACCTS, "Cap": 0, "MaxLive": 6311999, "scale": {"Q": "1"}});
    let mut handles = vec![];
    for run in 0..runs {
        let inst = inst.clone();
        handles.push(
            std::thread::Builder::new()
                .stack_size(64 << 20)
                .spawn(move || {
                    let mut rng = ChaCha8Rng::seed_from_u64(seed.wrapping_mul(7_000_003).wrapping_add(run as u64));
                    let mut minters = serde_json::Map::new();
                    for a in ACCTS {
                        minters.insert(a.to_string(), json!(a == "its0" || (a == "bob" && run % 2 == 1)));
                    }
                    let init = json!({"owner": "its0", "minters": minters, "seq": 1});
                    let mut b = TokenBinder::new(&inst, &init);
                    let mut pre = b.project();
                    let mut buf = vec![json!({"reset": true, "pre": pre}).to_string()];
                    for _ in 0..steps {
                        let act = rand_act(&mut rng, &pre);
                        let obs = b.exec(&act);
                        let post = b.project();
                        buf.push(json!({"reset": false, "pre": pre, "act": act, "obs": {"ok": obs.ok, "ret": obs.ret, "ev": obs.ev}, "post": post}).to_string());
                        pre = post;
                    }
                    buf
                })
                .unwrap(),
        );
    }
    let mut f = std::io::BufWriter::new(std::fs::File::create(out).unwrap());
    writeln!(f, "{}", inst).unwrap();
    for h in handles {
        for l in h.join().unwrap() {
            writeln!(f, "{}", l).unwrap();
        }
    }
    f.flush().unwrap();
}
