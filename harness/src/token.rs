//! Binding of spec/Token.tla to contracts/interchain-token (natively registered from /repo's source).
#![allow(dead_code)]

use crate::common::*;
use serde_json::{json, Value as J};
use soroban_sdk::vec as svec;
use soroban_sdk::{Address, BytesN, Env, IntoVal, String as SStr, TryFromVal, Val, Vec as SVec};
use soroban_token_sdk::metadata::TokenMetadata;

pub fn iq_of(tag: &str) -> i128 {
    match tag {
        "1" => 1,
        "I1" => i128::MAX,
        "I2" => (i128::MAX - 1) / 2,
        "I7" => i128::MAX / 7,
        other => panic!("unknown i128 scale {other}"),
    }
}

pub fn amt_abs(q: i128, v: i128) -> J {
    if v % q == 0 {
        json!((v / q) as i64)
    } else {
        json!(format!("bad:{v}"))
    }
}

pub struct TokenBinder {
    pub cx: Ctx,
    pub inst: J,
    pub token: Address,
    pub q: i128,
    pub seq: u32,
    pub accts: Vec<String>,
    pub decimals: u32,
}

impl TokenBinder {
    pub fn new(inst: &J, init: &J) -> TokenBinder {
        let mut cx = Ctx::new();
        let env = cx.env.clone();
        let q = iq_of(inst["scale"]["Q"].as_str().unwrap_or("1"));
        let max_live = inst["MaxLive"].as_u64().unwrap() as u32;
        assert!(env.storage().max_ttl() == max_live, "host max_ttl {} differs from the instance's MaxLive {}", env.storage().max_ttl(), max_live);
        let mut accts: Vec<String> = jstrs(inst, "Accts");
        accts.sort();
        let owner_name = jstr(init, "owner");
        let owner = cx.addr(&owner_name);
        let mut minter: Option<Address> = None;
        for (n, v) in init["minters"].as_object().unwrap() {
            if v.as_bool().unwrap() && n != &owner_name {
                minter = Some(cx.addr(n));
            }
        }
        let seq = init["seq"].as_u64().unwrap() as u32;
        cx.set_seq(seq);
        let decimals = inst.get("Decimals").and_then(|x| x.as_u64()).unwrap_or(7) as u32;
        let meta = TokenMetadata { decimal: decimals, name: SStr::from_str(&env, "Verif Token"), symbol: SStr::from_str(&env, "VRF") };
        let token_id = BytesN::<32>::from_array(&env, &[7u8; 32]);
        let token = env.register(interchain_token::InterchainToken, (owner, minter, token_id, meta));
        cx.bind("token", &token);
        for a in accts.iter() {
            cx.addr(a);
        }
        cx.take_events();
        TokenBinder { cx, inst: inst.clone(), token, q, seq, accts, decimals }
    }

    fn amt(&self, act: &J) -> i128 {
        (act["amt"].as_i64().unwrap() as i128) * self.q
    }

    fn auths(&mut self, act: &J, func: &'static str, args: &SVec<Val>) -> Vec<(Address, Inv)> {
        let token = self.token.clone();
        act.get("auth")
            .and_then(|x| x.as_array())
            .map(|a| a.iter().map(|n| (self.cx.addr(n.as_str().unwrap()), Inv::new(&token, func, args.clone()))).collect())
            .unwrap_or_default()
    }

    fn call(&mut self, act: &J, func: &'static str, args: SVec<Val>) -> Result<Val, String> {
        let auths = self.auths(act, func, &args);
        let token = self.token.clone();
        self.cx.call_auth(&auths, &token, func, args)
    }

    pub fn decode_event(&self, c: &Address, topics: &SVec<Val>, data: &Val) -> Option<J> {
        let env = &self.cx.env;
        if c != &self.token {
            return None;
        }
        let name = sym_name(env, &topics.get(0)?)?;
        let addr = |i: u32| -> Option<String> { Address::try_from_val(env, &topics.get(i)?).ok().map(|a| self.cx.name_of(&a)) };
        let amount = |v: &Val| -> J { i128::try_from_val(env, v).map(|x| amt_abs(self.q, x)).unwrap_or(json!("badamt")) };
        match name.as_str() {
            "mint" => Some(json!({"k": "mint", "admin": addr(1)?, "to": addr(2)?, "amt": amount(data)})),
            "transfer" => Some(json!({"k": "transfer", "from": addr(1)?, "to": addr(2)?, "amt": amount(data)})),
            "burn" => Some(json!({"k": "burn", "from": addr(1)?, "amt": amount(data)})),
            "approve" => {
                let (a, e): (i128, u32) = <(i128, u32)>::try_from_val(env, data).ok()?;
                Some(json!({"k": "approve", "from": addr(1)?, "spender": addr(2)?, "amt": amt_abs(self.q, a), "exp": e}))
            }
            "set_admin" => {
                let n = Address::try_from_val(env, data).ok()?;
                Some(json!({"k": "set_admin", "prev": addr(1)?, "new": self.cx.name_of(&n)}))
            }
            "minter_added" | "minter_removed" => Some(json!({"k": name, "who": addr(1)?})),
            "ownership_transferred" => Some(json!({"k": name, "prev": addr(1)?, "new": addr(2)?})),
            _ => Some(json!({"k": name})),
        }
    }

    fn finish(&mut self, r: Result<Val, String>) -> Obs {
        let raw = self.cx.take_events();
        let mut ev = vec![];
        for (c, t, d) in raw.iter() {
            if let Some(e) = self.decode_event(c, t, d) {
                ev.push(e);
            }
        }
        match r {
            Ok(_) => Obs { ok: true, ret: unit(), ev, err: String::new() },
            Err(e) => Obs { ok: false, ret: json!("none"), ev, err: e },
        }
    }

    pub fn exec(&mut self, act: &J) -> Obs {
        self.cx.set_argdrop(act);
        let env = self.cx.env.clone();
        self.cx.set_seq(self.seq);
        let name = jstr(act, "name");
        let a = |s: &mut Self, k: &str| -> Address { s.cx.addr(act[k].as_str().unwrap()) };
        let r = match name.as_str() {
            "AdvanceLedger" => {
                self.seq += act["d"].as_u64().unwrap() as u32;
                self.cx.set_seq(self.seq);
                return Obs { ok: true, ret: unit(), ev: vec![], err: String::new() };
            }
            "Mint" => {
                let args: SVec<Val> = svec![&env, a(self, "to").into_val(&env), self.amt(act).into_val(&env)];
                self.call(act, "mint", args)
            }
            "MintFrom" => {
                let args: SVec<Val> = svec![&env, a(self, "minter").into_val(&env), a(self, "to").into_val(&env), self.amt(act).into_val(&env)];
                self.call(act, "mint_from", args)
            }
            "AddMinter" | "RemoveMinter" => {
                let args: SVec<Val> = svec![&env, a(self, "minter").into_val(&env)];
                self.call(act, if name == "AddMinter" { "add_minter" } else { "remove_minter" }, args)
            }
            "Approve" => {
                let exp = act["exp"].as_i64().unwrap();
                if exp < 0 || exp > u32::MAX as i64 {
                    // not representable as a ledger number: cannot be submitted at all
                    return Obs { ok: false, ret: json!("none"), ev: vec![], err: "unrepresentable".into() };
                }
                let args: SVec<Val> = svec![&env, a(self, "from").into_val(&env), a(self, "spender").into_val(&env), self.amt(act).into_val(&env), (exp as u32).into_val(&env)];
                self.call(act, "approve", args)
            }
            "Transfer" => {
                let args: SVec<Val> = svec![&env, a(self, "from").into_val(&env), a(self, "to").into_val(&env), self.amt(act).into_val(&env)];
                self.call(act, "transfer", args)
            }
            "TransferFrom" => {
                let args: SVec<Val> = svec![&env, a(self, "spender").into_val(&env), a(self, "from").into_val(&env), a(self, "to").into_val(&env), self.amt(act).into_val(&env)];
                self.call(act, "transfer_from", args)
            }
            "Burn" => {
                let args: SVec<Val> = svec![&env, a(self, "from").into_val(&env), self.amt(act).into_val(&env)];
                self.call(act, "burn", args)
            }
            "BurnFrom" => {
                let args: SVec<Val> = svec![&env, a(self, "spender").into_val(&env), a(self, "from").into_val(&env), self.amt(act).into_val(&env)];
                self.call(act, "burn_from", args)
            }
            "TransferOwnership" => {
                let args: SVec<Val> = svec![&env, a(self, "new").into_val(&env)];
                self.call(act, "transfer_ownership", args)
            }
            "HookOpenWindow" => {
                let token = self.token.clone();
                env.as_contract(&token, || axelar_soroban_std::interfaces::verif_open_migration_window(&env));
                return Obs { ok: true, ret: unit(), ev: vec![], err: String::new() };
            }
            "Clawback" => {
                let args: SVec<Val> = svec![&env, a(self, "from").into_val(&env), self.amt(act).into_val(&env)];
                self.call(act, "clawback", args)
            }
            "SetAuthorized" => {
                let args: SVec<Val> = svec![&env, a(self, "id").into_val(&env), act["flag"].as_bool().unwrap().into_val(&env)];
                self.call(act, "set_authorized", args)
            }
            "Authorized" => {
                let args: SVec<Val> = svec![&env, a(self, "id").into_val(&env)];
                self.call(act, "authorized", args)
            }
            other => panic!("Token: unknown action {other}"),
        };
        self.finish(r)
    }

    pub fn project(&mut self) -> J {
        let env = self.cx.env.clone();
        self.cx.set_seq(self.seq);
        let token = self.token.clone();
        let mut bal = serde_json::Map::new();
        let mut allowance = serde_json::Map::new();
        let mut minters = serde_json::Map::new();
        let accts = self.accts.clone();
        for n in accts.iter() {
            let a = self.cx.addr(n);
            let b: Option<i128> = self.cx.query(&token, "balance", svec![&env, a.into_val(&env)]);
            bal.insert(n.clone(), b.map(|x| amt_abs(self.q, x)).unwrap_or(json!("query_failed")));
            let m: Option<bool> = self.cx.query(&token, "is_minter", svec![&env, a.into_val(&env)]);
            minters.insert(n.clone(), json!(m.unwrap_or(false)));
            let mut row = serde_json::Map::new();
            for s in accts.iter() {
                let sa = self.cx.addr(s);
                let v: Option<i128> = self.cx.query(&token, "allowance", svec![&env, a.into_val(&env), sa.into_val(&env)]);
                row.insert(s.clone(), v.map(|x| amt_abs(self.q, x)).unwrap_or(json!("query_failed")));
            }
            allowance.insert(n.clone(), J::Object(row));
        }
        let owner: Option<Address> = self.cx.query(&token, "owner", SVec::new(&env));
        // the token keeps reporting what it was constructed with
        let mut meta: Vec<&str> = vec![];
        let d: Option<u32> = self.cx.query(&token, "decimals", SVec::new(&env));
        let n: Option<SStr> = self.cx.query(&token, "name", SVec::new(&env));
        let sy: Option<SStr> = self.cx.query(&token, "symbol", SVec::new(&env));
        let tid: Option<BytesN<32>> = self.cx.query(&token, "token_id", SVec::new(&env));
        if d != Some(self.decimals) { meta.push("decimals"); }
        if n.map(|x| sstr_to_string(&x)).as_deref() != Some("Verif Token") { meta.push("name"); }
        if sy.map(|x| sstr_to_string(&x)).as_deref() != Some("VRF") { meta.push("symbol"); }
        if tid.map(|b| b.to_array()) != Some([7u8; 32]) { meta.push("token_id"); }
        let meta = if meta.is_empty() { "ok".to_string() } else { meta.join(",") };
        json!({"meta": meta, "bal": bal, "allowance": allowance, "minters": minters,
               "owner": owner.map(|a| self.cx.name_of(&a)).unwrap_or("none".into()), "seq": self.seq})
    }
}

pub fn _unused(_: &Env) {}
