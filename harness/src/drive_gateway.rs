//! Seeded random driver for the gateway (impl -> spec direction): runs long histories over a random
//! catalogue against the real contract and logs one line per public call after it returned:
//! {pre, act, obs:{ok,ret,ev}, post}.  The log is validated by spec/TraceGateway.tla.
use crate::gateway::GatewayBinder;
use rand::seq::SliceRandom;
use rand::{Rng, SeedableRng};
use rand_chacha::ChaCha8Rng;
use serde_json::{json, Value as J};
use std::io::Write;

const TAGS: [&str; 8] = ["Valid", "Unsigned", "WrongDomain", "WrongCommand", "WrongData", "WrongSet", "WrongKey", "BitFlip"];

fn gen_inst(rng: &mut ChaCha8Rng) -> J {
    let mut sets = serde_json::Map::new();
    let nsets = 12;
    for i in 0..nsets {
        let n = rng.gen_range(1..=4);
        let mut ranks: Vec<u64> = (1..=8).collect();
        ranks.shuffle(rng);
        let mut keys: Vec<u64> = ranks[..n].to_vec();
        keys.sort();
        let mut weights: Vec<u64> = (0..n).map(|_| rng.gen_range(1..=4)).collect();
        while weights.iter().sum::<u64>() > 15 {
            let j = rng.gen_range(0..n);
            if weights[j] > 1 {
                weights[j] -= 1;
            }
        }
        let total: u64 = weights.iter().sum();
        let mut threshold = rng.gen_range(1..=total);
        if i >= 2 && rng.gen_bool(0.3) {
            match rng.gen_range(0..7) {
                0 if n >= 2 => keys.swap(0, 1),
                1 => weights[rng.gen_range(0..n)] = 0,
                2 => threshold = 0,
                3 => threshold = total + 1,
                4 => {
                    weights[0] = 15; // pushes the sum past the lattice cap unless n = 1
                    if n == 1 {
                        threshold = 15
                    }
                }
                5 => {
                    keys.clear();
                    weights.clear();
                    threshold = 1;
                }
                6 => keys[0] = 0,
                _ => {
                    if n >= 2 {
                        keys[1] = keys[0]
                    }
                }
            }
        }
        if i == 1 {
            // exact-threshold at the lattice cap: total = threshold = u128::MAX
            keys = vec![2, 5];
            weights = vec![7, 8];
            threshold = 15;
        }
        sets.insert(format!("S{i:02}"), json!({"keys": keys, "weights": weights, "threshold": threshold, "nonce": i}));
    }
    let chains = ["a", "ab", "abc", "x"];
    let ids = ["c", "bc", "1"];
    let mut keys = serde_json::Map::new();
    let mut msgs = serde_json::Map::new();
    let mut ki = 0;
    for c in chains.iter() {
        for id in ids.iter() {
            if ki >= 8 {
                break;
            }
            let kn = format!("K{ki}");
            keys.insert(kn.clone(), json!({"chain": c, "id": id}));
            let mut seen: Vec<(usize, usize, usize)> = vec![];
            for v in 0..2 {
                let mut t = (rng.gen_range(0..2), rng.gen_range(0..2), rng.gen_range(0..3));
                while seen.contains(&t) {
                    t = (rng.gen_range(0..2), rng.gen_range(0..2), rng.gen_range(0..3));
                }
                seen.push(t);
                msgs.insert(
                    format!("M{ki}{}", if v == 0 { "a" } else { "b" }),
                    json!({"key": kn, "src": (["sA", "sB"][t.0]), "dest": (["app1", "app2"][t.1]), "ph": (["p1", "p2", "p3"][t.2])}),
                );
            }
            ki += 1;
        }
    }
    json!({
        "module": "Gateway", "Sets": sets, "Keys": keys, "Msgs": msgs, "Cap": 15,
        "Retention": rng.gen_range(0..=3), "MinDelay": ([0, 2, 5][rng.gen_range(0..3)]),
        "Probes": [], "scale": {"Q": "Q128_15", "Qt": "1", "t0": 1000000},
    })
}

fn wellformed(s: &J) -> bool {
    let keys: Vec<u64> = s["keys"].as_array().unwrap().iter().map(|x| x.as_u64().unwrap()).collect();
    let w: Vec<u64> = s["weights"].as_array().unwrap().iter().map(|x| x.as_u64().unwrap()).collect();
    let t = s["threshold"].as_u64().unwrap();
    !keys.is_empty()
        && keys[0] > 0
        && keys.windows(2).all(|p| p[0] < p[1])
        && w.iter().all(|x| *x != 0)
        && w.iter().sum::<u64>() <= 15
        && t != 0
        && w.iter().sum::<u64>() >= t
}

fn rand_sigs(rng: &mut ChaCha8Rng, n: usize) -> Vec<&'static str> {
    if rng.gen_bool(0.35) {
        return vec!["Valid"; n];
    }
    (0..n)
        .map(|_| {
            let x: f64 = rng.gen();
            if x < 0.55 {
                "Valid"
            } else if x < 0.85 {
                "Unsigned"
            } else {
                TAGS[rng.gen_range(2..8)]
            }
        })
        .collect()
}

fn rand_proof(rng: &mut ChaCha8Rng, inst: &J, pre: &J, prefer_latest: f64) -> J {
    let names: Vec<String> = inst["Sets"].as_object().unwrap().keys().cloned().collect();
    // the projection may report holes ("none") or unknown sets when the code under test lost an entry: the driver
    // must keep going (the divergence is the trace validator's business), so only catalogue names are drawn
    let hbe: Vec<String> = pre["hashByEpoch"].as_array().unwrap().iter().filter_map(|x| x.as_str()).filter(|x| names.iter().any(|n| n == x)).map(|x| x.to_string()).collect();
    let set = if !hbe.is_empty() && rng.gen_bool(prefer_latest) {
        hbe[hbe.len() - 1].clone()
    } else if !hbe.is_empty() && rng.gen_bool(0.8) {
        hbe[rng.gen_range(0..hbe.len())].clone()
    } else {
        names[rng.gen_range(0..names.len())].clone()
    };
    let n = inst["Sets"][&set]["keys"].as_array().unwrap().len();
    json!({"set": set, "sigs": rand_sigs(rng, n)})
}

fn rand_auth(rng: &mut ChaCha8Rng, holder: &str, p_holder: f64) -> Vec<String> {
    let mut v = vec![];
    if rng.gen_bool(p_holder) {
        v.push(holder.to_string());
    }
    for o in ["owner0", "op0", "mallory", "alice"] {
        if o != holder && rng.gen_bool(0.12) {
            v.push(o.to_string());
        }
    }
    v.sort();
    v.dedup();
    v
}

fn rand_act(rng: &mut ChaCha8Rng, inst: &J, pre: &J) -> J {
    let set_names: Vec<String> = inst["Sets"].as_object().unwrap().keys().cloned().collect();
    let msg_names: Vec<String> = inst["Msgs"].as_object().unwrap().keys().cloned().collect();
    let key_names: Vec<String> = inst["Keys"].as_object().unwrap().keys().cloned().collect();
    let x = rng.gen_range(0..100);
    if x < 28 {
        let n = [0usize, 1, 1, 1, 2, 2, 3][rng.gen_range(0..7)];
        let msgs: Vec<String> = (0..n).map(|_| msg_names[rng.gen_range(0..msg_names.len())].clone()).collect();
        json!({"name": "ApproveMessages", "msgs": msgs, "proof": rand_proof(rng, inst, pre, 0.5), "auth": []})
    } else if x < 38 {
        let data = if rng.gen_bool(0.5) {
            let n = rng.gen_range(0..3);
            let msgs: Vec<String> = (0..n).map(|_| msg_names[rng.gen_range(0..msg_names.len())].clone()).collect();
            json!({"kind": "approve", "msgs": msgs})
        } else {
            json!({"kind": "rotate", "new": set_names[rng.gen_range(0..set_names.len())]})
        };
        json!({"name": "ValidateProof", "data": data, "proof": rand_proof(rng, inst, pre, 0.4), "auth": []})
    } else if x < 60 {
        let installed: Vec<&str> = pre["hashByEpoch"].as_array().unwrap().iter().filter_map(|x| x.as_str()).collect();
        let fresh_valid: Vec<&String> = set_names.iter().filter(|n| wellformed(&inst["Sets"][n.as_str()]) && !installed.contains(&n.as_str())).collect();
        let new = if !fresh_valid.is_empty() && rng.gen_bool(0.7) {
            fresh_valid[rng.gen_range(0..fresh_valid.len())].clone()
        } else {
            set_names[rng.gen_range(0..set_names.len())].clone()
        };
        let mut proof = rand_proof(rng, inst, pre, 0.7);
        if rng.gen_bool(0.6) {
            let n = proof["sigs"].as_array().unwrap().len();
            proof["sigs"] = json!(vec!["Valid"; n]);
        }
        let bypass = rng.gen_bool(0.4);
        let auth = if bypass { rand_auth(rng, pre["operator"].as_str().unwrap(), 0.75) } else { rand_auth(rng, "nobody", 0.0) };
        json!({"name": "RotateSigners", "new": new, "proof": proof, "bypass": bypass, "auth": auth})
    } else if x < 80 {
        let key = key_names[rng.gen_range(0..key_names.len())].clone();
        let cur = pre["status"][&key].as_str().unwrap_or("none").to_string();
        let (mut caller, mut src, mut ph) = (
            ["app1", "app2"][rng.gen_range(0..2)].to_string(),
            ["sA", "sB"][rng.gen_range(0..2)].to_string(),
            ["p1", "p2", "p3"][rng.gen_range(0..3)].to_string(),
        );
        if let Some(m) = inst["Msgs"].get(&cur) {
            if rng.gen_bool(0.75) {
                caller = m["dest"].as_str().unwrap().to_string();
                src = m["src"].as_str().unwrap().to_string();
                ph = m["ph"].as_str().unwrap().to_string();
                // single deviations
                match rng.gen_range(0..8) {
                    0 => caller = if caller == "app1" { "app2".into() } else { "app1".into() },
                    1 => src = if src == "sA" { "sB".into() } else { "sA".into() },
                    2 => ph = if ph == "p1" { "p2".into() } else { "p1".into() },
                    _ => {}
                }
            }
        }
        let auth = rand_auth(rng, &caller, 0.85);
        json!({"name": "ValidateMessage", "caller": caller, "key": key, "src": src, "ph": ph, "via": "direct", "auth": auth})
    } else if x < 85 {
        let auth = rand_auth(rng, "alice", 0.7);
        json!({"name": "CallContract", "caller": "alice", "via": "direct", "through": "none", "auth": auth,
               "chain": "ethereum", "addr": "0xabc", "payload": (["p1", "p2", "p3"][rng.gen_range(0..3)])})
    } else if x < 94 {
        json!({"name": "Tick", "dt": rng.gen_range(0..7)})
    } else {
        let new = ["owner0", "op0", "alice", "mallory"][rng.gen_range(0..4)];
        if rng.gen_bool(0.5) {
            json!({"name": "TransferOwnership", "new": new, "auth": rand_auth(rng, pre["owner"].as_str().unwrap(), 0.6)})
        } else {
            json!({"name": "TransferOperatorship", "new": new, "auth": rand_auth(rng, pre["operator"].as_str().unwrap(), 0.6)})
        }
    }
}

pub fn drive(seed: u64, runs: usize, steps: usize, out: &str) {
    let mut rng = ChaCha8Rng::seed_from_u64(seed);
    let inst = gen_inst(&mut rng);
    let valid: Vec<String> = inst["Sets"].as_object().unwrap().iter().filter(|(_, s)| wellformed(s)).map(|(n, _)| n.clone()).collect();
    // one thread per run, each with its own generator derived from (seed, run); output in run order
    let mut handles = vec![];
    for run in 0..runs {
        let inst = inst.clone();
        let valid = valid.clone();
        handles.push(
            std::thread::Builder::new()
                .stack_size(64 << 20)
                .spawn(move || {
                    let mut rng = ChaCha8Rng::seed_from_u64(seed.wrapping_mul(1_000_003).wrapping_add(run as u64));
                    let mut buf: Vec<String> = vec![];
                    let n0 = rng.gen_range(1..=2.min(valid.len()));
                    let mut init_sets = valid.clone();
                    init_sets.shuffle(&mut rng);
                    init_sets.truncate(n0);
                    let init = json!({"deployed": true, "hashByEpoch": init_sets, "owner": "owner0", "operator": "op0", "now": 0});
                    let mut b = GatewayBinder::new(&inst, &init);
                    let mut pre = b.project();
                    pre["now"] = json!(b.now);
                    buf.push(json!({"reset": true, "pre": pre}).to_string());
                    for _ in 0..steps {
                        let act = rand_act(&mut rng, &inst, &pre);
                        let obs = b.exec(&act);
                        let mut post = b.project();
                        post["now"] = json!(b.now);
                        buf.push(json!({"reset": false, "pre": pre, "act": act, "obs": {"ok": obs.ok, "ret": obs.ret, "ev": obs.ev}, "post": post}).to_string());
                        pre = post;
                    }
                    buf
                })
                .unwrap(),
        );
    }
    let mut f = std::io::BufWriter::new(std::fs::File::create(out).unwrap());
    writeln!(f, "{}", inst).unwrap();
    for h in handles {
        for l in h.join().unwrap() {
            writeln!(f, "{}", l).unwrap();
        }
    }
    f.flush().unwrap();
}
