//! Binding of spec/Fees.tla: contracts/axelar-operators deployed as the collector of contracts/axelar-gas-service
//! (one world, real tokens).  Gas-service actions go to the gas binding unchanged; a forwarded call is
//! `operators.execute(op, gas_service, fn, args)`.
#![allow(dead_code)]

use crate::common::*;
use crate::gas::{wire::Token, GasBinder};
use serde_json::{json, Value as J};
use soroban_sdk::vec as svec;
use soroban_sdk::{Address, IntoVal, String as SStr, Symbol, TryFromVal, Val, Vec as SVec};

pub struct FeesBinder {
    pub gas: GasBinder,
    pub ops: Address,
    pub op_accts: Vec<String>,
}

const GAS_ACTIONS: [&str; 5] = ["PayGas", "AddGas", "CollectFees", "Refund", "TransferOwnership"];

impl FeesBinder {
    pub fn new(inst: &J, init: &J) -> FeesBinder {
        let mut cx = Ctx::new_aging(5);
        let env = cx.env.clone();
        let oowner = cx.addr(&jstr(init, "opsOwner"));
        let ops = env.register(axelar_operators::AxelarOperators, (oowner,));
        cx.bind("ops", &ops);
        assert_eq!(jstr(init, "collector"), "ops");
        let gas = GasBinder::new_in(cx, inst, init);
        let mut op_accts = jstrs(inst, "OpAccts");
        op_accts.sort();
        FeesBinder { gas, ops, op_accts }
    }

    fn ops_events(&mut self) -> Vec<J> {
        let env = self.gas.cx.env.clone();
        let raw = self.gas.cx.take_events();
        let mut ev = vec![];
        for (c, t, d) in raw.iter() {
            if c == &self.ops {
                if let Some(n) = t.get(0).and_then(|v| sym_name(&env, &v)) {
                    let who = |i: u32| t.get(i).and_then(|v| Address::try_from_val(&env, &v).ok()).map(|a| self.gas.cx.name_of(&a)).unwrap_or("?".into());
                    match n.as_str() {
                        "operator_added" | "operator_removed" => ev.push(json!({"k": n, "who": who(1)})),
                        "ownership_transferred" => ev.push(json!({"k": n, "prev": who(1), "new": who(2)})),
                        _ => ev.push(json!({"k": n})),
                    }
                }
            } else if let Some(e) = self.gas.decode_event(c, t, d) {
                ev.push(e);
            }
        }
        ev
    }

    pub fn exec(&mut self, act: &J) -> Obs {
        let name = jstr(act, "name");
        if GAS_ACTIONS.contains(&name.as_str()) {
            return self.gas.exec(act);
        }
        self.gas.cx.set_argdrop(act);
        let env = self.gas.cx.env.clone();
        let ops = self.ops.clone();
        let gs = self.gas.gs.clone();
        let auth_names: Vec<String> = jstrs(act, "auth");
        let (func, args, inner): (&'static str, SVec<Val>, Option<(String, SVec<Val>)>) = match name.as_str() {
            "AddOperator" | "RemoveOperator" => {
                let a = self.gas.cx.addr(act["acct"].as_str().unwrap());
                (if name == "AddOperator" { "add_operator" } else { "remove_operator" }, svec![&env, a.into_val(&env)], None)
            }
            "OpsTransferOwnership" => {
                let n = self.gas.cx.addr(act["new"].as_str().unwrap());
                ("transfer_ownership", svec![&env, n.into_val(&env)], None)
            }
            "OpExecute" => {
                let op = self.gas.cx.addr(act["op"].as_str().unwrap());
                let f = jstr(act, "fn");
                let inner: SVec<Val> = match f.as_str() {
                    "collect_fees" | "refund" => {
                        let taddr = self.gas.tokens[act["token"].as_str().unwrap()].clone();
                        let token = Token { address: taddr, amount: act["amt"].as_i64().unwrap() as i128 };
                        let receiver = self.gas.cx.addr(act["receiver"].as_str().unwrap());
                        if f == "collect_fees" {
                            svec![&env, receiver.into_val(&env), token.into_val(&env)]
                        } else {
                            svec![&env, SStr::from_str(&env, "msg-1").into_val(&env), receiver.into_val(&env), token.into_val(&env)]
                        }
                    }
                    "transfer_ownership" => {
                        let n = self.gas.cx.addr(act["new"].as_str().unwrap());
                        svec![&env, n.into_val(&env)]
                    }
                    other => panic!("Fees: unknown forwarded function {other}"),
                };
                (
                    "execute",
                    svec![&env, op.into_val(&env), gs.into_val(&env), Symbol::new(&env, &f).into_val(&env), inner.clone().into_val(&env)],
                    Some((f, inner)),
                )
            }
            other => panic!("Fees: unknown action {other}"),
        };
        let mut auths: Vec<(Address, Inv)> = auth_names.iter().map(|n| (self.gas.cx.addr(n), Inv::new(&ops, func, args.clone()))).collect();
        // `inner_auth`: principals whose entry is rooted at the gas service's entry point
        if let (Some((f, inner)), Some(ia)) = (inner.as_ref(), act.get("inner_auth").and_then(|x| x.as_array())) {
            for n in ia {
                auths.push((self.gas.cx.addr(n.as_str().unwrap()), Inv::new(&gs, f, inner.clone())));
            }
        }
        let r = self.gas.cx.call_auth(&auths, &ops, func, args);
        let ev = self.ops_events();
        match r {
            Ok(_) => Obs { ok: true, ret: unit(), ev, err: String::new() },
            Err(e) => Obs { ok: false, ret: json!("none"), ev, err: e },
        }
    }

    pub fn project(&mut self) -> J {
        let env = self.gas.cx.env.clone();
        let ops = self.ops.clone();
        let mut out = self.gas.project();
        let mut m = serde_json::Map::new();
        for n in self.op_accts.clone() {
            let a = self.gas.cx.addr(&n);
            let b: Option<bool> = self.gas.cx.query(&ops, "is_operator", svec![&env, a.into_val(&env)]);
            m.insert(n, json!(b.unwrap_or(false)));
        }
        let owner: Option<Address> = self.gas.cx.query(&ops, "owner", SVec::new(&env));
        out["operators"] = J::Object(m);
        out["opsOwner"] = json!(owner.map(|a| self.gas.cx.name_of(&a)).unwrap_or("none".into()));
        out
    }
}
