//! Binding of spec/Upgrade.tla: the derived Upgradable/Migratable entry points of the five production
//! contracts (registered natively from /repo's source), the repository's dummy target, the Upgrader.
//! Upgrade destinations are the repository's pinned wasm fixtures.
#![allow(dead_code)]

use crate::common::*;
use crate::gateway::wire::{WeightedSigner, WeightedSigners};
use serde_json::{json, Value as J};
use soroban_sdk::vec as svec;
use soroban_sdk::{contracttype, Address, BytesN, IntoVal, String as SStr, TryFromVal, Val, Vec as SVec};
use soroban_token_sdk::metadata::TokenMetadata;

#[path = "/repo/contracts/upgrader/tests/utils/dummy_contract.rs"]
#[allow(dead_code)]
mod dummy;

const W_TRIV: &[u8] = include_bytes!("/repo/packages/axelar-soroban-std/src/interfaces/testdata/contract_trivial_migration.wasm");
const W_DUMMY: &[u8] = include_bytes!("/repo/contracts/upgrader/tests/testdata/dummy.wasm");
/// Harness fixture "Fnover": a minimal hand-assembled Soroban module (protocol 22) whose only export is
/// `migrate(x) -> void` - new code that has a migration but NO `version` entry point:
///   (module (type (func (param i64) (result i64))) (func (type 0) i64.const 2) (export "migrate" (func 0))
///           (@custom "contractenvmetav0" "\00\00\00\00\00\00\00\16\00\00\00\00"))
const W_NOVER: &[u8] = &[
    0x00, 0x61, 0x73, 0x6d, 0x01, 0x00, 0x00, 0x00, 0x01, 0x06, 0x01, 0x60, 0x01, 0x7e, 0x01, 0x7e, 0x03, 0x02, 0x01, 0x00, 0x07, 0x0b,
    0x01, 0x07, b'm', b'i', b'g', b'r', b'a', b't', b'e', 0x00, 0x00, 0x0a, 0x06, 0x01, 0x04, 0x00, 0x42, 0x02, 0x0b, 0x00, 0x1e, 0x11,
    b'c', b'o', b'n', b't', b'r', b'a', b'c', b't', b'e', b'n', b'v', b'm', b'e', b't', b'a', b'v', b'0', 0x00, 0x00, 0x00, 0x00, 0x00,
    0x00, 0x00, 0x16, 0x00, 0x00, 0x00, 0x00,
];

#[contracttype]
pub enum DataKey {
    Data,
}

pub struct UpgradeBinder {
    pub cx: Ctx,
    pub target: Address,
    pub upgrader: Address,
    pub kind: String,
    pub h_triv: BytesN<32>,
    pub h_dummy: BytesN<32>,
}

impl UpgradeBinder {
    pub fn new(inst: &J, init: &J) -> UpgradeBinder {
        let mut cx = Ctx::new_aging(5);
        let env = cx.env.clone();
        let kind = jstr(inst, "Target");
        let owner = cx.addr(&jstr(init, "owner"));
        let other = cx.addr("someone");
        let target = match kind.as_str() {
            "gateway" => {
                let mut signers = SVec::new(&env);
                signers.push_back(WeightedSigner { signer: BytesN::from_array(&env, &[3u8; 32]), weight: 1 });
                let ws = WeightedSigners { signers, threshold: 1, nonce: BytesN::from_array(&env, &[0u8; 32]) };
                env.register(
                    axelar_gateway::AxelarGateway,
                    (owner.clone(), other.clone(), BytesN::<32>::from_array(&env, &[1u8; 32]), 0u64, 1u64, svec![&env, ws]),
                )
            }
            "gas" => env.register(axelar_gas_service::AxelarGasService, (owner.clone(), other.clone())),
            "operators" => env.register(axelar_operators::AxelarOperators, (owner.clone(),)),
            "its" => env.register(
                interchain_token_service::InterchainTokenService,
                (owner.clone(), other.clone(), other.clone(), SStr::from_str(&env, "hub"), SStr::from_str(&env, "stellar"), BytesN::<32>::from_array(&env, &[2u8; 32])),
            ),
            "token" => {
                let meta = TokenMetadata { decimal: 7, name: SStr::from_str(&env, "T"), symbol: SStr::from_str(&env, "T") };
                env.register(interchain_token::InterchainToken, (owner.clone(), None::<Address>, BytesN::<32>::from_array(&env, &[5u8; 32]), meta))
            }
            "dummy" => env.register(dummy::DummyContract, (owner.clone(),)),
            k => panic!("target kind {k}"),
        };
        cx.bind("target", &target);
        let upgrader = env.register(upgrader::Upgrader, ());
        let h_triv = env.deployer().upload_contract_wasm(W_TRIV);
        let h_dummy = env.deployer().upload_contract_wasm(W_DUMMY);
        cx.take_events();
        UpgradeBinder { cx, target, upgrader, kind, h_triv, h_dummy }
    }

    fn hash(&self, f: &str) -> BytesN<32> {
        match f {
            "Ftriv" => self.h_triv.clone(),
            "Fdummy" => self.h_dummy.clone(),
            "Fnover" => self.cx.env.deployer().upload_contract_wasm(W_NOVER),
            x => panic!("fixture {x}"),
        }
    }
    /// the argument list handed to `migrate`: "unit" = [()], "str" = [String], "empty" = [], "two" = [(), ()]
    fn data_args(&self, d: &str) -> SVec<Val> {
        let env = &self.cx.env;
        match d {
            "empty" => SVec::new(env),
            "two" => svec![env, Val::VOID.into(), Val::VOID.into()],
            x => svec![env, self.data_val(x)],
        }
    }

    fn data_val(&self, d: &str) -> Val {
        match d {
            "unit" => Val::VOID.into(),
            "str" => SStr::from_str(&self.cx.env, "migration successful").into_val(&self.cx.env),
            x => panic!("data kind {x}"),
        }
    }
    fn names(act: &J, k: &str) -> Vec<String> {
        act.get(k).and_then(|x| x.as_array()).map(|a| a.iter().map(|n| n.as_str().unwrap().to_string()).collect()).unwrap_or_default()
    }

    pub fn exec(&mut self, act: &J) -> Obs {
        self.cx.set_argdrop(act);
        let env = self.cx.env.clone();
        let name = jstr(act, "name");
        let target = self.target.clone();
        let r = match name.as_str() {
            "Upgrade" => {
                let args: SVec<Val> = svec![&env, self.hash(act["new"].as_str().unwrap()).into_val(&env)];
                let auths: Vec<(Address, Inv)> = Self::names(act, "auth").iter().map(|n| (self.cx.addr(n), Inv::new(&target, "upgrade", args.clone()))).collect();
                self.cx.call_auth(&auths, &target, "upgrade", args)
            }
            "Migrate" => {
                let args: SVec<Val> = self.data_args(act["data"].as_str().unwrap());
                let auths: Vec<(Address, Inv)> = Self::names(act, "auth").iter().map(|n| (self.cx.addr(n), Inv::new(&target, "migrate", args.clone()))).collect();
                self.cx.call_auth(&auths, &target, "migrate", args)
            }
            "HookOpenWindow" => {
                env.as_contract(&target, || axelar_soroban_std::interfaces::verif_open_migration_window(&env));
                Ok(Val::VOID.into())
            }
            "TransferOwnership" => {
                let n = self.cx.addr(act["new"].as_str().unwrap());
                let args: SVec<Val> = svec![&env, n.into_val(&env)];
                let auths: Vec<(Address, Inv)> = Self::names(act, "auth").iter().map(|n| (self.cx.addr(n), Inv::new(&target, "transfer_ownership", args.clone()))).collect();
                self.cx.call_auth(&auths, &target, "transfer_ownership", args)
            }
            "UpgraderUpgrade" => {
                let h = self.hash(act["new"].as_str().unwrap());
                let md: SVec<Val> = self.data_args(act["data"].as_str().unwrap());
                let args: SVec<Val> = svec![&env, target.into_val(&env), SStr::from_str(&env, act["version"].as_str().unwrap()).into_val(&env), h.into_val(&env), md.into_val(&env)];
                let up_args: SVec<Val> = svec![&env, h.into_val(&env)];
                let mut auths: Vec<(Address, Inv)> = vec![];
                for n in Self::names(act, "authUp") {
                    auths.push((self.cx.addr(&n), Inv::new(&target, "upgrade", up_args.clone())));
                }
                for n in Self::names(act, "authMig") {
                    auths.push((self.cx.addr(&n), Inv::new(&target, "migrate", md.clone())));
                }
                let up = self.upgrader.clone();
                self.cx.call_auth(&auths, &up, "upgrade", args)
            }
            other => panic!("Upgrade: unknown action {other}"),
        };
        let raw = self.cx.take_events();
        let mut ev = vec![];
        for (c, t, d) in raw.iter() {
            if c != &self.target {
                continue;
            }
            if let Some(n) = t.get(0).and_then(|v| sym_name(&env, &v)) {
                match n.as_str() {
                    "upgraded" => {
                        let v: Option<(SStr,)> = <(SStr,)>::try_from_val(&env, d).ok();
                        ev.push(json!({"k": "upgraded", "version": v.map(|x| sstr_to_string(&x.0)).unwrap_or("?".into())}));
                    }
                    "ownership_transferred" => {
                        let who = |i: u32| t.get(i).and_then(|v| Address::try_from_val(&env, &v).ok()).map(|a| self.cx.name_of(&a)).unwrap_or("?".into());
                        ev.push(json!({"k": n, "prev": who(1), "new": who(2)}));
                    }
                    _ => ev.push(json!({"k": n})),
                }
            }
        }
        match r {
            Ok(_) => Obs { ok: true, ret: unit(), ev, err: String::new() },
            Err(e) => Obs { ok: false, ret: json!("none"), ev, err: e },
        }
    }

    pub fn project(&mut self) -> J {
        let env = self.cx.env.clone();
        let t = self.target.clone();
        let version: Option<SStr> = self.cx.query(&t, "version", SVec::new(&env));
        let owner: Option<Address> = self.cx.query(&t, "owner", SVec::new(&env));
        // migration data: the trivial fixture exposes a query; the dummy fixture only stores it
        let md: Option<Option<SStr>> = self.cx.query(&t, "migration_data", SVec::new(&env));
        let stored: Option<SStr> = env.as_contract(&t, || env.storage().instance().get(&DataKey::Data));
        let data = match (md.flatten().or(stored)).map(|s| sstr_to_string(&s)) {
            None => "none".to_string(),
            Some(s) if s == "migrated" => "migrated".into(),
            Some(s) if s == "migration successful" => "str".into(),
            Some(s) => format!("other:{s}"),
        };
        // the holder of the contract's OTHER role (gateway operator, gas collector), while the native code runs:
        // upgrade and migration must leave it alone
        let aux: String = match self.kind.as_str() {
            "gateway" => self.cx.query::<Address>(&t, "operator", SVec::new(&env)).map(|a| self.cx.name_of(&a)).unwrap_or("n/a".into()),
            "gas" => self.cx.query::<Address>(&t, "gas_collector", SVec::new(&env)).map(|a| self.cx.name_of(&a)).unwrap_or("n/a".into()),
            _ => "n/a".into(),
        };
        json!({"aux": aux, "version": version.map(|s| sstr_to_string(&s)).unwrap_or("none".into()), "data": data,
               "owner": owner.map(|a| self.cx.name_of(&a)).unwrap_or("none".into())})
    }
}
