//! conform: conformance harness between the TLA+ specifications in /verif/spec and the contracts
//! in /repo.   conform replay <module> <walks.ndjson> <out.ndjson> [threads]
//!             conform drive  <module> <seed> <steps> <out.ndjson> [extra-json]
mod abi;
mod binder;
mod bridge;
mod common;
mod drive_abi;
mod drive_gas;
mod drive_gateway;
mod drive_its;
mod drive_token;
mod fees;
mod gas;
mod gateway;
mod its;
mod operators;
mod token;
mod upgrade;
mod probe;
mod selfcheck;
mod system;

use binder::make_binder;
use serde_json::{json, Value as J};
use std::io::{BufRead, Write};
use std::sync::{Arc, Mutex};

fn multiset_eq(a: &[J], b: &[J]) -> bool {
    if a.len() != b.len() {
        return false;
    }
    let mut x: Vec<String> = a.iter().map(|v| canon(v)).collect();
    let mut y: Vec<String> = b.iter().map(|v| canon(v)).collect();
    x.sort();
    y.sort();
    x == y
}

/// canonical string of a JSON value (object keys sorted: serde_json's Map is a BTreeMap by default)
fn canon(v: &J) -> String {
    serde_json::to_string(v).unwrap()
}

/// fields of `proj` that differ from the same-named fields of `spec` (one level of nesting resolved)
thread_local! {
    /// self-reported constant fields (id table check, wiring, metadata) that already differed in the initial state of
    /// the walk being replayed: reported once (`init_soft`), then masked so that the walk can go on
    static MASKED: std::cell::RefCell<Vec<String>> = std::cell::RefCell::new(vec![]);
}

fn state_diffs(spec: &J, proj: &J) -> Vec<J> {
    let mut out = vec![];
    let masked: Vec<String> = MASKED.with(|m| m.borrow().clone());
    if let Some(po) = proj.as_object() {
        for (k, pv) in po {
            if masked.contains(k) {
                continue;
            }
            let sv = spec.get(k).cloned().unwrap_or(J::Null);
            if sv.is_null() {
                continue; // not modelled by this specification instance
            }
            if &sv == pv {
                continue;
            }
            match (sv.as_object(), pv.as_object()) {
                (Some(so), Some(pp)) => {
                    for (kk, pvv) in pp {
                        let svv = so.get(kk).cloned().unwrap_or(J::Null);
                        if &svv != pvv {
                            out.push(json!({"field": format!("{k}.{kk}"), "spec": svv, "code": pvv}));
                        }
                    }
                    for kk in so.keys() {
                        if !pp.contains_key(kk) {
                            out.push(json!({"field": format!("{k}.{kk}"), "spec": so[kk], "code": J::Null}));
                        }
                    }
                }
                _ => out.push(json!({"field": k, "spec": sv, "code": pv})),
            }
        }
    }
    out
}

fn compare(inst: &J, step: &J, pre: &J, obs: &common::Obs, proj: &J) -> Option<J> {
    let exp = &step["exp"];
    let exp_ok = exp["ok"].as_bool().unwrap();
    if exp_ok != obs.ok {
        // a call the specification refuses must change nothing: what the accepted call changed is part of the finding
        let diffs = if obs.ok { state_diffs(pre, proj) } else { vec![] };
        return Some(json!({"kind": "outcome", "spec_ok": exp_ok, "code_ok": obs.ok, "err": obs.err, "diffs": diffs}));
    }
    if exp_ok {
        if exp["ret"] != json!("unit") && exp["ret"] != obs.ret {
            return Some(json!({"kind": "ret", "spec": exp["ret"], "code": obs.ret, "diffs": state_diffs(&step["post"], proj)}));
        }
        let sev: Vec<J> = exp["ev"].as_array().cloned().unwrap_or_default();
        // only event kinds the specification speaks about are compared
        let kinds: Vec<String> = inst["evkinds"].as_array().map(|a| a.iter().map(|x| x.as_str().unwrap().to_string()).collect()).unwrap_or_default();
        let cev: Vec<J> = obs.ev.iter().filter(|e| kinds.is_empty() || kinds.contains(&e["k"].as_str().unwrap_or("").to_string())).cloned().collect();
        if !multiset_eq(&sev, &cev) {
            return Some(json!({"kind": "events", "spec": sev, "code": cev, "diffs": state_diffs(&step["post"], proj)}));
        }
        let d = state_diffs(&step["post"], proj);
        if !d.is_empty() {
            return Some(json!({"kind": "state", "diffs": d}));
        }
    } else {
        let d = state_diffs(pre, proj);
        if !d.is_empty() {
            return Some(json!({"kind": "frame", "diffs": d}));
        }
        if !obs.ev.is_empty() {
            return Some(json!({"kind": "frame_events", "code": obs.ev}));
        }
    }
    None
}

fn replay_walk(module: &str, inst: &J, walk: &J) -> J {
    let steps = walk["steps"].as_array().unwrap();
    common::LONG_PAUSES.with(|l| l.set(walk.get("aging").and_then(|x| x.as_str()) != Some("A")));
    let mut b = make_binder(module, inst, &walk["init"]);
    let mut pre = walk["init"].clone();
    // the initial projection must match the initial state
    MASKED.with(|m| m.borrow_mut().clear());
    let p0 = b.project();
    let d0 = state_diffs(&pre, &p0);
    let mut init_soft: Option<Vec<J>> = None;
    if !d0.is_empty() {
        let soft: Vec<String> = inst["init_soft"].as_array().map(|a| a.iter().map(|x| x.as_str().unwrap().to_string()).collect()).unwrap_or_default();
        let fields: Vec<String> = d0.iter().map(|d| d["field"].as_str().unwrap_or("").split('.').next().unwrap().to_string()).collect();
        if !soft.is_empty() && fields.iter().all(|f| soft.contains(f)) {
            MASKED.with(|m| *m.borrow_mut() = fields.clone());
            init_soft = Some(d0);
        } else {
            return json!({"walk": walk["id"], "steps_run": 0, "divergence": {"step": -1, "kind": "init", "diffs": d0}});
        }
    }
    for (i, step) in steps.iter().enumerate() {
        let obs = b.exec(&step["act"]);
        let proj = b.project();
        if let Some(mut div) = compare(inst, step, &pre, &obs, &proj) {
            // a recorded deviation: the step also carries what the design says; matching THAT means the
            // finding no longer reproduces (the walk still ends here: later states assume the deviation)
            if let Some(alt) = step.get("alt") {
                let mut s2 = step.clone();
                s2["exp"] = alt["exp"].clone();
                s2["post"] = alt["post"].clone();
                if compare(inst, &s2, &pre, &obs, &proj).is_none() {
                    div = json!({"kind": "intended", "dev": step["exp"]["dev"]});
                }
            }
            div["step"] = json!(i);
            div["act"] = step["act"].clone();
            div["exp"] = step["exp"].clone();
            // control: re-run the prefix in a fresh world, then the control sequence
            // a "control" is a list of alternative action sequences; it passes if the code accepts any of them
            if let Some(alts) = step.get("control").and_then(|c| c.as_array()) {
                let alts: Vec<Vec<J>> = if alts.first().map(|x| x.is_array()).unwrap_or(false) {
                    alts.iter().map(|x| x.as_array().unwrap().clone()).collect()
                } else {
                    vec![alts.clone()]
                };
                let mut any = false;
                for ctrl in alts.iter() {
                    let mut c = make_binder(module, inst, &walk["init"]);
                    for s in steps.iter().take(i) {
                        c.exec(&s["act"]);
                    }
                    let mut ok = true;
                    for a in ctrl {
                        let o = c.exec(a);
                        if a["name"] != json!("Tick") && a["name"] != json!("AdvanceLedger") {
                            ok = o.ok;
                        }
                    }
                    any = any || ok;
                }
                div["control_ok"] = json!(any);
            }
            return json!({"walk": walk["id"], "steps_run": i + 1, "divergence": div, "init_soft": init_soft});
        }
        pre = step["post"].clone();
    }
    json!({"walk": walk["id"], "steps_run": steps.len(), "divergence": J::Null, "init_soft": init_soft})
}

fn cmd_replay(args: &[String]) {
    let module = args[0].clone();
    let input = std::fs::File::open(&args[1]).expect("walks file");
    let threads: usize = args.get(3).and_then(|s| s.parse().ok()).unwrap_or(8);
    let mut lines = std::io::BufReader::new(input).lines();
    let inst: J = serde_json::from_str(&lines.next().expect("inst line").unwrap()).unwrap();
    let walks: Vec<J> = lines.map(|l| serde_json::from_str(&l.unwrap()).unwrap()).collect();
    let queue = Arc::new(Mutex::new(walks.into_iter().collect::<std::collections::VecDeque<_>>()));
    let out = Arc::new(Mutex::new(std::io::BufWriter::new(std::fs::File::create(&args[2]).unwrap())));
    let mut hs = vec![];
    for _ in 0..threads {
        let q = queue.clone();
        let o = out.clone();
        let inst = inst.clone();
        let module = module.clone();
        hs.push(
            std::thread::Builder::new()
                .stack_size(256 << 20)
                .spawn(move || loop {
                    let w = { q.lock().unwrap().pop_front() };
                    let w = match w {
                        Some(w) => w,
                        None => break,
                    };
                    let r = match std::panic::catch_unwind(std::panic::AssertUnwindSafe(|| replay_walk(&module, &inst, &w))) {
                        Ok(r) => r,
                        Err(e) => {
                            let msg = e.downcast_ref::<String>().cloned().or_else(|| e.downcast_ref::<&str>().map(|s| s.to_string())).unwrap_or("panic".into());
                            json!({"walk": w["id"], "steps_run": 0, "harness_error": msg})
                        }
                    };
                    let mut g = o.lock().unwrap();
                    writeln!(g, "{}", r).unwrap();
                })
                .unwrap(),
        );
    }
    for h in hs {
        h.join().unwrap();
    }
    out.lock().unwrap().flush().unwrap();
}

fn main() {
    // contract panics are data, not noise
    std::panic::set_hook(Box::new(|_| {}));
    let args: Vec<String> = std::env::args().skip(1).collect();
    if args.is_empty() {
        eprintln!("usage: conform replay|drive ...");
        std::process::exit(2);
    }
    match args[0].as_str() {
        "replay" => cmd_replay(&args[1..]),
        "drive" => binder::cmd_drive(&args[1..]),
        "selfcheck" => selfcheck::run(),
        _ => {
            eprintln!("unknown command");
            std::process::exit(2);
        }
    }
}
