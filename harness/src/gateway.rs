//! Binding of spec/Gateway.tla to contracts/axelar-gateway (abstract <-> concrete, executor, projection).
//! Everything crosses the contract boundary at wire level (raw invocation with harness-side
//! mirror types), digests and hashes are computed with the harness's own recipe (sha3 Keccak).
#![allow(dead_code)]

use crate::common::*;
use crate::probe::Probe;
use ed25519_dalek::{Signer, SigningKey};
use rand::{RngCore, SeedableRng};
use serde_json::{json, Value as J};
use soroban_sdk::xdr::ToXdr;
use soroban_sdk::vec as svec;
use soroban_sdk::{ Address, Bytes, BytesN, Env, IntoVal, String as SStr, TryFromVal, Val, Vec as SVec};
use std::collections::BTreeMap;

pub mod wire {
    use soroban_sdk::{contracttype, Address, BytesN, String, Vec};
    #[contracttype]
    #[derive(Clone, Debug, PartialEq, Eq)]
    pub struct WeightedSigner {
        pub signer: BytesN<32>,
        pub weight: u128,
    }
    #[contracttype]
    #[derive(Clone, Debug, PartialEq, Eq)]
    pub struct WeightedSigners {
        pub signers: Vec<WeightedSigner>,
        pub threshold: u128,
        pub nonce: BytesN<32>,
    }
    #[contracttype]
    #[derive(Clone, Debug, PartialEq, Eq)]
    pub enum ProofSignature {
        Signed(BytesN<64>),
        Unsigned,
    }
    #[contracttype]
    #[derive(Clone, Debug, PartialEq, Eq)]
    pub struct ProofSigner {
        pub signer: WeightedSigner,
        pub signature: ProofSignature,
    }
    #[contracttype]
    #[derive(Clone, Debug, PartialEq, Eq)]
    pub struct Proof {
        pub signers: Vec<ProofSigner>,
        pub threshold: u128,
        pub nonce: BytesN<32>,
    }
    #[contracttype]
    #[derive(Clone, Debug, Eq, PartialEq)]
    pub enum CommandType {
        ApproveMessages,
        RotateSigners,
    }
    #[contracttype]
    #[derive(Clone, Debug, Eq, PartialEq)]
    pub struct Message {
        pub source_chain: String,
        pub message_id: String,
        pub source_address: String,
        pub contract_address: Address,
        pub payload_hash: BytesN<32>,
    }


}
pub use wire::*;

pub const DOMAIN: [u8; 32] = [0xd0; 32];
pub const OTHER_DOMAIN: [u8; 32] = [0xd1; 32];
pub const NKEYS: usize = 8;

pub fn q_of(tag: &str) -> u128 {
    match tag {
        "1" => 1,
        "Q128_15" => u128::MAX / 15,
        "Q128_255" => u128::MAX / 255,
        "Q128_3" => u128::MAX / 3,
        other => panic!("unknown scale {other}"),
    }
}

pub struct KeyRing {
    pub sorted: Vec<SigningKey>, // rank r (1-based) -> sorted[r-1]
    pub spare: SigningKey,
}

impl KeyRing {
    pub fn new() -> KeyRing {
        let mut rng = rand_chacha::ChaCha8Rng::seed_from_u64(0xA11CE);
        let mut ks: Vec<SigningKey> = (0..NKEYS + 1)
            .map(|_| {
                let mut b = [0u8; 32];
                rng.fill_bytes(&mut b);
                SigningKey::from_bytes(&b)
            })
            .collect();
        let spare = ks.pop().unwrap();
        ks.sort_by_key(|k| k.verifying_key().to_bytes());
        KeyRing { sorted: ks, spare }
    }
    pub fn pk(&self, rank: usize) -> [u8; 32] {
        if rank == 0 {
            [0u8; 32]
        } else {
            self.sorted[rank - 1].verifying_key().to_bytes()
        }
    }
}

pub struct GatewayBinder {
    pub cx: Ctx,
    pub inst: J,
    pub gw: Option<Address>,
    pub ring: KeyRing,
    pub q: u128,
    pub qt: u64,
    pub t0: u64,
    pub now: u64, // abstract
    pub owner: String,
    pub operator: String,
    pub set_hash: BTreeMap<String, [u8; 32]>,
    pub probes: BTreeMap<String, Address>,
    pub apps: BTreeMap<String, Address>,
    /// concrete bytes for payload names supplied by an enclosing binding (the token service's hub payloads)
    pub payload_override: BTreeMap<String, Vec<u8>>,
    /// concrete text for abstract source-address names supplied by an enclosing binding
    pub src_override: BTreeMap<String, String>,
}

impl GatewayBinder {
    pub fn new(inst: &J, init: &J) -> GatewayBinder {
        let mut cx = Ctx::new_aging(5);
        let scale = &inst["scale"];
        let mut b = GatewayBinder {
            cx,
            inst: inst.clone(),
            gw: None,
            ring: KeyRing::new(),
            q: q_of(scale["Q"].as_str().unwrap_or("1")),
            qt: match &scale["Qt"] {
                J::String(t) if t == "2p40" => 1u64 << 40,
                J::String(t) => t.parse().unwrap_or(1),
                x => x.as_u64().unwrap_or(1),
            },
            t0: if scale["t0"] == json!("top") { u64::MAX - 1000 } else { scale["t0"].as_u64().unwrap_or(1_000_000) },
            now: init["now"].as_u64().unwrap_or(0),
            owner: jstr(init, "owner"),
            operator: jstr(init, "operator"),
            set_hash: BTreeMap::new(),
            probes: BTreeMap::new(),
            apps: BTreeMap::new(),
            payload_override: BTreeMap::new(),
            src_override: BTreeMap::new(),
        };
        // contract principals (probe contracts) named by the instance
        if let Some(ps) = inst.get("Probes").and_then(|x| x.as_array()) {
            for p in ps {
                let name = p.as_str().unwrap();
                let id = b.cx.env.register(Probe, ());
                b.cx.bind(name, &id);
                b.probes.insert(name.to_string(), id);
            }
        }
        let names: Vec<String> = inst["Sets"].as_object().unwrap().keys().cloned().collect();
        for n in names {
            let ws = b.signers(&n);
            let h = keccak(&bytes_to_vec(&ws.to_xdr(&b.cx.env)));
            b.set_hash.insert(n, h);
        }
        if init["deployed"].as_bool().unwrap_or(false) {
            // deployed initial state: construct with the epochs the state describes
            let sets: Vec<String> = jstrs(init, "hashByEpoch");
            let ok = b.construct(&sets);
            assert!(ok, "initial deployment failed");
            // applications behind the executable interface (bound before any message names them)
            if let Some(apps) = inst.get("Apps").and_then(|x| x.as_array()) {
                let gw = b.gw.clone().unwrap();
                for a in apps {
                    let name = a.as_str().unwrap();
                    let env = b.cx.env.clone();
                    let id = if name == "ex" {
                        let gas = b.cx.addr("gas_service_unused");
                        env.register(example::Example, (gw.clone(), gas))
                    } else {
                        env.register(crate::probe::miniapp::MiniApp, (gw.clone(),))
                    };
                    b.cx.bind(name, &id);
                    b.apps.insert(name.to_string(), id);
                }
            }
            b.cx.take_events();
        }
        b
    }

    pub fn time(&self) -> u64 {
        self.t0 + self.now * self.qt
    }

    pub fn weight(&self, w: u64) -> u128 {
        (w as u128) * self.q
    }

    pub fn nonce(&self, n: u64) -> BytesN<32> {
        let mut b = [0u8; 32];
        b[24..].copy_from_slice(&n.to_be_bytes());
        BytesN::from_array(&self.cx.env, &b)
    }

    pub fn signers(&self, name: &str) -> WeightedSigners {
        let s = &self.inst["Sets"][name];
        let env = &self.cx.env;
        let mut v = SVec::new(env);
        let keys = jarr(s, "keys");
        let weights = jarr(s, "weights");
        for i in 0..keys.len() {
            let w = weights.get(i).and_then(|x| x.as_u64()).unwrap_or(0);
            v.push_back(WeightedSigner {
                signer: BytesN::from_array(env, &self.ring.pk(keys[i].as_u64().unwrap() as usize)),
                weight: self.weight(w),
            });
        }
        WeightedSigners {
            signers: v,
            threshold: self.weight(s["threshold"].as_u64().unwrap()),
            nonce: self.nonce(s["nonce"].as_u64().unwrap()),
        }
    }

    /// concrete text of a (possibly catalogued) string name
    pub fn text(&self, name: &str) -> String {
        if let Some(p) = self.inst.get("Strings").and_then(|x| x.get(name)) {
            let len = p["len"].as_u64().unwrap() as usize;
            match p["kind"].as_str().unwrap_or("ascii") {
                "utf8" => "\u{00e9}\u{4e2d}\u{1F600}x".chars().cycle().take(len).collect(),
                "mixed" => " Ab-Z_9/x.Y\u{0}q~ Q\t".chars().cycle().take(len).collect(),
                _ => "abcdefghijklmnopqrstuvwxyz0123456789".chars().cycle().take(len).collect(),
            }
        } else {
            name.to_string()
        }
    }
    pub fn text_name(&self, text: &str) -> String {
        if let Some(m) = self.inst.get("Strings").and_then(|x| x.as_object()) {
            for k in m.keys() {
                if self.text(k) == text {
                    return k.clone();
                }
            }
        }
        text.to_string()
    }

    pub fn payload_bytes(&self, name: &str) -> Vec<u8> {
        if let Some(b) = self.payload_override.get(name) {
            return b.clone();
        }
        if let Some(p) = self.inst.get("Payloads").and_then(|x| x.get(name)) {
            let len = p["len"].as_u64().unwrap() as usize;
            let pat = p["pat"].as_str().unwrap_or("asc");
            // a 32-byte payload that IS the Keccak-256 hash of another payload of the instance
            if let Some(of) = pat.strip_prefix("hashof:") {
                return keccak(&self.payload_bytes(of)).to_vec();
            }
            (0..len)
                .map(|i| match pat {
                    "zero" => 0u8,
                    "ff" => 0xff,
                    _ => (i * 7 + 3) as u8,
                })
                .collect()
        } else {
            name.as_bytes().to_vec()
        }
    }

    pub fn message(&mut self, name: &str) -> Message {
        let m = self.inst["Msgs"][name].clone();
        let k = self.inst["Keys"][m["key"].as_str().unwrap()].clone();
        let dest = self.cx.addr(m["dest"].as_str().unwrap());
        Message {
            source_chain: self.cx.s(k["chain"].as_str().unwrap()),
            message_id: self.cx.s(k["id"].as_str().unwrap()),
            source_address: self.cx.s(self.src_override.get(m["src"].as_str().unwrap()).map(|x| x.as_str()).unwrap_or(m["src"].as_str().unwrap())),
            contract_address: dest,
            payload_hash: self.cx.b32(&keccak(&self.payload_bytes(m["ph"].as_str().unwrap()))),
        }
    }

    pub fn messages(&mut self, names: &[String]) -> SVec<Message> {
        let mut v = SVec::new(&self.cx.env);
        for n in names {
            let m = self.message(n);
            v.push_back(m);
        }
        v
    }

    fn data_hash_approve(&mut self, names: &[String], cmd: CommandType) -> [u8; 32] {
        let msgs = self.messages(names);
        keccak(&bytes_to_vec(&(cmd, msgs).to_xdr(&self.cx.env)))
    }
    fn data_hash_rotate(&mut self, set: &str, cmd: CommandType) -> [u8; 32] {
        let ws = self.signers(set);
        keccak(&bytes_to_vec(&(cmd, ws).to_xdr(&self.cx.env)))
    }

    /// data descriptor: {"kind":"approve","msgs":[..]} | {"kind":"rotate","new":set}
    /// returns (right data hash, wrong-command hash, wrong-data hash)
    fn data_hashes(&mut self, data: &J) -> ([u8; 32], [u8; 32], [u8; 32]) {
        match data["kind"].as_str().unwrap() {
            "approve" => {
                let names = jstrs(data, "msgs");
                let right = self.data_hash_approve(&names, CommandType::ApproveMessages);
                let wcmd = self.data_hash_approve(&names, CommandType::RotateSigners);
                let mut other = names.clone();
                if other.is_empty() {
                    other.push(self.inst["Msgs"].as_object().unwrap().keys().next().unwrap().clone());
                } else {
                    other.pop();
                }
                let wdata = self.data_hash_approve(&other, CommandType::ApproveMessages);
                (right, wcmd, wdata)
            }
            "rotate" => {
                let new = jstr(data, "new");
                let right = self.data_hash_rotate(&new, CommandType::RotateSigners);
                let wcmd = self.data_hash_rotate(&new, CommandType::ApproveMessages);
                let other = self.other_set(&new);
                let wdata = self.data_hash_rotate(&other, CommandType::RotateSigners);
                (right, wcmd, wdata)
            }
            k => panic!("data kind {k}"),
        }
    }

    fn other_set(&self, not: &str) -> String {
        self.inst["Sets"].as_object().unwrap().keys().find(|k| k.as_str() != not).cloned().unwrap_or(not.to_string())
    }

    fn digest(domain: &[u8; 32], set_hash: &[u8; 32], data: &[u8; 32]) -> [u8; 32] {
        let mut m = Vec::with_capacity(96);
        m.extend_from_slice(domain);
        m.extend_from_slice(set_hash);
        m.extend_from_slice(data);
        keccak(&m)
    }

    /// Build the wire proof for abstract proof {set, sigs} over `data`.
    pub fn proof(&mut self, p: &J, data: &J) -> Proof {
        let set = jstr(p, "set");
        let ws = self.signers(&set);
        // `signedFor`: the signatures were made for ANOTHER set's digest (genuine signatures of that set, re-used in a
        // proof that declares a differently shaped signer list)
        let sh = match p.get("signedFor").and_then(|x| x.as_str()) {
            Some(o) => self.set_hash[o],
            None => self.set_hash[&set],
        };
        let (right, wcmd, wdata) = self.data_hashes(data);
        let other_sh = self.set_hash[&self.other_set(&set)];
        let sigs = jstrs(p, "sigs");
        let ranks: Vec<usize> = jarr(&self.inst["Sets"][&set], "keys").iter().map(|x| x.as_u64().unwrap() as usize).collect();
        let env = self.cx.env.clone();
        let mut v = SVec::new(&env);
        for (i, signer) in ws.signers.iter().enumerate() {
            let tag = sigs.get(i).map(|s| s.as_str()).unwrap_or("Unsigned");
            let rank = ranks[i];
            let key: &SigningKey = if rank == 0 { &self.ring.spare } else { &self.ring.sorted[rank - 1] };
            let sign = |k: &SigningKey, d: [u8; 32]| -> [u8; 64] { k.sign(&d).to_bytes() };
            let signature = match tag {
                "Unsigned" => ProofSignature::Unsigned,
                "Valid" => ProofSignature::Signed(BytesN::from_array(&env, &sign(key, Self::digest(&DOMAIN, &sh, &right)))),
                "WrongDomain" => {
                    ProofSignature::Signed(BytesN::from_array(&env, &sign(key, Self::digest(&OTHER_DOMAIN, &sh, &right))))
                }
                "WrongCommand" => ProofSignature::Signed(BytesN::from_array(&env, &sign(key, Self::digest(&DOMAIN, &sh, &wcmd)))),
                "WrongData" => ProofSignature::Signed(BytesN::from_array(&env, &sign(key, Self::digest(&DOMAIN, &sh, &wdata)))),
                "WrongSet" => {
                    ProofSignature::Signed(BytesN::from_array(&env, &sign(key, Self::digest(&DOMAIN, &other_sh, &right))))
                }
                "WrongKey" => {
                    ProofSignature::Signed(BytesN::from_array(&env, &sign(&self.ring.spare, Self::digest(&DOMAIN, &sh, &right))))
                }
                "BitFlip" => {
                    let mut s = sign(key, Self::digest(&DOMAIN, &sh, &right));
                    s[5] ^= 0x10;
                    ProofSignature::Signed(BytesN::from_array(&env, &s))
                }
                t => panic!("sig tag {t}"),
            };
            v.push_back(ProofSigner { signer, signature });
        }
        Proof { signers: v, threshold: ws.threshold, nonce: ws.nonce }
    }

    /// full valid proof of the given set over an arbitrary data hash (used by other bindings)
    pub fn valid_proof(&mut self, set: &str, data_hash: [u8; 32]) -> Proof {
        let ws = self.signers(set);
        let sh = self.set_hash[set];
        let ranks: Vec<usize> = jarr(&self.inst["Sets"][set], "keys").iter().map(|x| x.as_u64().unwrap() as usize).collect();
        let env = self.cx.env.clone();
        let mut v = SVec::new(&env);
        for (i, signer) in ws.signers.iter().enumerate() {
            let sig = self.ring.sorted[ranks[i] - 1].sign(&Self::digest(&DOMAIN, &sh, &data_hash)).to_bytes();
            v.push_back(ProofSigner { signer, signature: ProofSignature::Signed(BytesN::from_array(&env, &sig)) });
        }
        Proof { signers: v, threshold: ws.threshold, nonce: ws.nonce }
    }

    /// approve concrete messages with a valid proof from the named (latest) set
    pub fn approve_raw(&mut self, set: &str, msgs: SVec<Message>) -> Result<Val, String> {
        let env = self.cx.env.clone();
        let dh = keccak(&bytes_to_vec(&(CommandType::ApproveMessages, msgs.clone()).to_xdr(&env)));
        let proof = self.valid_proof(set, dh);
        let gw = self.gw.clone().unwrap();
        let args: SVec<Val> = svec![&env, msgs.into_val(&env), proof.into_val(&env)];
        self.cx.call_auth(&[], &gw, "approve_messages", args)
    }

    pub fn construct(&mut self, sets: &[String]) -> bool {
        let env = self.cx.env.clone();
        let owner = self.cx.addr(&self.owner.clone());
        let operator = self.cx.addr(&self.operator.clone());
        let mut v: SVec<WeightedSigners> = SVec::new(&env);
        for s in sets {
            v.push_back(self.signers(s));
        }
        // abstract delay 2^31-1 (resp. 2^31-2) stands for u64::MAX (resp. u64::MAX - 1): "never without bypass"
        let d = self.inst["MinDelay"].as_u64().unwrap();
        let min_delay: u64 = if d >= 2147483646 { u64::MAX - (2147483647 - d) } else { d * self.qt };
        // abstract retention 2^31-1 (resp. 2^31-2) stands for u64::MAX (resp. u64::MAX - 1): "keep old sets for ever"
        let r = self.inst["Retention"].as_u64().unwrap();
        let retention: u64 = if r >= 2147483646 { u64::MAX - (2147483647 - r) } else { r };
        self.cx.set_time(self.time());
        let domain = BytesN::from_array(&env, &DOMAIN);
        let r = std::panic::catch_unwind(std::panic::AssertUnwindSafe(|| {
            env.register(
                axelar_gateway::AxelarGateway,
                (owner.clone(), operator.clone(), domain, min_delay, retention, v.clone()),
            )
        }));
        match r {
            Ok(id) => {
                self.cx.bind("gateway", &id);
                self.gw = Some(id);
                true
            }
            Err(_) => false,
        }
    }

    fn auth_list(&mut self, act: &J) -> Vec<Address> {
        act.get("auth")
            .and_then(|x| x.as_array())
            .map(|a| a.iter().map(|n| self.cx.addr(n.as_str().unwrap())).collect())
            .unwrap_or_default()
    }

    fn call_rooted(&mut self, act: &J, func: &'static str, args: SVec<Val>) -> Result<Val, String> {
        let gw = self.gw.clone().expect("gateway not deployed");
        let auths: Vec<(Address, Inv)> = self.auth_list(act).into_iter().map(|a| (a, Inv::new(&gw, func, args.clone()))).collect();
        self.cx.call_auth(&auths, &gw, func, args)
    }

    pub fn decode_event(&mut self, c: &Address, topics: &SVec<Val>, data: &Val) -> Option<J> {
        let env = self.cx.env.clone();
        if let Some((an, _)) = self.apps.iter().find(|(_, a)| *a == c) {
            let an = an.clone();
            let name = sym_name(&env, &topics.get(0)?)?;
            if name != "executed" {
                return Some(json!({"k": name}));
            }
            let chain = sstr_to_string(&SStr::try_from_val(&env, &topics.get(1)?).ok()?);
            let id = sstr_to_string(&SStr::try_from_val(&env, &topics.get(2)?).ok()?);
            let src = sstr_to_string(&SStr::try_from_val(&env, &topics.get(3)?).ok()?);
            let (payload,): (Bytes,) = <(Bytes,)>::try_from_val(&env, data).ok()?;
            let key = self.inst["Keys"].as_object().unwrap().iter().find(|(_, k)| k["chain"] == json!(chain) && k["id"] == json!(id)).map(|(n, _)| n.clone()).unwrap_or("UnknownKey".into());
            return Some(json!({"k": "app_executed", "app": an, "key": key, "src": src, "payload": self.payload_name(&bytes_to_vec(&payload))}));
        }
        if Some(c) != self.gw.as_ref() {
            return None;
        }
        let name = sym_name(&env, &topics.get(0)?)?;
        match name.as_str() {
            "message_approved" | "message_executed" => {
                let m = Message::try_from_val(&env, &topics.get(1)?).ok();
                let mn = m.map(|m| self.msg_name(&m)).unwrap_or("undecodable".into());
                Some(json!({"k": name, "msg": mn}))
            }
            "signers_rotated" => {
                let e = u64::try_from_val(&env, &topics.get(1)?).ok()?;
                let h = BytesN::<32>::try_from_val(&env, &topics.get(2)?).ok()?;
                Some(json!({"k": name, "epoch": e, "set": self.set_name(&h.to_array())}))
            }
            "contract_called" => {
                let caller = Address::try_from_val(&env, &topics.get(1)?).ok()?;
                let chain = SStr::try_from_val(&env, &topics.get(2)?).ok()?;
                let addr = SStr::try_from_val(&env, &topics.get(3)?).ok()?;
                let ph = BytesN::<32>::try_from_val(&env, &topics.get(4)?).ok()?;
                let payload = Bytes::try_from_val(&env, data).ok()?;
                let pv = bytes_to_vec(&payload);
                // "selfaddr": the destination address is the textual form of the sender's own address
                let addr_txt = sstr_to_string(&addr);
                let addr_name = if addr_txt == sstr_to_string(&caller.to_string()) { "selfaddr".to_string() } else { self.text_name(&addr_txt) };
                Some(json!({"k": name, "caller": self.cx.name_of(&caller), "chain": self.text_name(&sstr_to_string(&chain)),
                    "addr": addr_name, "payload": self.payload_name(&pv), "ph": self.payload_name_by_hash(&ph.to_array())}))
            }
            "ownership_transferred" | "operatorship_transferred" => {
                let p = Address::try_from_val(&env, &topics.get(1)?).ok()?;
                let n = Address::try_from_val(&env, &topics.get(2)?).ok()?;
                Some(json!({"k": name, "prev": self.cx.name_of(&p), "new": self.cx.name_of(&n)}))
            }
            _ => Some(json!({"k": name})),
        }
    }

    fn payload_names(&self) -> Vec<String> {
        let mut v: Vec<String> = vec![];
        if let Some(p) = self.inst.get("Payloads").and_then(|x| x.as_object()) {
            v.extend(p.keys().cloned());
        }
        if let Some(ms) = self.inst["Msgs"].as_object() {
            for m in ms.values() {
                let n = m["ph"].as_str().unwrap().to_string();
                if !v.contains(&n) {
                    v.push(n);
                }
            }
        }
        v
    }
    fn payload_name(&self, bytes: &[u8]) -> String {
        for n in self.payload_names() {
            if self.payload_bytes(&n) == bytes {
                return n;
            }
        }
        "BadPayload".into()
    }
    fn payload_name_by_hash(&self, h: &[u8; 32]) -> String {
        for n in self.payload_names() {
            if &keccak(&self.payload_bytes(&n)) == h {
                return n;
            }
        }
        "BadHash".into()
    }

    fn set_name(&self, h: &[u8; 32]) -> String {
        for (n, x) in self.set_hash.iter() {
            if x == h {
                return n.clone();
            }
        }
        "BadHash".into()
    }

    fn msg_name(&mut self, m: &Message) -> String {
        let names: Vec<String> = self.inst["Msgs"].as_object().unwrap().keys().cloned().collect();
        for n in names {
            if &self.message(&n) == m {
                return n;
            }
        }
        "UnknownMsg".into()
    }

    fn finish(&mut self, r: Result<Val, String>, ret: impl Fn(&Env, &Val) -> J) -> Obs {
        let raw = self.cx.take_events();
        let mut ev = vec![];
        for (c, t, d) in raw.iter() {
            if let Some(e) = self.decode_event(c, t, d) {
                ev.push(e);
            }
        }
        match r {
            Ok(v) => Obs { ok: true, ret: ret(&self.cx.env, &v), ev, err: String::new() },
            Err(e) => Obs { ok: false, ret: json!("none"), ev, err: e },
        }
    }

    pub fn exec(&mut self, act: &J) -> Obs {
        self.cx.set_argdrop(act);
        let name = jstr(act, "name");
        self.cx.set_time(self.time());
        let env = self.cx.env.clone();
        match name.as_str() {
            "Tick" => {
                self.now += act["dt"].as_u64().unwrap();
                self.cx.set_time(self.time());
                Obs { ok: true, ret: unit(), ev: vec![], err: String::new() }
            }
            "Construct" => {
                let sets = jstrs(act, "sets");
                let ok = self.construct(&sets);
                self.finish(if ok { Ok(Val::VOID.into()) } else { Err("constructor".into()) }, |_, _| unit())
            }
            "ApproveMessages" => {
                let names = jstrs(act, "msgs");
                let msgs = self.messages(&names);
                let proof = self.proof(&act["proof"], &json!({"kind":"approve","msgs":names}));
                let args: SVec<Val> = svec![&env, msgs.into_val(&env), proof.into_val(&env)];
                let r = self.call_rooted(act, "approve_messages", args);
                self.finish(r, |_, _| unit())
            }
            "ValidateProof" => {
                let (right, _, _) = self.data_hashes(&act["data"]);
                let proof = self.proof(&act["proof"], &act["data"]);
                let args: SVec<Val> = svec![&env, self.cx.b32(&right).into_val(&env), proof.into_val(&env)];
                let r = self.call_rooted(act, "validate_proof", args);
                self.finish(r, |e, v| bool::try_from_val(e, v).map(|b| json!(if b { "true" } else { "false" })).unwrap_or(json!("badret")))
            }
            "RotateSigners" => {
                let new = jstr(act, "new");
                let ws = self.signers(&new);
                let proof = self.proof(&act["proof"], &json!({"kind":"rotate","new":new}));
                let bypass = jbool(act, "bypass");
                let args: SVec<Val> = svec![&env, ws.into_val(&env), proof.into_val(&env), bypass.into_val(&env)];
                let r = self.call_rooted(act, "rotate_signers", args);
                self.finish(r, |_, _| unit())
            }
            "ValidateMessage" => {
                let k = self.inst["Keys"][act["key"].as_str().unwrap()].clone();
                let chain = self.cx.s(k["chain"].as_str().unwrap());
                let id = self.cx.s(k["id"].as_str().unwrap());
                let src = self.cx.s(act["src"].as_str().unwrap());
                let ph = self.cx.b32(&keccak(&self.payload_bytes(act["ph"].as_str().unwrap())));
                let caller_name = jstr(act, "caller");
                let caller = self.cx.addr(&caller_name);
                let via = act["via"].as_str().unwrap_or("direct");
                let gw = self.gw.clone().unwrap();
                let r = if via == "self" {
                    let probe = self.probes.get(&caller_name).expect("via=self needs a probe contract").clone();
                    let args: SVec<Val> = svec![&env, gw.into_val(&env), chain.into_val(&env), id.into_val(&env), src.into_val(&env), ph.into_val(&env)];
                    self.cx.call_auth(&[], &probe, "gw_validate", args)
                } else {
                    let args: SVec<Val> = svec![&env, caller.into_val(&env), chain.into_val(&env), id.into_val(&env), src.into_val(&env), ph.into_val(&env)];
                    self.call_rooted(act, "validate_message", args)
                };
                self.finish(r, |e, v| bool::try_from_val(e, v).map(|b| json!(if b { "true" } else { "false" })).unwrap_or(json!("badret")))
            }
            "CallContract" => {
                let caller_name = jstr(act, "caller");
                let caller = self.cx.addr(&caller_name);
                let chain = self.cx.s(&self.text(act["chain"].as_str().unwrap()));
                let addr = if act["addr"] == json!("selfaddr") { caller.to_string() } else { self.cx.s(&self.text(act["addr"].as_str().unwrap())) };
                let payload = self.cx.bytes(&self.payload_bytes(act["payload"].as_str().unwrap()));
                let via = act["via"].as_str().unwrap_or("direct");
                let gw = self.gw.clone().unwrap();
                let times = act.get("times").and_then(|x| x.as_u64()).unwrap_or(1) as u32;
                let r = if via == "self" && times > 1 {
                    // the calling contract makes the same call several times within one transaction
                    let probe = self.probes.get(&caller_name).expect("probe").clone();
                    let args: SVec<Val> = svec![&env, gw.into_val(&env), chain.into_val(&env), addr.into_val(&env), payload.into_val(&env), times.into_val(&env)];
                    self.cx.call_auth(&[], &probe, "gw_call_n", args)
                } else if via == "self" || via == "other" {
                    // a probe contract issues the call; via=self: for itself, via=other: for `caller`
                    let pname = if via == "self" { caller_name.clone() } else { jstr(act, "through") };
                    let probe = self.probes.get(&pname).expect("probe").clone();
                    let args: SVec<Val> = svec![&env, gw.into_val(&env), caller.into_val(&env), chain.into_val(&env), addr.into_val(&env), payload.into_val(&env)];
                    // an address's authorisation tree starts at the first call that requires it: gateway.call_contract
                    let inner: SVec<Val> = svec![&env, caller.into_val(&env), chain.into_val(&env), addr.into_val(&env), payload.into_val(&env)];
                    let auths: Vec<(Address, Inv)> = self
                        .auth_list(act)
                        .into_iter()
                        .map(|a| (a, Inv::new(&gw, "call_contract", inner.clone())))
                        .collect();
                    self.cx.call_auth(&auths, &probe, "gw_call", args)
                } else {
                    let args: SVec<Val> = svec![&env, caller.into_val(&env), chain.into_val(&env), addr.into_val(&env), payload.into_val(&env)];
                    self.call_rooted(act, "call_contract", args)
                };
                self.finish(r, |_, _| unit())
            }
            "AppExecute" => {
                let app = self.apps[act["app"].as_str().unwrap()].clone();
                let k = self.inst["Keys"][act["key"].as_str().unwrap()].clone();
                let chain = self.cx.s(k["chain"].as_str().unwrap());
                let id = self.cx.s(k["id"].as_str().unwrap());
                let src = self.cx.s(act["src"].as_str().unwrap());
                let payload = self.cx.bytes(&self.payload_bytes(act["payload"].as_str().unwrap()));
                let args: SVec<Val> = svec![&env, chain.into_val(&env), id.into_val(&env), src.into_val(&env), payload.into_val(&env)];
                let r = self.cx.call_auth(&[], &app, "execute", args);
                self.finish(r, |_, _| unit())
            }
            "HookOpenWindow" => {
                let gw = self.gw.clone().unwrap();
                env.as_contract(&gw, || axelar_soroban_std::interfaces::verif_open_migration_window(&env));
                return Obs { ok: true, ret: unit(), ev: vec![], err: String::new() };
            }
            "TransferOwnership" | "TransferOperatorship" => {
                let new = self.cx.addr(act["new"].as_str().unwrap());
                let args: SVec<Val> = svec![&env, new.into_val(&env)];
                let f = if name == "TransferOwnership" { "transfer_ownership" } else { "transfer_operatorship" };
                let r = self.call_rooted(act, f, args);
                self.finish(r, |_, _| unit())
            }
            other => panic!("Gateway: unknown action {other}"),
        }
    }

    /// Abstract projection of the real state through public queries only.
    pub fn project(&mut self) -> J {
        let env = self.cx.env.clone();
        let gw = match self.gw.clone() {
            Some(g) => g,
            None => return json!({"deployed": false}),
        };
        let epoch: u64 = self.cx.query(&gw, "epoch", SVec::new(&env)).unwrap_or(u64::MAX);
        let mut hbe: Vec<J> = vec![];
        if let Some(h) = self.cx.query::<BytesN<32>>(&gw, "signers_hash_by_epoch", svec![&env, 0u64.into_val(&env)]) {
            hbe.push(json!(format!("epoch0:{}", self.set_name(&h.to_array()))));
        }
        let upto = if epoch == u64::MAX { 0 } else { epoch + 1 };
        for e in 1..=upto {
            match self.cx.query::<BytesN<32>>(&gw, "signers_hash_by_epoch", svec![&env, e.into_val(&env)]) {
                Some(h) => hbe.push(json!(self.set_name(&h.to_array()))),
                None => hbe.push(json!("none")),
            }
        }
        while hbe.last().map(|x| x == "none").unwrap_or(false) {
            hbe.pop();
        }
        let mut epoch_of = serde_json::Map::new();
        let set_names: Vec<(String, [u8; 32])> = self.set_hash.iter().map(|(a, b)| (a.clone(), *b)).collect();
        for (n, h) in set_names {
            let e: u64 = self
                .cx
                .query(&gw, "epoch_by_signers_hash", svec![&env, self.cx.b32(&h).into_val(&env)])
                .unwrap_or(0);
            epoch_of.insert(n, json!(e));
        }
        let mut status = serde_json::Map::new();
        let key_names: Vec<String> = self.inst["Keys"].as_object().unwrap().keys().cloned().collect();
        let msg_names: Vec<String> = self.inst["Msgs"].as_object().unwrap().keys().cloned().collect();
        for kn in key_names {
            let k = self.inst["Keys"][&kn].clone();
            let chain = self.cx.s(k["chain"].as_str().unwrap());
            let id = self.cx.s(k["id"].as_str().unwrap());
            let executed: bool = self
                .cx
                .query(&gw, "is_message_executed", svec![&env, chain.into_val(&env), id.into_val(&env)])
                .unwrap_or(false);
            let mut approved: Vec<String> = vec![];
            for mn in msg_names.iter() {
                if self.inst["Msgs"][mn]["key"].as_str().unwrap() != kn {
                    continue;
                }
                let m = self.message(mn);
                let a: bool = self
                    .cx
                    .query(
                        &gw,
                        "is_message_approved",
                        svec![&env, m.source_chain.into_val(&env), m.message_id.into_val(&env), m.source_address.into_val(&env), m.contract_address.into_val(&env), m.payload_hash.into_val(&env)],
                    )
                    .unwrap_or(false);
                if a {
                    approved.push(mn.clone());
                }
            }
            let s = match (executed, approved.len()) {
                (false, 0) => "none".to_string(),
                (true, 0) => "executed".to_string(),
                (false, 1) => approved[0].clone(),
                _ => format!("conflict:{}:{:?}", executed, approved),
            };
            status.insert(kn, json!(s));
        }
        let owner: Option<Address> = self.cx.query(&gw, "owner", SVec::new(&env));
        let operator: Option<Address> = self.cx.query(&gw, "operator", SVec::new(&env));
        json!({
            "deployed": true,
            "epoch": epoch,
            "hashByEpoch": hbe,
            "epochOf": epoch_of,
            "status": status,
            "owner": owner.map(|a| self.cx.name_of(&a)).unwrap_or("none".into()),
            "operator": operator.map(|a| self.cx.name_of(&a)).unwrap_or("none".into()),
        })
    }
}
