//! Seeded random cases for the codec (impl -> spec): random messages are encoded, random byte strings
//! and random damage to valid encodings are decoded; every case is logged with the contract's answer
//! and validated by spec/TraceAbi.tla.
use crate::abi::{apply_mut, code_decode, code_encode, own_encode, to_jbytes};
use crate::common::new_env;
use rand::{Rng, SeedableRng};
use rand_chacha::ChaCha8Rng;
use serde_json::{json, Value as J};
use std::io::Write;

fn rbytes(rng: &mut ChaCha8Rng, max: usize) -> Vec<u8> {
    let n = match rng.gen_range(0..10) {
        0 => 0,
        1 => 1,
        2 => 31,
        3 => 32,
        4 => 33,
        5 => 64,
        _ => rng.gen_range(0..=max),
    };
    match rng.gen_range(0..4) {
        0 => vec![0u8; n],
        1 => vec![0xff; n],
        _ => (0..n).map(|_| rng.gen()).collect(),
    }
}
fn rtext(rng: &mut ChaCha8Rng, max: usize) -> Vec<u8> {
    if rng.gen_bool(0.08) {
        return rbytes(rng, max); // usually not UTF-8
    }
    let n = rng.gen_range(0..=max);
    let pool = ['a', 'Z', '0', ' ', ':', '\u{e9}', '\u{4e2d}', '\u{1F600}', '\u{0}', '\u{7ff}', '\u{ffff}'];
    let s: String = (0..n).map(|_| pool[rng.gen_range(0..pool.len())]).collect();
    s.into_bytes()
}
fn ramount(rng: &mut ChaCha8Rng) -> Vec<u8> {
    let v: i128 = match rng.gen_range(0..6) {
        0 => 0,
        1 => 1,
        2 => i128::MAX,
        3 => 1i128 << 64,
        _ => (rng.gen::<u128>() >> rng.gen_range(1..128)) as i128,
    };
    v.to_be_bytes().to_vec()
}
fn rmsg(rng: &mut ChaCha8Rng) -> J {
    let outer = if rng.gen_bool(0.5) { "send" } else { "recv" };
    let tid: Vec<u8> = (0..32).map(|_| rng.gen()).collect();
    if rng.gen_bool(0.5) {
        json!({"outer": outer, "chain": to_jbytes(&rtext(rng, 40)), "inner": "transfer", "tokenId": to_jbytes(&tid),
               "src": to_jbytes(&rbytes(rng, 100)), "dst": to_jbytes(&rbytes(rng, 100)), "amount": to_jbytes(&ramount(rng)), "data": to_jbytes(&rbytes(rng, 200))})
    } else {
        json!({"outer": outer, "chain": to_jbytes(&rtext(rng, 40)), "inner": "deploy", "tokenId": to_jbytes(&tid),
               "name": to_jbytes(&rtext(rng, 70)), "symbol": to_jbytes(&rtext(rng, 20)), "decimals": rng.gen_range(0..=255), "minter": to_jbytes(&rbytes(rng, 80))})
    }
}

pub fn drive(seed: u64, _runs: usize, steps: usize, out: &str) {
    let mut rng = ChaCha8Rng::seed_from_u64(seed ^ 0xABCD);
    let env = new_env();
    let mut f = std::io::BufWriter::new(std::fs::File::create(out).unwrap());
    writeln!(f, "{}", json!({"module": "Abi"})).unwrap();
    for _ in 0..steps {
        let m = rmsg(&mut rng);
        match rng.gen_range(0..10) {
            0..=2 => {
                let r = code_encode(&env, &m);
                writeln!(f, "{}", json!({"op": "encode", "m": m, "ok": r.is_ok(), "out": r.as_ref().map(|b| to_jbytes(b)).unwrap_or(json!([])), "err": r.err().unwrap_or_default()})).unwrap();
            }
            3 => {
                let b = rbytes(&mut rng, 400);
                let r = code_decode(&env, &b);
                writeln!(f, "{}", json!({"op": "decode", "b": to_jbytes(&b), "ok": r.is_ok(), "m": r.as_ref().map(|x| x.0.clone()).unwrap_or(json!({"none": true})),
                                         "reenc": r.as_ref().map(|x| x.1 == b).unwrap_or(true), "err": r.err().unwrap_or_default()})).unwrap();
            }
            _ => {
                // damage a valid encoding (built by the harness's own encoder, validated against Abi.tla by C10)
                let mut b = own_encode(&m);
                let k = rng.gen_range(0..3);
                for _ in 0..k {
                    let mu = match rng.gen_range(0..5) {
                        0 => json!({"kind": "flip", "off": rng.gen_range(0..b.len()), "mask": 1u8 << rng.gen_range(0..8)}),
                        1 => json!({"kind": "trunc", "n": rng.gen_range(1..=b.len().min(70))}),
                        2 => json!({"kind": "extend", "n": rng.gen_range(1..70), "byte": rng.gen::<u8>()}),
                        3 => {
                            let off = rng.gen_range(0..b.len() / 32) * 32;
                            let mut w = vec![0u8; 32];
                            w[31] = rng.gen();
                            w[30] = if rng.gen_bool(0.3) { rng.gen() } else { 0 };
                            json!({"kind": "setbytes", "off": off, "bytes": w})
                        }
                        _ => json!({"kind": "flip", "off": rng.gen_range(0..b.len().min(96)), "mask": 1}),
                    };
                    b = apply_mut(&b, &mu);
                    if b.is_empty() {
                        break;
                    }
                }
                let r = code_decode(&env, &b);
                writeln!(f, "{}", json!({"op": "decode", "b": to_jbytes(&b), "ok": r.is_ok(), "m": r.as_ref().map(|x| x.0.clone()).unwrap_or(json!({"none": true})),
                                         "reenc": r.as_ref().map(|x| x.1 == b).unwrap_or(true), "err": r.err().unwrap_or_default()})).unwrap();
            }
        }
    }
    f.flush().unwrap();
}
