//! small experiments on host behaviour the harness relies on (conform selfcheck)
use crate::common::*;
use crate::probe::dry::Dry;
use soroban_sdk::vec as svec;
use soroban_sdk::{IntoVal, String as SStr, Symbol, Val, Vec as SVec};

pub fn run() {
    let mut cx = Ctx::new();
    let env = cx.env.clone();
    let owner = cx.addr("owner");
    let col = cx.addr("col");
    let gs = env.register(axelar_gas_service::AxelarGasService, (owner.clone(), col.clone()));
    let dry = env.register(Dry, ());
    let admin = cx.addr("admin");
    let sac = env.register_stellar_asset_contract_v2(admin.clone()).address();
    let alice = cx.addr("alice");
    env.mock_all_auths();
    env.invoke_contract::<()>(&sac, &Symbol::new(&env, "mint"), svec![&env, alice.into_val(&env), 10i128.into_val(&env)]);
    env.set_auths(&[]);
    let token = crate::gas::wire::Token { address: sac.clone(), amount: 3 };
    let args: SVec<Val> = svec![&env, alice.into_val(&env), SStr::from_str(&env, "c").into_val(&env), SStr::from_str(&env, "a").into_val(&env),
        soroban_sdk::Bytes::new(&env).into_val(&env), alice.into_val(&env), token.into_val(&env), soroban_sdk::Bytes::new(&env).into_val(&env)];
    env.mock_all_auths_allowing_non_root_auth();
    let r = env.try_invoke_contract::<Val, soroban_sdk::Error>(&dry, &Symbol::new(&env, "run"), svec![&env, gs.into_val(&env), Symbol::new(&env, "pay_gas").into_val(&env), args.into_val(&env)]);
    println!("dry result ok? {}", r.is_ok());
    let auths = env.auths();
    println!("auths recorded after failed dry run: {}", auths.len());
    for (a, inv) in auths.iter() {
        println!("  {} -> {:?}", cx.name_of(a), inv);
    }
    let bal: i128 = env.invoke_contract(&sac, &Symbol::new(&env, "balance"), svec![&env, alice.into_val(&env)]);
    println!("alice balance after dry run (must be 10): {}", bal);
    let evs = env.host().get_events().unwrap().0;
    println!("host events: {} (failed flags: {:?})", evs.len(), evs.iter().map(|e| e.failed_call).collect::<Vec<_>>());
}
