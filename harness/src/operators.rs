//! Binding of spec/Operators.tla to contracts/axelar-operators; targets are recording probe contracts.
#![allow(dead_code)]

use crate::common::*;
use crate::probe::Probe;
use serde_json::{json, Value as J};
use soroban_sdk::vec as svec;
use soroban_sdk::xdr;
use soroban_sdk::{Address, IntoVal, String as SStr, Symbol, TryFromVal, Val, Vec as SVec};
use std::collections::BTreeMap;

pub struct OperatorsBinder {
    pub cx: Ctx,
    pub inst: J,
    pub ops: Address,
    pub probes: BTreeMap<String, Address>,
    pub log_seen: BTreeMap<String, u32>,
    pub accts: Vec<String>,
}

fn scval(env: &soroban_sdk::Env, v: &Val) -> Option<xdr::ScVal> {
    xdr::ScVal::try_from_val(env, v).ok()
}

impl OperatorsBinder {
    pub fn new(inst: &J, init: &J) -> OperatorsBinder {
        let mut cx = Ctx::new_aging(5);
        let env = cx.env.clone();
        let owner = cx.addr(&jstr(init, "owner"));
        let ops = env.register(axelar_operators::AxelarOperators, (owner,));
        cx.bind("operators", &ops);
        let mut probes = BTreeMap::new();
        let mut log_seen = BTreeMap::new();
        for p in jstrs(inst, "Probes") {
            let id = env.register(Probe, ());
            cx.bind(&p, &id);
            log_seen.insert(p.clone(), 0);
            probes.insert(p, id);
        }
        let mut accts = jstrs(inst, "Accts");
        accts.sort();
        cx.take_events();
        OperatorsBinder { cx, inst: inst.clone(), ops, probes, log_seen, accts }
    }

    fn arg_val(&self, kind: &str) -> Val {
        let env = &self.cx.env;
        match kind {
            "u32" => 7u32.into_val(env),
            "str" => SStr::from_str(env, "hello operators").into_val(env),
            "vec" => svec![env, 1u32, 2u32, 3u32].into_val(env),
            "unit" => Val::VOID.into(),
            k => panic!("arg kind {k}"),
        }
    }
    fn arg_name(&self, v: &Val) -> String {
        let env = &self.cx.env;
        for k in ["u32", "str", "vec", "unit"] {
            if scval(env, v) == scval(env, &self.arg_val(k)) {
                return k.to_string();
            }
        }
        "mismatch".into()
    }

    /// new probe log entries since the last call, as pseudo-events
    fn probe_delta(&mut self) -> Vec<J> {
        let env = self.cx.env.clone();
        let mut out = vec![];
        let ps: Vec<(String, Address)> = self.probes.iter().map(|(a, b)| (a.clone(), b.clone())).collect();
        for (name, addr) in ps {
            let log: SVec<Val> = self.cx.query(&addr, "log", SVec::new(&env)).unwrap_or(SVec::new(&env));
            let seen = self.log_seen[&name];
            if log.len() < seen {
                out.push(json!({"k": "probe_call", "target": name, "fn": "LOG_SHRANK", "arg": "mismatch"}));
            }
            for i in seen..log.len() {
                let entry = log.get(i).unwrap();
                let tup: SVec<Val> = SVec::try_from_val(&env, &entry).unwrap_or(SVec::new(&env));
                let f = tup.get(0).and_then(|v| sym_name(&env, &v)).unwrap_or("?".into());
                let arg = if f == "echo" { tup.get(2).map(|v| self.arg_name(&v)).unwrap_or("mismatch".into()) } else if f == "ping" { "unit".into() } else { "none".into() };
                out.push(json!({"k": "probe_call", "target": name, "fn": f, "arg": arg}));
            }
            self.log_seen.insert(name, log.len());
        }
        out
    }

    pub fn exec(&mut self, act: &J) -> Obs {
        self.cx.set_argdrop(act);
        let env = self.cx.env.clone();
        let name = jstr(act, "name");
        let ops = self.ops.clone();
        if name == "HookOpenWindow" {
            env.as_contract(&ops, || axelar_soroban_std::interfaces::verif_open_migration_window(&env));
            return Obs { ok: true, ret: unit(), ev: vec![], err: String::new() };
        }
        let auth_names: Vec<String> = jstrs(act, "auth");
        let (func, args): (&'static str, SVec<Val>) = match name.as_str() {
            "AddOperator" | "RemoveOperator" => {
                let a = self.cx.addr(act["acct"].as_str().unwrap());
                (if name == "AddOperator" { "add_operator" } else { "remove_operator" }, svec![&env, a.into_val(&env)])
            }
            "Execute" => {
                let op = self.cx.addr(act["op"].as_str().unwrap());
                let target = self.probes[act["target"].as_str().unwrap()].clone();
                let f = act["fn"].as_str().unwrap();
                let inner: SVec<Val> = if f == "echo" {
                    svec![&env, 1u32.into_val(&env), self.arg_val(act["arg"].as_str().unwrap())]
                } else if f == "ping" {
                    SVec::new(&env)
                } else {
                    svec![&env, 1u32.into_val(&env)]
                };
                ("execute", svec![&env, op.into_val(&env), target.into_val(&env), Symbol::new(&env, f).into_val(&env), inner.into_val(&env)])
            }
            "TransferOwnership" => {
                let n = self.cx.addr(act["new"].as_str().unwrap());
                ("transfer_ownership", svec![&env, n.into_val(&env)])
            }
            other => panic!("Operators: unknown action {other}"),
        };
        let mut auths: Vec<(Address, Inv)> = auth_names.iter().map(|n| (self.cx.addr(n), Inv::new(&ops, func, args.clone()))).collect();
        // `scoped`: principals whose authorisation entry names this entry point but carries ONLY the
        // forwarded argument list (it does not say which target or function) - it authorises nothing
        if let Some(sc) = act.get("scoped").and_then(|x| x.as_array()) {
            if name == "Execute" {
                let inner: SVec<Val> = SVec::try_from_val(&env, &args.get(3).unwrap()).unwrap();
                for n in sc {
                    auths.push((self.cx.addr(n.as_str().unwrap()), Inv::new(&ops, func, inner.clone())));
                }
            }
        }
        let r = self.cx.call_auth(&auths, &ops, func, args);
        let raw = self.cx.take_events();
        let mut ev = vec![];
        for (c, t, _d) in raw.iter() {
            if c != &self.ops {
                continue;
            }
            if let Some(n) = t.get(0).and_then(|v| sym_name(&env, &v)) {
                let who = |i: u32| t.get(i).and_then(|v| Address::try_from_val(&env, &v).ok()).map(|a| self.cx.name_of(&a)).unwrap_or("?".into());
                match n.as_str() {
                    "operator_added" | "operator_removed" => ev.push(json!({"k": n, "who": who(1)})),
                    "ownership_transferred" => ev.push(json!({"k": n, "prev": who(1), "new": who(2)})),
                    _ => ev.push(json!({"k": n})),
                }
            }
        }
        ev.extend(self.probe_delta());
        match r {
            Ok(v) => Obs { ok: true, ret: if name == "Execute" { json!(self.arg_name(&v)) } else { unit() }, ev, err: String::new() },
            Err(e) => Obs { ok: false, ret: json!("none"), ev, err: e },
        }
    }

    pub fn project(&mut self) -> J {
        let env = self.cx.env.clone();
        let ops = self.ops.clone();
        let mut m = serde_json::Map::new();
        for n in self.accts.clone() {
            let a = self.cx.addr(&n);
            let b: Option<bool> = self.cx.query(&ops, "is_operator", svec![&env, a.into_val(&env)]);
            m.insert(n, json!(b.unwrap_or(false)));
        }
        let owner: Option<Address> = self.cx.query(&ops, "owner", SVec::new(&env));
        json!({"operators": m, "owner": owner.map(|a| self.cx.name_of(&a)).unwrap_or("none".into())})
    }
}
