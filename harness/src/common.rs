//! Shared plumbing of the conformance harness: Env construction, named principals, exact
//! authorisation trees, raw (wire-level) invocation, event capture, independent Keccak.
#![allow(dead_code)]

use serde_json::{json, Value as J};
use sha3::{Digest, Keccak256};
use soroban_sdk::testutils::{Address as _, Ledger as _, MockAuthContract};
use soroban_sdk::xdr;
use soroban_sdk::{Address, Bytes, BytesN, Env, IntoVal, String as SStr, Symbol, TryFromVal, Val, Vec as SVec};
use std::collections::BTreeMap;

pub fn keccak(data: &[u8]) -> [u8; 32] {
    let mut h = Keccak256::new();
    h.update(data);
    h.finalize().into()
}

pub fn new_env() -> Env {
    let env = Env::new_with_config(soroban_sdk::testutils::EnvTestConfig {
        capture_snapshot_at_drop: false,
    });
    env.budget().reset_unlimited();
    // no debug-mode diagnostics: every host error would otherwise externalise all events and capture a backtrace
    let _ = env.host().set_diagnostic_level(Default::default());
    env
}

/// One node of an authorised invocation tree (owned).
#[derive(Clone)]
pub struct Inv {
    pub contract: Address,
    pub func: String,
    pub args: SVec<Val>,
    pub subs: Vec<Inv>,
}

impl Inv {
    pub fn new(contract: &Address, func: &str, args: SVec<Val>) -> Inv {
        Inv { contract: contract.clone(), func: func.to_string(), args, subs: vec![] }
    }
    pub fn with(mut self, sub: Inv) -> Inv {
        self.subs.push(sub);
        self
    }
    fn to_xdr(&self) -> xdr::SorobanAuthorizedInvocation {
        xdr::SorobanAuthorizedInvocation {
            function: xdr::SorobanAuthorizedFunction::ContractFn(xdr::InvokeContractArgs {
                contract_address: xdr::ScAddress::try_from(&self.contract).unwrap(),
                function_name: self.func.as_str().try_into().unwrap(),
                args: self.args.clone().try_into().unwrap(),
            }),
            sub_invocations: self
                .subs
                .iter()
                .map(|s| s.to_xdr())
                .collect::<Vec<_>>()
                .try_into()
                .unwrap(),
        }
    }
}

/// Observation of one call.
#[derive(Clone, Debug)]
pub struct Obs {
    pub ok: bool,
    pub ret: J,
    pub ev: Vec<J>,
    pub err: String,
}

pub struct Ctx {
    pub env: Env,
    pub names: BTreeMap<String, Address>,
    nonce: i64,
    ev_seen: u32,
    /// ledgers that close before every submitted call (0 = the binder controls the sequence itself).
    /// On chain every transaction lands in a later ledger; temporary entries live 16 ledgers at least, so
    /// state that was (wrongly) put into temporary storage is gone a few calls later (see `new_aging`).
    pub ledger_step: u32,
    /// `scopedAuth` / `dropArg` of the action being executed: these principals sign an entry that names the entry
    /// point but OMITS argument `dropArg` (what `require_auth_for_args` with a subset of the arguments would ask
    /// for) - it does not authorise the exact call
    pub argdrop: Option<(Vec<String>, Option<usize>, Vec<usize>)>,
    calls: u32,
}

thread_local! {
    /// long pauses (1.2 million ledgers before every sixth call) in worlds created by this thread; switched off for
    /// walks marked `"aging": "A"` (flip walks: accepted a moment ago, refused now)
    pub static LONG_PAUSES: std::cell::Cell<bool> = std::cell::Cell::new(true);
}

impl Ctx {
    pub fn new() -> Ctx {
        Ctx { env: new_env(), names: BTreeMap::new(), nonce: 1000, ev_seen: 0, ledger_step: 0, argdrop: None, calls: 0 }
    }

    /// A world in which time really passes: `step` ledgers close before every submitted call and every sixth call
    /// comes after a long pause (about 70 days of ledgers).  Persistent and instance entries are given a minimum
    /// lifetime far beyond any walk, so that only what a contract put into TEMPORARY storage (minimum lifetime 16
    /// ledgers, or whatever the contract extends it to) can lapse.
    pub fn new_aging(step: u32) -> Ctx {
        let mut cx = Ctx::new();
        cx.env.ledger().with_mut(|li| {
            li.min_temp_entry_ttl = 16;
            li.min_persistent_entry_ttl = 500_000_000;
            li.max_entry_ttl = 1_000_000_000;
        });
        cx.ledger_step = step;
        cx
    }

    /// Address of a named principal (plain generated address unless registered otherwise).
    pub fn addr(&mut self, name: &str) -> Address {
        if let Some(a) = self.names.get(name) {
            return a.clone();
        }
        let a = Address::generate(&self.env);
        self.names.insert(name.to_string(), a.clone());
        a
    }
    pub fn bind(&mut self, name: &str, a: &Address) {
        self.names.insert(name.to_string(), a.clone());
    }
    pub fn name_of(&self, a: &Address) -> String {
        for (n, x) in self.names.iter() {
            if x == a {
                return n.clone();
            }
        }
        format!("unknown:{:?}", a)
    }

    /// Install exactly these authorisations (principal, tree) for the next call.
    /// Principals must be plain addresses (a MockAuthContract is registered at each).
    pub fn install_auths(&mut self, auths: &[(Address, Inv)]) {
        let mut entries = vec![];
        let curr = self.env.ledger().sequence();
        let max_ttl = self.env.storage().max_ttl();
        for (addr, inv) in auths {
            self.env.register_at(addr, MockAuthContract, ());
            self.nonce += 1;
            entries.push(xdr::SorobanAuthorizationEntry {
                root_invocation: inv.to_xdr(),
                credentials: xdr::SorobanCredentials::Address(xdr::SorobanAddressCredentials {
                    address: addr.try_into().unwrap(),
                    nonce: self.nonce,
                    signature_expiration_ledger: curr + max_ttl,
                    signature: xdr::ScVal::Void,
                }),
            });
        }
        self.env.set_auths(&entries);
    }

    /// Raw invocation: (committed?, returned Val).
    pub fn call(&mut self, contract: &Address, func: &str, args: SVec<Val>) -> Result<Val, String> {
        let f = Symbol::new(&self.env, func);
        let r = self
            .env
            .try_invoke_contract::<Val, soroban_sdk::Error>(contract, &f, args);
        // authorisations are single use; make sure nothing leaks into the next call
        self.env.set_auths(&[]);
        match r {
            Ok(Ok(v)) => Ok(v),
            Ok(Err(_)) => Err("conversion".into()),
            Err(Ok(e)) => Err(format!("{:?}", e)),
            Err(Err(e)) => Err(format!("invoke:{:?}", e)),
        }
    }

    /// Call with exactly the given authorisations.
    pub fn call_auth(
        &mut self,
        auths: &[(Address, Inv)],
        contract: &Address,
        func: &str,
        args: SVec<Val>,
    ) -> Result<Val, String> {
        if self.ledger_step > 0 {
            self.calls += 1;
            let cur = self.env.ledger().sequence();
            let by = if self.calls % 6 == 0 && LONG_PAUSES.with(|l| l.get()) { 1_200_000 } else { self.ledger_step };
            if cur + by <= 400_000_000 {
                self.env.ledger().set_sequence_number(cur + by);
            }
        }
        let mut all: Vec<(Address, Inv)> = auths.to_vec();
        if let Some((names, drop, keep)) = self.argdrop.take() {
            let mut fewer: SVec<Val> = SVec::new(&self.env);
            match drop {
                Some(k) => {
                    for (i, v) in args.iter().enumerate() {
                        if i != k {
                            fewer.push_back(v);
                        }
                    }
                }
                None => {
                    for i in keep.iter() {
                        if let Some(v) = args.get(*i as u32) {
                            fewer.push_back(v);
                        }
                    }
                }
            }
            for n in names {
                let a = self.addr(&n);
                all.push((a, Inv::new(contract, func, fewer.clone())));
            }
        }
        self.install_auths(&all);
        self.call(contract, func, args)
    }

    /// reads `scopedAuth` / `dropArg` of an action (see `argdrop`); consumed by the next `call_auth`
    pub fn set_argdrop(&mut self, act: &J) {
        let names: Option<Vec<String>> = act.get("scopedAuth").and_then(|x| x.as_array()).map(|n| n.iter().map(|x| x.as_str().unwrap().to_string()).collect());
        self.argdrop = match (names, act.get("dropArg").and_then(|x| x.as_u64()), act.get("keepArgs").and_then(|x| x.as_array())) {
            (Some(n), Some(k), _) => Some((n, Some(k as usize), vec![])),
            (Some(n), None, Some(keep)) => Some((n, None, keep.iter().map(|x| x.as_u64().unwrap() as usize).collect())),
            _ => None,
        };
    }

    /// Read-only query helper: panics never escape (Err on failure).
    pub fn query<T: TryFromVal<Env, Val>>(&mut self, contract: &Address, func: &str, args: SVec<Val>) -> Option<T> {
        let mark = self.ev_mark();
        let r = match self.call(contract, func, args) {
            Ok(v) => T::try_from_val(&self.env, &v).ok(),
            Err(_) => None,
        };
        self.ev_reset(mark);
        r
    }

    /// Contract events emitted since the last call, WITHOUT those of calls that failed and were rolled
    /// back (the test host keeps them, flagged `failed_call`; on chain they are never published).
    fn committed_events(&self) -> (Vec<(Address, SVec<Val>, Val)>, u32) {
        let env = &self.env;
        let all = env.host().get_events().unwrap().0;
        let n = all.len() as u32;
        let mut out = vec![];
        for (i, e) in all.into_iter().enumerate() {
            if (i as u32) < self.ev_seen || e.failed_call {
                continue;
            }
            if let xdr::ContractEvent {
                type_: xdr::ContractEventType::Contract,
                contract_id: Some(contract_id),
                body: xdr::ContractEventBody::V0(xdr::ContractEventV0 { topics, data }),
                ..
            } = e.event
            {
                let addr = Address::try_from_val(env, &xdr::ScVal::Address(xdr::ScAddress::Contract(contract_id))).unwrap();
                let mut tv: SVec<Val> = SVec::new(env);
                for t in topics.iter() {
                    tv.push_back(Val::try_from_val(env, t).unwrap());
                }
                let dv = Val::try_from_val(env, &data).unwrap();
                out.push((addr, tv, dv));
            }
        }
        (out, n)
    }
    pub fn take_events(&mut self) -> Vec<(Address, SVec<Val>, Val)> {
        let (out, n) = self.committed_events();
        self.ev_seen = n;
        out
    }
    pub fn ev_mark(&self) -> u32 {
        self.ev_seen
    }
    fn ev_reset(&mut self, _mark: u32) {
        // queries must not hide events: everything up to now counts as seen
        self.ev_seen = self.env.host().get_events().unwrap().0.len() as u32;
    }

    pub fn set_time(&self, t: u64) {
        self.env.ledger().set_timestamp(t);
    }
    pub fn set_seq(&self, s: u32) {
        self.env.ledger().set_sequence_number(s);
    }

    pub fn s(&self, x: &str) -> SStr {
        SStr::from_str(&self.env, x)
    }
    pub fn bytes(&self, x: &[u8]) -> Bytes {
        Bytes::from_slice(&self.env, x)
    }
    pub fn b32(&self, x: &[u8; 32]) -> BytesN<32> {
        BytesN::from_array(&self.env, x)
    }
}

pub fn sstr_to_string(s: &SStr) -> String {
    let mut buf = vec![0u8; s.len() as usize];
    s.copy_into_slice(&mut buf);
    String::from_utf8_lossy(&buf).into_owned()
}

pub fn bytes_to_vec(b: &Bytes) -> Vec<u8> {
    let mut v = vec![0u8; b.len() as usize];
    b.copy_into_slice(&mut v);
    v
}

pub fn sym_name(env: &Env, v: &Val) -> Option<String> {
    let s = Symbol::try_from_val(env, v).ok()?;
    let sc: xdr::ScVal = xdr::ScVal::try_from_val(env, &s.to_val()).ok()?;
    match sc {
        xdr::ScVal::Symbol(s) => Some(s.to_utf8_string_lossy()),
        _ => None,
    }
}

pub fn jstr(v: &J, k: &str) -> String {
    v.get(k).and_then(|x| x.as_str()).unwrap_or_else(|| panic!("missing string field {k} in {v}")).to_string()
}
pub fn jint(v: &J, k: &str) -> i64 {
    v.get(k).and_then(|x| x.as_i64()).unwrap_or_else(|| panic!("missing int field {k} in {v}"))
}
pub fn jbool(v: &J, k: &str) -> bool {
    v.get(k).and_then(|x| x.as_bool()).unwrap_or_else(|| panic!("missing bool field {k} in {v}"))
}
pub fn jarr<'a>(v: &'a J, k: &str) -> &'a Vec<J> {
    v.get(k).and_then(|x| x.as_array()).unwrap_or_else(|| panic!("missing array field {k} in {v}"))
}
pub fn jstrs(v: &J, k: &str) -> Vec<String> {
    jarr(v, k).iter().map(|x| x.as_str().unwrap().to_string()).collect()
}

pub fn unit() -> J {
    json!("unit")
}

pub fn into_vals<T: IntoVal<Env, Val>>(env: &Env, x: T) -> Val {
    x.into_val(env)
}
