//! Binding of spec/ITS.tla to contracts/interchain-token-service (natively registered from /repo)
//! with a real gateway, gas service, Stellar asset contracts, the pinned interchain-token wasm for
//! service-deployed tokens, a metadata-forging canonical token and receiver contracts.
#![allow(dead_code)]

use crate::abi::{jbytes, own_decode, own_encode, to_jbytes};
use crate::common::*;
use crate::gas::wire::Token;
use crate::gateway::wire::Message as GwMessage;
use crate::gateway::GatewayBinder;
use crate::probe::dry::Dry;
use crate::probe::faketoken::FakeToken;
use crate::probe::receivers::AcceptingApp;
use crate::probe::erroring::ErrApp;
use crate::probe::trapping::TrappingApp;
use serde_json::{json, Value as J};
use soroban_sdk::vec as svec;
use soroban_sdk::xdr::{self, FromXdr, ToXdr};
use soroban_sdk::{Address, Bytes, BytesN, Env, IntoVal, String as SStr, Symbol, TryFromVal, Val, Vec as SVec};
use soroban_token_sdk::metadata::TokenMetadata;
use std::collections::BTreeMap;

const TOKEN_WASM: &[u8] = include_bytes!("/repo/contracts/interchain-token-service/tests/testdata/interchain_token.wasm");
const ZERO_ADDRESS: &str = "GAAAAAAAAAAAAAAAAAAAAAAAAAAAAAAAAAAAAAAAAAAAAAAAAAAAAWHF";
const HUB_ADDR: &str = "axelar1hubaddressxyz";
const NOT_HUB_ADDR: &str = "axelar1someoneelse";
const CHAIN_NAME: &str = "stellar";

pub struct ItsBinder {
    pub g: GatewayBinder, // owns the Ctx / Env (gateway deployed with one signer set "s1")
    pub inst: J,
    pub its: Address,
    pub gs: Address,
    pub gas_token: Address,
    pub dry: Address,
    pub canon: BTreeMap<String, Address>,
    pub ids: BTreeMap<String, [u8; 32]>,
    pub idcheck: String,
    pub wasm_hash: Option<BytesN<32>>,
    /// (origin chain, message id, sender bytes, data bytes) of the delivery being executed
    pub last_delivery: Option<(String, String, Vec<u8>, Vec<u8>)>,
    pub fk_meta: String,
    pub accts: Vec<String>,
    pub fresh: u32,
    pub sac_meta: Option<(Vec<u8>, Vec<u8>, u32)>,
    pub example: Address,
    pub system: bool,
    /// this deployment's own chain name (instance field `ChainName`, default "stellar")
    pub chain_name: String,
    /// two-chain instances (spec/Bridge.tla): parties on the OTHER chain, by name -> the bytes that name them there
    pub remote_parties: BTreeMap<String, Vec<u8>>,
    /// raw hub payloads this service announced, in order (taken by the bridge binding)
    pub out_raw: Vec<Vec<u8>>,
    /// raw bytes to deliver instead of the harness's own encoding of the next `Deliver`'s catalogue payload
    pub raw_next: Option<Vec<u8>>,
}

/// bytes announced by the code under test are data: parsed outside the host, so that bytes that are not the XDR of an
/// address give `None` instead of a host error
fn addr_of_xdr(env: &Env, b: &[u8]) -> Option<Address> {
    match <xdr::ScVal as xdr::ReadXdr>::from_xdr(b, xdr::Limits::none()) {
        Ok(v @ xdr::ScVal::Address(_)) => Address::try_from_val(env, &v).ok(),
        _ => None,
    }
}

fn gw_inst() -> J {
    json!({"module": "Gateway", "Sets": {"s1": {"keys": [1, 2], "weights": [1, 1], "threshold": 2, "nonce": 0}},
           "Keys": {}, "Msgs": {}, "Cap": 1000, "Retention": 1, "MinDelay": 0, "Probes": [],
           "scale": {"Q": "1", "Qt": "1", "t0": 1000000}})
}

impl ItsBinder {
    pub fn new(inst: &J, init: &J) -> ItsBinder {
        Self::new_with_gateway(inst, init, &gw_inst(), &json!({"deployed": true, "hashByEpoch": ["s1"], "owner": "gwowner", "operator": "gwop", "now": 0}), false)
    }

    /// `system`: the gateway is part of the modelled system (its own catalogue and events)
    pub fn new_with_gateway(inst: &J, init: &J, gwi: &J, gw_init: &J, system: bool) -> ItsBinder {
        let g = GatewayBinder::new(gwi, gw_init);
        let ph = g.gw.clone().unwrap();
        let mut b = ItsBinder {
            g,
            inst: inst.clone(),
            its: ph.clone(),
            gs: ph.clone(),
            gas_token: ph.clone(),
            dry: ph.clone(),
            canon: BTreeMap::new(),
            ids: BTreeMap::new(),
            idcheck: "ok".into(),
            wasm_hash: None,
            last_delivery: None,
            fk_meta: jstr(init, "fkMeta"),
            accts: { let mut a = jstrs(inst, "Accts"); a.sort(); a },
            fresh: 0,
            sac_meta: None,
            example: ph.clone(),
            system,
            chain_name: inst.get("ChainName").and_then(|x| x.as_str()).unwrap_or(CHAIN_NAME).to_string(),
            remote_parties: BTreeMap::new(),
            out_raw: vec![],
            raw_next: None,
        };
        let env = b.g.cx.env.clone();
        let gw = b.g.gw.clone().unwrap();
        let owner = b.g.cx.addr(&jstr(init, "owner"));
        let gsowner = b.g.cx.addr("gsowner");
        let collector = b.g.cx.addr("collector");
        b.gs = env.register(axelar_gas_service::AxelarGasService, (gsowner, collector));
        b.g.cx.bind("gs", &b.gs.clone());
        let wasm_hash = env.deployer().upload_contract_wasm(TOKEN_WASM);
        let gs_addr = b.gs.clone();
        let mk_its = |chain: &str| {
            env.register(
                interchain_token_service::InterchainTokenService,
                (owner.clone(), gw.clone(), gs_addr.clone(), SStr::from_str(&env, HUB_ADDR), SStr::from_str(&env, chain), wasm_hash.clone()),
            )
        };
        b.its = mk_its(&b.chain_name.clone());
        b.wasm_hash = Some(wasm_hash.clone());
        let its_other_chain = mk_its("another-chain");
        b.g.cx.bind("its", &b.its.clone());
        b.dry = env.register(Dry, ());
        b.example = env.register(example::Example, (gw.clone(), b.gs.clone()));
        b.g.cx.bind("ex", &b.example.clone());
        let app = env.register(AcceptingApp, ());
        b.g.cx.bind("app", &app);
        let trap = env.register(TrappingApp, ());
        b.g.cx.bind("trap", &trap);
        let errapp = env.register(ErrApp, ());
        b.g.cx.bind("errapp", &errapp);
        let admin = b.g.cx.addr("tokadmin");
        b.gas_token = env.register_stellar_asset_contract_v2(admin.clone()).address();
        env.mock_all_auths();
        for (who, v) in init["gas"].as_object().unwrap() {
            let amt = v.as_i64().unwrap() as i128;
            if amt > 0 {
                let to = b.g.cx.addr(who);
                env.invoke_contract::<()>(&b.gas_token, &Symbol::new(&env, "mint"), svec![&env, to.into_val(&env), amt.into_val(&env)]);
            }
        }
        for c in jstrs(inst, "Canon") {
            let addr = if c == "fk" {
                let a = env.register(FakeToken, ());
                a
            } else if c == "itk" {
                // an interchain token built from /repo's source (NOT the pinned wasm), administered by a third party
                let meta = if b.inst["Metas"].get("itkMeta").is_some() {
                    b.token_metadata("itkMeta")
                } else {
                    soroban_token_sdk::metadata::TokenMetadata { decimal: 7, name: SStr::from_str(&env, "Source Token"), symbol: SStr::from_str(&env, "SRC") }
                };
                env.register(interchain_token::InterchainToken, (admin.clone(), None::<Address>, BytesN::<32>::from_array(&env, &[9u8; 32]), meta))
            } else {
                env.register_stellar_asset_contract_v2(admin.clone()).address()
            };
            b.g.cx.bind(&c, &addr);
            b.canon.insert(c.clone(), addr.clone());
            for (who, v) in init["bal"][&c].as_object().unwrap() {
                let amt = v.as_i64().unwrap() as i128;
                if amt > 0 {
                    let to = b.g.cx.addr(who);
                    env.invoke_contract::<()>(&addr, &Symbol::new(&env, "mint"), svec![&env, to.into_val(&env), amt.into_val(&env)]);
                }
            }
        }
        for (c, v) in init["trusted"].as_object().unwrap() {
            if v.as_bool().unwrap() {
                env.invoke_contract::<()>(&b.its, &Symbol::new(&env, "set_trusted_chain"), svec![&env, SStr::from_str(&env, c).into_val(&env)]);
            }
        }
        env.set_auths(&[]);
        for a in b.accts.clone() {
            b.g.cx.addr(&a);
        }
        if let Some(sac) = b.canon.get("sac").cloned() {
            let sb = |x: Option<SStr>| -> Vec<u8> { x.map(|s| { let mut v = vec![0u8; s.len() as usize]; s.copy_into_slice(&mut v); v }).unwrap_or_default() };
            let n: Option<SStr> = b.g.cx.query(&sac, "name", SVec::new(&env));
            let s: Option<SStr> = b.g.cx.query(&sac, "symbol", SVec::new(&env));
            let d: Option<u32> = b.g.cx.query(&sac, "decimals", SVec::new(&env));
            b.sac_meta = Some((sb(n), sb(s), d.unwrap_or(7)));
        }
        b.apply_fk_meta();
        // token id table: what the contract derives for every abstract id
        let mut problems: Vec<String> = vec![];
        let idof = inst["IdOf"].clone();
        for (d, m) in idof.as_object().unwrap() {
            for (s, idn) in m.as_object().unwrap() {
                let da = b.g.cx.addr(d);
                let first = b.derive_id(&b.its.clone(), Some((&da, &b.salt(s))), None);
                let again = b.derive_id(&b.its.clone(), Some((&da, &b.salt(s))), None);
                let other = b.derive_id(&its_other_chain, Some((&da, &b.salt(s))), None);
                if first != again {
                    problems.push(format!("{} not deterministic", idn));
                }
                if first == other {
                    problems.push(format!("{} does not depend on the chain name", idn));
                }
                // the id view is domain-separated by its `sender` argument as well (the service itself uses the zero
                // address): another sender with the same deploy salt must get another id
                let its_addr = b.its.clone();
                let dsalt: Option<BytesN<32>> = b.g.cx.query(&its_addr, "interchain_token_deploy_salt", svec![&env, da.into_val(&env), b.salt(s).into_val(&env)]);
                if let Some(dsalt) = dsalt {
                    let stranger = b.g.cx.addr("idview_stranger");
                    let v1: Option<BytesN<32>> = b.g.cx.query(&its_addr, "interchain_token_id", svec![&env, da.into_val(&env), dsalt.into_val(&env)]);
                    let v2: Option<BytesN<32>> = b.g.cx.query(&its_addr, "interchain_token_id", svec![&env, stranger.into_val(&env), dsalt.into_val(&env)]);
                    let (v1, v2) = (v1.map(|x| x.to_array()), v2.map(|x| x.to_array()));
                    if v1 == Some(first) || v2 == Some(first) || v1 == v2 {
                        problems.push(format!("{} : the id view ignores its sender argument", idn));
                    }
                }
                b.ids.insert(idn.as_str().unwrap().to_string(), first);
            }
        }
        for (t, idn) in inst["IdCOf"].as_object().cloned().unwrap_or_default().iter() {
            let ta = b.canon[t].clone();
            let first = b.derive_id(&b.its.clone(), None, Some(&ta));
            let other = b.derive_id(&its_other_chain, None, Some(&ta));
            if first == other {
                problems.push(format!("{} does not depend on the chain name", idn));
            }
            b.ids.insert(idn.as_str().unwrap().to_string(), first);
        }
        for (i, r) in jstrs(inst, "RemoteIds").iter().enumerate() {
            let mut x = [0xA0u8; 32];
            x[31] = i as u8;
            b.ids.insert(r.clone(), x);
        }
        let vals: Vec<&[u8; 32]> = b.ids.values().collect();
        for i in 0..vals.len() {
            for j in 0..i {
                if vals[i] == vals[j] {
                    problems.push("two distinct abstract ids collide".into());
                }
            }
        }
        if !problems.is_empty() {
            b.idcheck = problems.join("; ");
        }
        if system {
            b.g.src_override.insert("hub".into(), HUB_ADDR.into());
            b.g.src_override.insert("nothub".into(), NOT_HUB_ADDR.into());
            let pnames: Vec<String> = inst["Payloads"].as_object().unwrap().keys().cloned().collect();
            for pn in pnames {
                let bytes = b.payload_bytes(&pn);
                b.g.payload_override.insert(pn, bytes);
            }
        }
        b.g.cx.take_events();
        b
    }

    fn salt(&self, s: &str) -> BytesN<32> {
        let mut x = [0x55u8; 32];
        for (i, c) in s.bytes().enumerate() {
            x[i] = c;
        }
        BytesN::from_array(&self.g.cx.env, &x)
    }

    fn derive_id(&mut self, its: &Address, ds: Option<(&Address, &BytesN<32>)>, canon: Option<&Address>) -> [u8; 32] {
        let env = self.g.cx.env.clone();
        let zero = Address::from_string(&SStr::from_str(&env, ZERO_ADDRESS));
        let salt: Option<BytesN<32>> = match (ds, canon) {
            (Some((d, s)), _) => self.g.cx.query(its, "interchain_token_deploy_salt", svec![&env, d.into_val(&env), s.into_val(&env)]),
            (_, Some(t)) => self.g.cx.query(its, "canonical_token_deploy_salt", svec![&env, t.into_val(&env)]),
            _ => None,
        };
        let salt = salt.expect("deploy salt query failed");
        let id: Option<BytesN<32>> = self.g.cx.query(its, "interchain_token_id", svec![&env, zero.into_val(&env), salt.into_val(&env)]);
        id.expect("token id query failed").to_array()
    }

    fn id_name(&self, b: &[u8]) -> String {
        self.ids.iter().find(|(_, v)| &v[..] == b).map(|(n, _)| n.clone()).unwrap_or("UnknownId".into())
    }
    fn id_bytes(&self, name: &str) -> BytesN<32> {
        BytesN::from_array(&self.g.cx.env, &self.ids[name])
    }

    // ---- metadata catalogue -------------------------------------------------------------
    fn meta_text(style: &str, len: usize, sym: bool) -> Vec<u8> {
        let base: String = match style {
            "mb" => "T\u{00f6}k\u{00e9}n \u{4e2d}\u{6587} \u{1F600} coin".chars().cycle().take(len).collect(),
            "asset" => {
                if sym { "USDC".chars().cycle().take(len).collect() } else { "USDC:GA5ZSEJYB37JRC5AVCIA5MOP4RHTM335X2KGX3IHOJAPP5RE34K4KZVN".chars().cycle().take(len).collect() }
            }
            // text that ends in NUL bytes (zero-padded asset codes), and a symbol made of NUL bytes only
            "nulpad" => {
                let keep = if sym { len.saturating_sub(1) } else { len.saturating_sub(3) };
                let mut t: String = "US Dollar Coin".chars().cycle().take(keep).collect();
                while t.len() < len {
                    t.push('\0');
                }
                t
            }
            "nulsym" => {
                if sym { std::iter::repeat('\0').take(len).collect() } else { "Zero Symbol Token".chars().cycle().take(len).collect() }
            }
            _ => "InterchainTokenNameABCDEFGHIJKLMNOPQRSTUVWXYZ".chars().cycle().take(len).collect(),
        };
        base.into_bytes()
    }
    fn meta_concrete(&self, m: &str) -> (Vec<u8>, Vec<u8>, u32) {
        let e = &self.inst["Metas"][m];
        if e["style"] == json!("sac") {
            // whatever the real Stellar asset contract reports (read once at set-up)
            return self.sac_meta.clone().unwrap_or((b"sac?".to_vec(), b"sac?".to_vec(), 7));
        }
        let style = e["style"].as_str().unwrap_or("ascii");
        let mut name = Self::meta_text(style, e["nameLen"].as_u64().unwrap() as usize, false);
        let sym = Self::meta_text(style, e["symLen"].as_u64().unwrap() as usize, true);
        if !e["utf8"].as_bool().unwrap_or(true) && !name.is_empty() {
            name[0] = 0xff;
        }
        (name, sym, e["decimals"].as_u64().unwrap() as u32)
    }
    fn meta_name(&self, name: &[u8], sym: &[u8], dec: u32) -> String {
        for k in self.inst["Metas"].as_object().unwrap().keys() {
            let (n, s, d) = self.meta_concrete(k);
            if n == name && s == sym && d == dec {
                return k.clone();
            }
        }
        "UnknownMeta".into()
    }
    fn token_metadata(&self, m: &str) -> TokenMetadata {
        let env = &self.g.cx.env;
        let (n, s, d) = self.meta_concrete(m);
        TokenMetadata { decimal: d, name: SStr::from_bytes(env, &n), symbol: SStr::from_bytes(env, &s) }
    }
    fn apply_fk_meta(&mut self) {
        if let Some(fk) = self.canon.get("fk").cloned() {
            let env = self.g.cx.env.clone();
            let (n, s, d) = self.meta_concrete(&self.fk_meta.clone());
            let args: SVec<Val> = svec![&env, SStr::from_bytes(&env, &n).into_val(&env), SStr::from_bytes(&env, &s).into_val(&env), d.into_val(&env)];
            let _ = self.g.cx.call_auth(&[], &fk, "set_meta", args);
            self.g.cx.take_events();
        }
    }

    // ---- payloads ---------------------------------------------------------------------------
    pub fn addr_xdr(&mut self, who: &str) -> Vec<u8> {
        let a = self.g.cx.addr(who);
        bytes_to_vec(&a.to_xdr(&self.g.cx.env))
    }
    fn garbage(&self, kind: &str) -> Vec<u8> {
        let env = &self.g.cx.env;
        if kind == "garbageRaw" {
            vec![1u8; 32]
        } else {
            // well-formed XDR of something that is not an address (a 20-byte EVM style value)
            bytes_to_vec(&Bytes::from_slice(env, &[0xEE; 20]).to_xdr(env))
        }
    }
    fn party_bytes(&mut self, who: &str) -> Vec<u8> {
        match who {
            "none" => vec![],
            "garbage" | "garbageRaw" => self.garbage(who),
            w if w.starts_with("evm") => w.bytes().chain(std::iter::repeat(0x11)).take(20).collect(),
            w => self.addr_xdr(w),
        }
    }
    fn data_bytes(d: &str) -> Vec<u8> {
        if d == "none" {
            vec![]
        } else if d.starts_with('b') && d[1..].parse::<usize>().is_ok() {
            // "b<n>": exactly n bytes (1, 31, 32, 33, ...)
            (0..d[1..].parse::<usize>().unwrap()).map(|i| (i * 7 + 0x5A) as u8).collect()
        } else {
            d.bytes().chain([0xDA, 0x7A]).collect()
        }
    }
    /// concrete payload bytes of an abstract payload catalogue entry
    pub fn payload_bytes(&mut self, pname: &str) -> Vec<u8> {
        let p = self.inst["Payloads"][pname].clone();
        if p["outer"] == json!("short") {
            return vec![1u8; 16];
        }
        let amount16 = |n: i64| -> Vec<u8> { (n as i128).to_be_bytes().to_vec() };
        let mut m = json!({"outer": p["outer"], "chain": to_jbytes(p["origin"].as_str().unwrap().as_bytes()),
                           "tokenId": to_jbytes(&self.ids[p["id"].as_str().unwrap()])});
        if p["inner"] == json!("transfer") {
            m["inner"] = json!("transfer");
            m["src"] = to_jbytes(&self.party_bytes(p["sender"].as_str().unwrap()));
            m["dst"] = to_jbytes(&self.party_bytes(p["recipient"].as_str().unwrap()));
            m["amount"] = to_jbytes(&amount16(p["amt"].as_i64().unwrap()));
            m["data"] = to_jbytes(&Self::data_bytes(p["data"].as_str().unwrap()));
        } else {
            let (n, s, d) = self.meta_concrete(p["meta"].as_str().unwrap());
            m["inner"] = json!("deploy");
            m["name"] = to_jbytes(&n);
            m["symbol"] = to_jbytes(&s);
            m["decimals"] = json!(d);
            m["minter"] = to_jbytes(&self.party_bytes(p["minter"].as_str().unwrap()));
        }
        let mut b = own_encode(&m);
        let mu = &p["mut"];
        if mu.is_object() {
            let inner_start = u32::from_be_bytes([b[92], b[93], b[94], b[95]]) as usize + 32;
            match mu["kind"].as_str().unwrap() {
                "none" => {}
                "trunc" => b.truncate(b.len() - mu["n"].as_u64().unwrap() as usize),
                "extend" => b.extend(std::iter::repeat(0u8).take(mu["n"].as_u64().unwrap() as usize)),
                "setinner" => {
                    let off = inner_start + mu["off"].as_u64().unwrap() as usize;
                    for (i, x) in jbytes(&mu["bytes"]).iter().enumerate() {
                        b[off + i] = *x;
                    }
                }
                "setouter" => {
                    let off = mu["off"].as_u64().unwrap() as usize;
                    for (i, x) in jbytes(&mu["bytes"]).iter().enumerate() {
                        b[off + i] = *x;
                    }
                }
                k => panic!("payload mutation {k}"),
            }
        }
        b
    }

    /// abstract view of an announced hub payload
    fn abstract_msg(&mut self, payload: &[u8]) -> (String, J) {
        let m = match own_decode(payload) {
            Some(m) => m,
            None => return ("undecodable".into(), json!("undecodable")),
        };
        if m["outer"] != json!("send") {
            return ("notsend".into(), json!("not_send_to_hub"));
        }
        let dest = String::from_utf8_lossy(&jbytes(&m["chain"])).into_owned();
        let id = self.id_name(&jbytes(&m["tokenId"]));
        if m["inner"] == json!("transfer") {
            let env = self.g.cx.env.clone();
            let sender = addr_of_xdr(&env, &jbytes(&m["src"])).map(|a| self.g.cx.name_of(&a)).unwrap_or("BadSender".into());
            let a = jbytes(&m["amount"]);
            let mut buf = [0u8; 16];
            buf.copy_from_slice(&a);
            let amt = i128::from_be_bytes(buf);
            let data = jbytes(&m["data"]);
            let dname = if data.is_empty() { "none".to_string() } else { ["d1", "d2", "b1", "b2", "b31", "b32", "b33"].iter().find(|d| Self::data_bytes(d) == data).map(|s| s.to_string()).unwrap_or("BadData".into()) };
            let dst = jbytes(&m["dst"]);
            (dest, json!({"inner": "transfer", "id": id, "sender": sender, "destAddr": self.remote_parties.iter().find(|(_, b)| **b == dst).map(|(n, _)| n.clone()).unwrap_or(String::from_utf8_lossy(&dst).into_owned()), "amt": amt as i64, "data": dname}))
        } else {
            let meta = self.meta_name(&jbytes(&m["name"]), &jbytes(&m["symbol"]), m["decimals"].as_u64().unwrap() as u32);
            let minter = if jbytes(&m["minter"]).is_empty() { "none" } else { "some" };
            (dest, json!({"inner": "deploy", "id": id, "meta": meta, "minter": minter}))
        }
    }

    fn delivery_message(&mut self, dn: &str) -> (GwMessage, Bytes) {
        let d = self.inst["Deliveries"][dn].clone();
        let env = self.g.cx.env.clone();
        let payload = self.payload_bytes(d["payload"].as_str().unwrap());
        let dest = match d["dest"].as_str().unwrap() {
            "its" => self.its.clone(),
            o => self.g.cx.addr(o),
        };
        let src_addr = if d["srcAddr"] == json!("hub") { HUB_ADDR } else { NOT_HUB_ADDR };
        (
            GwMessage {
                source_chain: SStr::from_str(&env, d["srcChain"].as_str().unwrap()),
                message_id: SStr::from_str(&env, Self::msg_id_of_key(d["key"].as_str().unwrap())),
                source_address: SStr::from_str(&env, src_addr),
                contract_address: dest,
                payload_hash: BytesN::from_array(&env, &keccak(&payload)),
            },
            Bytes::from_slice(&env, &payload),
        )
    }

    // ---- events ---------------------------------------------------------------------------------
    fn decode_events(&mut self, raw: Vec<(Address, SVec<Val>, Val)>) -> Vec<J> {
        let env = self.g.cx.env.clone();
        let gw = self.g.gw.clone().unwrap();
        let mut out = vec![];
        for (c, t, d) in raw.iter() {
            let name = match t.get(0).and_then(|v| sym_name(&env, &v)) {
                Some(n) => n,
                None => continue,
            };
            if self.system && c == &gw && name != "contract_called" {
                if let Some(e) = self.g.decode_event(c, t, d) {
                    out.push(e);
                }
                continue;
            }
            if c == &gw && name == "contract_called" && t.get(1).and_then(|v| Address::try_from_val(&env, &v).ok()).as_ref() == Some(&self.example) {
                out.push(json!({"k": "app_called", "app": "ex"}));
            } else if c == &gw && name == "contract_called" {
                let caller = t.get(1).and_then(|v| Address::try_from_val(&env, &v).ok());
                let chain = t.get(2).and_then(|v| SStr::try_from_val(&env, &v).ok()).map(|s| sstr_to_string(&s)).unwrap_or_default();
                let addr = t.get(3).and_then(|v| SStr::try_from_val(&env, &v).ok()).map(|s| sstr_to_string(&s)).unwrap_or_default();
                let ph = t.get(4).and_then(|v| BytesN::<32>::try_from_val(&env, &v).ok()).map(|b| b.to_array());
                let payload = Bytes::try_from_val(&env, d).map(|b| bytes_to_vec(&b)).unwrap_or_default();
                self.out_raw.push(payload.clone());
                let (dest, msg) = self.abstract_msg(&payload);
                let envelope_ok = caller.as_ref() == Some(&self.its) && chain == "axelar" && addr == HUB_ADDR && ph == Some(keccak(&payload));
                out.push(json!({"k": "contract_called", "dest": if envelope_ok { dest } else { "BadEnvelope".into() }, "msg": msg}));
            } else if c == &gw && name == "message_executed" {
                if let Some(m) = t.get(1).and_then(|v| GwMessage::try_from_val(&env, &v).ok()) {
                    let k = sstr_to_string(&m.message_id);
                    let k = self.key_of(&sstr_to_string(&m.source_chain), &k);
                    out.push(json!({"k": "delivery_executed", "key": if k.starts_with("fresh-") { "fresh".to_string() } else { k }}));
                }
            } else if c == &self.gs && name == "gas_paid" {
                let spender = t.get(5).and_then(|v| Address::try_from_val(&env, &v).ok()).map(|a| self.g.cx.name_of(&a)).unwrap_or("?".into());
                let tok = t.get(6).and_then(|v| Token::try_from_val(&env, &v).ok());
                let sender = t.get(1).and_then(|v| Address::try_from_val(&env, &v).ok());
                let sender_ok = sender.as_ref() == Some(&self.its) || sender.as_ref() == Some(&self.example);
                let amt = tok.as_ref().map(|x| x.amount as i64).unwrap_or(-999);
                let tok_ok = tok.map(|x| x.address == self.gas_token).unwrap_or(false);
                out.push(json!({"k": "gas_paid", "spender": if sender_ok && tok_ok { spender } else { "BadGasEvent".into() }, "amt": amt}));
            } else if c == &self.its {
                match name.as_str() {
                    "interchain_transfer_received" => {
                        let origin = t.get(1).and_then(|v| SStr::try_from_val(&env, &v).ok()).map(|s| sstr_to_string(&s)).unwrap_or_default();
                        let id = t.get(2).and_then(|v| BytesN::<32>::try_from_val(&env, &v).ok()).map(|b| self.id_name(&b.to_array())).unwrap_or_default();
                        let rcpt = t.get(4).and_then(|v| Address::try_from_val(&env, &v).ok()).map(|a| self.g.cx.name_of(&a)).unwrap_or_default();
                        let amt = t.get(5).and_then(|v| i128::try_from_val(&env, &v).ok()).unwrap_or(-999);
                        out.push(json!({"k": "transfer_received", "origin": origin, "id": id, "recipient": rcpt, "amt": amt as i64}));
                    }
                    "trusted_chain_set" | "trusted_chain_removed" => {
                        let chain = t.get(1).and_then(|v| SStr::try_from_val(&env, &v).ok()).map(|s| sstr_to_string(&s)).unwrap_or_default();
                        out.push(json!({"k": name, "chain": chain}));
                    }
                    "interchain_token_id_claimed" => {
                        let id = t.get(1).and_then(|v| BytesN::<32>::try_from_val(&env, &v).ok()).map(|b| self.id_name(&b.to_array())).unwrap_or_default();
                        out.push(json!({"k": "token_id_claimed", "id": id}));
                    }
                    "ownership_transferred" => {
                        let who = |i: u32| t.get(i).and_then(|v| Address::try_from_val(&env, &v).ok()).map(|a| self.g.cx.name_of(&a)).unwrap_or("?".into());
                        out.push(json!({"k": name, "prev": who(1), "new": who(2)}));
                    }
                    _ => out.push(json!({"k": name})),
                }
            } else if name == "token_executed" {
                let idb = t.get(1).and_then(|v| BytesN::<32>::try_from_val(&env, &v).ok());
                let id = idb.as_ref().map(|b| self.id_name(&b.to_array())).unwrap_or_default();
                let full = <(i128, SStr, SStr, Bytes, Bytes, Address)>::try_from_val(&env, d).ok();
                let amt = full.as_ref().map(|x| x.0).unwrap_or(-999);
                let mut e = json!({"k": "token_executed", "app": self.g.cx.name_of(c), "id": id, "amt": amt as i64});
                // the arguments handed to the application must be the delivered ones: origin chain, message id, sender,
                // data, and the address of the token that was actually credited
                let mut bad: Vec<&str> = vec![];
                match (&full, self.last_delivery.clone()) {
                    (Some((_, ch, mid, src, data, tok)), Some((xch, xmid, xsrc, xdata))) => {
                        if sstr_to_string(ch) != xch { bad.push("source_chain"); }
                        if sstr_to_string(mid) != xmid { bad.push("message_id"); }
                        if bytes_to_vec(src) != xsrc { bad.push("source_address"); }
                        if bytes_to_vec(data) != xdata { bad.push("payload"); }
                        let its = self.its.clone();
                        let reg: Option<Address> = idb.as_ref().and_then(|b| self.g.cx.query(&its, "token_address", svec![&env, b.into_val(&env)]));
                        if reg.as_ref() != Some(tok) { bad.push("token_address"); }
                    }
                    _ => bad.push("unreadable"),
                }
                if !bad.is_empty() {
                    e["bad_args"] = json!(bad);
                }
                out.push(e);
            }
        }
        out
    }

    fn finish(&mut self, r: Result<Val, String>, ret: J) -> Obs {
        let raw = self.g.cx.take_events();
        let ev = self.decode_events(raw);
        match r {
            Ok(_) => Obs { ok: true, ret, ev, err: String::new() },
            Err(e) => Obs { ok: false, ret: json!("none"), ev, err: e },
        }
    }

    fn auth_names(act: &J) -> Vec<String> {
        act.get("auth").and_then(|x| x.as_array()).map(|a| a.iter().map(|n| n.as_str().unwrap().to_string()).collect()).unwrap_or_default()
    }

    /// Dry run (everything authorised, rolled back): learn what the call announces and moves, so that
    /// the real run can carry exact authorisation trees for whatever the contract actually does.
    fn dry_run(&mut self, func: &str, args: &SVec<Val>) -> (Option<Vec<u8>>, Option<i128>, Option<(Symbol, i128)>) {
        let env = self.g.cx.env.clone();
        let before = env.host().get_events().unwrap().0.len();
        env.mock_all_auths_allowing_non_root_auth();
        let dargs: SVec<Val> = svec![&env, self.its.into_val(&env), Symbol::new(&env, func).into_val(&env), args.into_val(&env)];
        let _ = self.g.cx.call(&self.dry.clone(), "run", dargs);
        let all = env.host().get_events().unwrap().0;
        let gw = self.g.gw.clone().unwrap();
        let (mut payload, mut gas_amt, mut take) = (None, None, None);
        for e in all.into_iter().skip(before) {
            if let xdr::ContractEvent { type_: xdr::ContractEventType::Contract, contract_id: Some(cid), body: xdr::ContractEventBody::V0(xdr::ContractEventV0 { topics, data }), .. } = e.event {
                let addr = Address::try_from_val(&env, &xdr::ScVal::Address(xdr::ScAddress::Contract(cid))).unwrap();
                let name = topics.first().and_then(|t| if let xdr::ScVal::Symbol(s) = t { Some(s.to_utf8_string_lossy()) } else { None }).unwrap_or_default();
                let dv = Val::try_from_val(&env, &data).unwrap();
                if addr == gw && name == "contract_called" {
                    payload = Bytes::try_from_val(&env, &dv).ok().map(|b| bytes_to_vec(&b));
                } else if addr == self.gas_token && name == "transfer" {
                    gas_amt = i128::try_from_val(&env, &dv).ok();
                } else if addr != self.gas_token && (name == "burn" || name == "transfer") && take.is_none() {
                    if let Ok(a) = i128::try_from_val(&env, &dv) {
                        take = Some((Symbol::new(&env, &name), a));
                    }
                }
            }
        }
        self.g.cx.take_events();
        (payload, gas_amt, take)
    }

    fn pay_gas_inv(&mut self, spender: &Address, payload: &[u8], gas_amt: i128) -> Inv {
        let env = self.g.cx.env.clone();
        let token = Token { address: self.gas_token.clone(), amount: gas_amt };
        let args: SVec<Val> = svec![&env, self.its.into_val(&env), SStr::from_str(&env, "axelar").into_val(&env), SStr::from_str(&env, HUB_ADDR).into_val(&env),
            Bytes::from_slice(&env, payload).into_val(&env), spender.into_val(&env), token.into_val(&env), Bytes::new(&env).into_val(&env)];
        let sub: SVec<Val> = svec![&env, spender.into_val(&env), self.gs.into_val(&env), gas_amt.into_val(&env)];
        Inv::new(&self.gs.clone(), "pay_gas", args).with(Inv::new(&self.gas_token.clone(), "transfer", sub))
    }

    fn gas_token_val(&self, amt: i64) -> Token {
        Token { address: self.gas_token.clone(), amount: amt as i128 }
    }

    pub fn exec(&mut self, act: &J) -> Obs {
        self.g.cx.set_argdrop(act);
        let env = self.g.cx.env.clone();
        let name = jstr(act, "name");
        let its = self.its.clone();
        let auth = Self::auth_names(act);
        match name.as_str() {
            "SetTrusted" | "RemoveTrusted" => {
                let f: &'static str = if name == "SetTrusted" { "set_trusted_chain" } else { "remove_trusted_chain" };
                let args: SVec<Val> = svec![&env, SStr::from_str(&env, act["chain"].as_str().unwrap()).into_val(&env)];
                let auths: Vec<(Address, Inv)> = auth.iter().map(|n| (self.g.cx.addr(n), Inv::new(&its, f, args.clone()))).collect();
                let r = self.g.cx.call_auth(&auths, &its, f, args);
                self.finish(r, unit())
            }
            "TransferOwnership" => {
                let n = self.g.cx.addr(act["new"].as_str().unwrap());
                let args: SVec<Val> = svec![&env, n.into_val(&env)];
                let auths: Vec<(Address, Inv)> = auth.iter().map(|n| (self.g.cx.addr(n), Inv::new(&its, "transfer_ownership", args.clone()))).collect();
                let r = self.g.cx.call_auth(&auths, &its, "transfer_ownership", args);
                self.finish(r, unit())
            }
            "DeployInterchainToken" => {
                let caller = self.g.cx.addr(act["caller"].as_str().unwrap());
                let salt = self.salt(act["salt"].as_str().unwrap());
                let meta = self.token_metadata(act["meta"].as_str().unwrap());
                let supply = act["supply"].as_i64().unwrap() as i128;
                let minter: Option<Address> = match act["minter"].as_str().unwrap() {
                    "none" => None,
                    m => Some(self.g.cx.addr(m)),
                };
                let args: SVec<Val> = svec![&env, caller.into_val(&env), salt.into_val(&env), meta.into_val(&env), supply.into_val(&env), minter.into_val(&env)];
                let auths: Vec<(Address, Inv)> = auth.iter().map(|n| (self.g.cx.addr(n), Inv::new(&its, "deploy_interchain_token", args.clone()))).collect();
                let r = self.g.cx.call_auth(&auths, &its, "deploy_interchain_token", args);
                let ret = match &r {
                    Ok(v) => BytesN::<32>::try_from_val(&env, v).map(|b| json!(self.id_name(&b.to_array()))).unwrap_or(json!("badret")),
                    Err(_) => json!("none"),
                };
                self.finish(r, ret)
            }
            "RegisterCanonical" => {
                let tok = self.canon[act["tok"].as_str().unwrap()].clone();
                let args: SVec<Val> = svec![&env, tok.into_val(&env)];
                let r = self.g.cx.call_auth(&[], &its, "register_canonical_token", args);
                let ret = match &r {
                    Ok(v) => BytesN::<32>::try_from_val(&env, v).map(|b| json!(self.id_name(&b.to_array()))).unwrap_or(json!("badret")),
                    Err(_) => json!("none"),
                };
                self.finish(r, ret)
            }
            "DeployRemoteInterchainToken" | "DeployRemoteCanonical" => {
                let dest = SStr::from_str(&env, act["dest"].as_str().unwrap());
                let gas = self.gas_token_val(act["gas"].as_i64().unwrap());
                let (func, args, payer): (&'static str, SVec<Val>, Address) = if name == "DeployRemoteInterchainToken" {
                    let caller = self.g.cx.addr(act["caller"].as_str().unwrap());
                    let salt = self.salt(act["salt"].as_str().unwrap());
                    ("deploy_remote_interchain_token", svec![&env, caller.into_val(&env), salt.into_val(&env), dest.into_val(&env), gas.into_val(&env)], caller)
                } else {
                    let tok = self.canon[act["tok"].as_str().unwrap()].clone();
                    let spender = self.g.cx.addr(act["spender"].as_str().unwrap());
                    ("deploy_remote_canonical_token", svec![&env, tok.into_val(&env), dest.into_val(&env), spender.into_val(&env), gas.into_val(&env)], spender)
                };
                let (payload, gas_amt, _) = self.dry_run(func, &args);
                let payload = payload.unwrap_or_default();
                let gas_amt = gas_amt.unwrap_or(act["gas"].as_i64().unwrap() as i128);
                let mut auths: Vec<(Address, Inv)> = vec![];
                for n in auth.iter() {
                    let a = self.g.cx.addr(n);
                    let pg = self.pay_gas_inv(&payer, &payload, gas_amt);
                    if name == "DeployRemoteInterchainToken" {
                        auths.push((a, Inv::new(&its, func, args.clone()).with(pg)));
                    } else {
                        auths.push((a, pg));
                    }
                }
                for n in Self::scoped(act) {
                    let a = self.g.cx.addr(&n);
                    auths.push((a, self.pay_gas_inv(&payer, &payload, gas_amt)));
                }
                let r = self.g.cx.call_auth(&auths, &its, func, args);
                let ret = match &r {
                    Ok(v) => BytesN::<32>::try_from_val(&env, v).map(|b| json!(self.id_name(&b.to_array()))).unwrap_or(json!("badret")),
                    Err(_) => json!("none"),
                };
                self.finish(r, ret)
            }
            "InterchainTransfer" => {
                let caller = self.g.cx.addr(act["caller"].as_str().unwrap());
                let idn = act["id"].as_str().unwrap();
                let id = self.id_bytes(idn);
                let dest = SStr::from_str(&env, act["dest"].as_str().unwrap());
                let dst = match self.remote_parties.get(act["destAddr"].as_str().unwrap()) {
                    Some(b) => Bytes::from_slice(&env, b),
                    None => Bytes::from_slice(&env, act["destAddr"].as_str().unwrap().as_bytes()),
                };
                let amt = act["amt"].as_i64().unwrap() as i128;
                let data: Option<Bytes> = match act["data"].as_str().unwrap() {
                    "none" => None,
                    d => Some(Bytes::from_slice(&env, &Self::data_bytes(d))),
                };
                let gas = self.gas_token_val(act["gas"].as_i64().unwrap());
                let args: SVec<Val> = svec![&env, caller.into_val(&env), id.into_val(&env), dest.into_val(&env), dst.into_val(&env), amt.into_val(&env), data.into_val(&env), gas.into_val(&env)];
                let (payload, gas_amt, take) = self.dry_run("interchain_transfer", &args);
                let payload = payload.unwrap_or_default();
                let gas_amt = gas_amt.unwrap_or(act["gas"].as_i64().unwrap() as i128);
                // the token the service will touch (if the id is registered)
                let tok_addr: Option<Address> = self.g.cx.query(&its, "token_address", svec![&env, id.into_val(&env)]);
                let mut auths: Vec<(Address, Inv)> = vec![];
                for n in auth.iter() {
                    let a = self.g.cx.addr(n);
                    let mut root = Inv::new(&its, "interchain_transfer", args.clone());
                    if let Some(t) = tok_addr.clone() {
                        let (kind, tamt) = take.clone().map(|(k, x)| (sym_name(&env, &k.to_val()).unwrap_or_default(), x)).unwrap_or(("burn".into(), amt));
                        if kind == "burn" {
                            root = root.with(Inv::new(&t, "burn", svec![&env, caller.into_val(&env), tamt.into_val(&env)]));
                        } else {
                            root = root.with(Inv::new(&t, "transfer", svec![&env, caller.into_val(&env), its.into_val(&env), tamt.into_val(&env)]));
                        }
                    }
                    root = root.with(self.pay_gas_inv(&caller, &payload, gas_amt));
                    auths.push((a, root));
                }
                // `scoped`: principals who signed only the sub-invocations (taking the token, paying the gas) as
                // separate entries, not this service call
                for n in Self::scoped(act) {
                    let a = self.g.cx.addr(&n);
                    if let Some(t) = tok_addr.clone() {
                        let (kind, tamt) = take.clone().map(|(k, x)| (sym_name(&env, &k.to_val()).unwrap_or_default(), x)).unwrap_or(("burn".into(), amt));
                        if kind == "burn" {
                            auths.push((a.clone(), Inv::new(&t, "burn", svec![&env, caller.into_val(&env), tamt.into_val(&env)])));
                        } else {
                            auths.push((a.clone(), Inv::new(&t, "transfer", svec![&env, caller.into_val(&env), its.into_val(&env), tamt.into_val(&env)])));
                        }
                    }
                    auths.push((a, self.pay_gas_inv(&caller, &payload, gas_amt)));
                }
                let r = self.g.cx.call_auth(&auths, &its, "interchain_transfer", args);
                self.finish(r, unit())
            }
            "ApproveDelivery" => {
                let (m, _) = self.delivery_message(act["d"].as_str().unwrap());
                let r = self.g.approve_raw("s1", svec![&env, m]);
                // the approval itself is the gateway's business (C01/C02); only its effect matters here
                let _ = self.g.cx.take_events();
                match r {
                    Ok(_) => Obs { ok: true, ret: unit(), ev: vec![], err: String::new() },
                    Err(e) => Obs { ok: false, ret: json!("none"), ev: vec![], err: e },
                }
            }
            "Execute" => {
                let (m, payload) = self.delivery_message(act["d"].as_str().unwrap());
                let pname = self.inst["Deliveries"][act["d"].as_str().unwrap()]["payload"].as_str().unwrap().to_string();
                self.note_delivery(&pname, &sstr_to_string(&m.message_id));
                let args: SVec<Val> = svec![&env, m.source_chain.into_val(&env), m.message_id.into_val(&env), m.source_address.into_val(&env), payload.into_val(&env)];
                let r = self.g.cx.call_auth(&[], &its, "execute", args);
                self.finish(r, unit())
            }
            "Deliver" => {
                // a hub delivery under a fresh message id: approved for the service, then executed
                self.fresh += 1;
                let payload = match self.raw_next.take() {
                    Some(raw) => raw,
                    None => self.payload_bytes(act["payload"].as_str().unwrap()),
                };
                let mid = SStr::from_str(&env, &format!("fresh-{}", self.fresh));
                let src_chain = act.get("srcChain").and_then(|x| x.as_str()).unwrap_or("axelar");
                let src_addr = if act.get("srcAddr").and_then(|x| x.as_str()).unwrap_or("hub") == "hub" { HUB_ADDR } else { NOT_HUB_ADDR };
                let m = GwMessage {
                    source_chain: SStr::from_str(&env, src_chain),
                    message_id: mid.clone(),
                    source_address: SStr::from_str(&env, src_addr),
                    contract_address: its.clone(),
                    payload_hash: BytesN::from_array(&env, &keccak(&payload)),
                };
                let ar = self.g.approve_raw("s1", svec![&env, m.clone()]);
                let _ = self.g.cx.take_events();
                if let Err(e) = ar {
                    return Obs { ok: false, ret: json!("none"), ev: vec![], err: format!("approval failed: {e}") };
                }
                let pname = act["payload"].as_str().unwrap().to_string();
                self.note_delivery(&pname, &format!("fresh-{}", self.fresh));
                let args: SVec<Val> = svec![&env, m.source_chain.into_val(&env), mid.into_val(&env), m.source_address.into_val(&env), Bytes::from_slice(&env, &payload).into_val(&env)];
                let r = self.g.cx.call_auth(&[], &its, "execute", args);
                self.finish(r, unit())
            }
            "MinterMint" => {
                let id = self.id_bytes(act["id"].as_str().unwrap());
                let tok: Option<Address> = self.g.cx.query(&its, "token_address", svec![&env, id.into_val(&env)]);
                let tok = match tok {
                    Some(t) => t,
                    None => return Obs { ok: false, ret: json!("none"), ev: vec![], err: "no token".into() },
                };
                let minter = self.g.cx.addr(act["minter"].as_str().unwrap());
                let to = self.g.cx.addr(act["to"].as_str().unwrap());
                let amt = act["amt"].as_i64().unwrap() as i128;
                let args: SVec<Val> = svec![&env, minter.into_val(&env), to.into_val(&env), amt.into_val(&env)];
                let auths: Vec<(Address, Inv)> = auth.iter().map(|n| (self.g.cx.addr(n), Inv::new(&tok, "mint_from", args.clone()))).collect();
                let r = self.g.cx.call_auth(&auths, &tok, "mint_from", args);
                self.finish(r, unit())
            }
            "ExampleSend" => {
                let caller = self.g.cx.addr(act["caller"].as_str().unwrap());
                let gas_amt = act["gas"].as_i64().unwrap() as i128;
                let gas = self.gas_token_val(act["gas"].as_i64().unwrap());
                let (chain, addr, msg) = (SStr::from_str(&env, "ethereum"), SStr::from_str(&env, "0xapp"), Bytes::from_slice(&env, b"hello"));
                let ex = self.example.clone();
                let args: SVec<Val> = svec![&env, caller.into_val(&env), chain.into_val(&env), addr.into_val(&env), msg.into_val(&env), gas.into_val(&env)];
                let pg_args: SVec<Val> = svec![&env, ex.into_val(&env), chain.into_val(&env), addr.into_val(&env), msg.into_val(&env), caller.into_val(&env), gas.into_val(&env), Bytes::new(&env).into_val(&env)];
                let sub: SVec<Val> = svec![&env, caller.into_val(&env), self.gs.into_val(&env), gas_amt.into_val(&env)];
                let auths: Vec<(Address, Inv)> = auth
                    .iter()
                    .map(|n| (self.g.cx.addr(n), Inv::new(&ex, "send", args.clone()).with(Inv::new(&self.gs.clone(), "pay_gas", pg_args.clone()).with(Inv::new(&self.gas_token.clone(), "transfer", sub.clone())))))
                    .collect();
                let mut auths = auths;
                for n in Self::scoped(act) {
                    auths.push((self.g.cx.addr(&n), Inv::new(&self.gs.clone(), "pay_gas", pg_args.clone()).with(Inv::new(&self.gas_token.clone(), "transfer", sub.clone()))));
                }
                let r = self.g.cx.call_auth(&auths, &ex, "send", args);
                self.finish(r, unit())
            }
            "HookOpenWindow" => {
                env.as_contract(&its, || axelar_soroban_std::interfaces::verif_open_migration_window(&env));
                Obs { ok: true, ret: unit(), ev: vec![], err: String::new() }
            }
            "SetFakeMeta" => {
                self.fk_meta = jstr(act, "meta");
                self.apply_fk_meta();
                Obs { ok: true, ret: unit(), ev: vec![], err: String::new() }
            }
            other => panic!("ITS: unknown action {other}"),
        }
    }

    /// key names of the form "<id>_<tag>" share the message id "<id>" with key "<id>" (same id, other chain)
    fn msg_id_of_key(key: &str) -> &str {
        key.split('_').next().unwrap()
    }
    /// the catalogue key of (source chain, message id), if any delivery has it
    fn key_of(&self, chain: &str, id: &str) -> String {
        if let Some(ds) = self.inst["Deliveries"].as_object() {
            for d in ds.values() {
                let k = d["key"].as_str().unwrap();
                if Self::msg_id_of_key(k) == id && d["srcChain"].as_str() == Some(chain) {
                    return k.to_string();
                }
            }
        }
        id.to_string()
    }

    /// remember what the delivery being executed says (for the check of the arguments handed to a receiving app)
    fn note_delivery(&mut self, pname: &str, mid: &str) {
        let p = self.inst["Payloads"][pname].clone();
        self.last_delivery = if p["inner"] == json!("transfer") {
            Some((
                p["origin"].as_str().unwrap_or("").to_string(),
                mid.to_string(),
                self.party_bytes(p["sender"].as_str().unwrap_or("none")),
                Self::data_bytes(p["data"].as_str().unwrap_or("none")),
            ))
        } else {
            None
        };
    }

    fn scoped(act: &J) -> Vec<String> {
        act.get("scoped").and_then(|x| x.as_array()).map(|a| a.iter().map(|n| n.as_str().unwrap().to_string()).collect()).unwrap_or_default()
    }

    pub fn project(&mut self) -> J {
        let env = self.g.cx.env.clone();
        let its = self.its.clone();
        let gw = self.g.gw.clone().unwrap();
        let mut trusted = serde_json::Map::new();
        for c in jstrs(&self.inst, "Chains") {
            let t: Option<bool> = self.g.cx.query(&its, "is_trusted_chain", svec![&env, SStr::from_str(&env, &c).into_val(&env)]);
            trusted.insert(c, json!(t.unwrap_or(false)));
        }
        let (mut reg, mut reg_tok, mut tok_meta, mut minters, mut tok_owner, mut tok_self) =
            (serde_json::Map::new(), serde_json::Map::new(), serde_json::Map::new(), serde_json::Map::new(), serde_json::Map::new(), serde_json::Map::new());
        let mut bal = serde_json::Map::new();
        let accts = self.accts.clone();
        let id_names: Vec<String> = jstrs(&self.inst, "Ids");
        for idn in id_names.iter() {
            let idb = self.id_bytes(idn);
            let ty: Option<u32> = self.g.cx.query::<Val>(&its, "token_manager_type", svec![&env, idb.into_val(&env)]).and_then(|v| {
                // TokenManagerType is a unit-variant enum encoded as its discriminant
                u32::try_from_val(&env, &v).ok()
            });
            let kind = match ty {
                None => "none",
                Some(0) => "native",
                Some(2) => "lock",
                Some(_) => "UnknownKind",
            };
            reg.insert(idn.clone(), json!(kind));
            let taddr: Option<Address> = self.g.cx.query(&its, "token_address", svec![&env, idb.into_val(&env)]);
            let mut row = serde_json::Map::new();
            let mut mrow = serde_json::Map::new();
            let (mut rt, mut tm, mut to, mut ts) = ("none".to_string(), "none".to_string(), "none".to_string(), "none".to_string());
            if let Some(t) = taddr.clone() {
                if let Some((cn, _)) = self.canon.iter().find(|(_, a)| **a == t) {
                    rt = cn.clone();
                } else {
                    // a service-deployed token: lives at the address derived from (service, id) and reports that id
                    let derived = env.deployer().with_address(its.clone(), idb.clone()).deployed_address();
                    let tid: Option<BytesN<32>> = self.g.cx.query(&t, "token_id", SVec::new(&env));
                    rt = if derived != t { "WrongAddress".into() } else { tid.as_ref().map(|b| self.id_name(&b.to_array())).unwrap_or("NoTokenId".into()) };
                    ts = if tid.map(|b| b.to_array()) == Some(self.ids[idn]) { "ok".into() } else { "mismatch".into() };
                    let n: Option<SStr> = self.g.cx.query(&t, "name", SVec::new(&env));
                    let s: Option<SStr> = self.g.cx.query(&t, "symbol", SVec::new(&env));
                    let d: Option<u32> = self.g.cx.query(&t, "decimals", SVec::new(&env));
                    let sb = |x: Option<SStr>| -> Vec<u8> { x.map(|s| { let mut v = vec![0u8; s.len() as usize]; s.copy_into_slice(&mut v); v }).unwrap_or_default() };
                    tm = self.meta_name(&sb(n), &sb(s), d.unwrap_or(9999));
                    let o: Option<Address> = self.g.cx.query(&t, "owner", SVec::new(&env));
                    to = o.map(|a| self.g.cx.name_of(&a)).unwrap_or("none".into());
                }
            }
            for a in accts.iter() {
                let aa = self.g.cx.addr(a);
                let native = kind == "native";
                let b: i64 = if native { taddr.as_ref().and_then(|t| self.g.cx.query::<i128>(t, "balance", svec![&env, aa.into_val(&env)])).unwrap_or(0) as i64 } else { 0 };
                row.insert(a.clone(), json!(b));
                let m: bool = if native { taddr.as_ref().and_then(|t| self.g.cx.query::<bool>(t, "is_minter", svec![&env, aa.into_val(&env)])).unwrap_or(false) } else { false };
                mrow.insert(a.clone(), json!(m));
            }
            bal.insert(idn.clone(), J::Object(row));
            minters.insert(idn.clone(), J::Object(mrow));
            reg_tok.insert(idn.clone(), json!(rt));
            tok_meta.insert(idn.clone(), json!(tm));
            tok_owner.insert(idn.clone(), json!(to));
            tok_self.insert(idn.clone(), json!(ts));
        }
        let canon: Vec<(String, Address)> = self.canon.iter().map(|(a, b)| (a.clone(), b.clone())).collect();
        for (cn, ca) in canon {
            let mut row = serde_json::Map::new();
            for a in accts.iter() {
                let aa = self.g.cx.addr(a);
                let b: i64 = self.g.cx.query::<i128>(&ca, "balance", svec![&env, aa.into_val(&env)]).unwrap_or(-999) as i64;
                row.insert(a.clone(), json!(b));
            }
            bal.insert(cn, J::Object(row));
        }
        let mut gas = serde_json::Map::new();
        let gt = self.gas_token.clone();
        for a in accts.iter() {
            let aa = self.g.cx.addr(a);
            let b: i64 = self.g.cx.query::<i128>(&gt, "balance", svec![&env, aa.into_val(&env)]).unwrap_or(-999) as i64;
            gas.insert(a.clone(), json!(b));
        }
        // gateway approval table, per key, in terms of the delivery catalogue
        let mut appr = serde_json::Map::new();
        let dnames: Vec<String> = self.inst["Deliveries"].as_object().unwrap().keys().cloned().collect();
        for k in jstrs(&self.inst, "Keys") {
            let mut status = "none".to_string();
            let mut hits: Vec<String> = vec![];
            let mut chains: Vec<String> = vec![];
            for dn in dnames.iter() {
                if self.inst["Deliveries"][dn]["key"] != json!(k) {
                    continue;
                }
                let (m, _) = self.delivery_message(dn);
                let c = sstr_to_string(&m.source_chain);
                if !chains.contains(&c) {
                    chains.push(c);
                }
                let a: bool = self.g.cx.query(&gw, "is_message_approved", svec![&env, m.source_chain.into_val(&env), m.message_id.into_val(&env), m.source_address.into_val(&env), m.contract_address.into_val(&env), m.payload_hash.into_val(&env)]).unwrap_or(false);
                if a {
                    hits.push(dn.clone());
                }
            }
            for c in chains {
                let ex: bool = self.g.cx.query(&gw, "is_message_executed", svec![&env, SStr::from_str(&env, &c).into_val(&env), SStr::from_str(&env, Self::msg_id_of_key(&k)).into_val(&env)]).unwrap_or(false);
                if ex {
                    status = "executed".into();
                }
            }
            if status != "executed" && !hits.is_empty() {
                // deliveries that share every approved field are the same approval: report the first by name
                status = hits[0].clone();
            }
            appr.insert(k, json!(status));
        }
        // construction-time wiring, through the public getters: constant over every history
        let mut wiring: Vec<&str> = vec![];
        let gs_q: Option<Address> = self.g.cx.query(&its, "gas_service", SVec::new(&env));
        let gw_q: Option<Address> = self.g.cx.query(&its, "gateway", SVec::new(&env));
        let cn_q: Option<SStr> = self.g.cx.query(&its, "chain_name", SVec::new(&env));
        let ha_q: Option<SStr> = self.g.cx.query(&its, "its_hub_address", SVec::new(&env));
        let hc_q: Option<SStr> = self.g.cx.query(&its, "its_hub_chain_name", SVec::new(&env));
        let wh_q: Option<BytesN<32>> = self.g.cx.query(&its, "interchain_token_wasm_hash", SVec::new(&env));
        if gs_q.as_ref() != Some(&self.gs) { wiring.push("gas_service"); }
        if gw_q.as_ref() != Some(&gw) { wiring.push("gateway"); }
        if cn_q.map(|s| sstr_to_string(&s)).as_deref() != Some(self.chain_name.as_str()) { wiring.push("chain_name"); }
        if ha_q.map(|s| sstr_to_string(&s)).as_deref() != Some(HUB_ADDR) { wiring.push("its_hub_address"); }
        if hc_q.map(|s| sstr_to_string(&s)).as_deref() != Some("axelar") { wiring.push("its_hub_chain_name"); }
        if wh_q != self.wasm_hash { wiring.push("interchain_token_wasm_hash"); }
        let wiring = if wiring.is_empty() { "ok".to_string() } else { wiring.join(",") };
        let owner: Option<Address> = self.g.cx.query(&its, "owner", SVec::new(&env));
        json!({"wiring": wiring, "trusted": trusted, "reg": reg, "regTok": reg_tok, "tokMeta": tok_meta, "bal": bal, "minters": minters,
               "tokOwner": tok_owner, "tokSelfId": tok_self, "gas": gas, "appr": appr, "fkMeta": self.fk_meta,
               "idcheck": self.idcheck, "owner": owner.map(|a| self.g.cx.name_of(&a)).unwrap_or("none".into())})
    }
}
