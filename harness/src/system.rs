//! Binding of spec/System.tla: the gateway (own catalogue of signer sets and messages) and the token
//! service with its tokens / gas service, in one world; deliveries are approved by real proofs.
use crate::common::Obs;
use crate::its::ItsBinder;
use serde_json::{json, Value as J};

pub struct SystemBinder {
    pub its: ItsBinder,
}

const GATEWAY_ACTIONS: [&str; 5] = ["ApproveMessages", "RotateSigners", "ValidateProof", "Tick", "TransferOperatorship"];

impl SystemBinder {
    pub fn new(inst: &J, init: &J) -> SystemBinder {
        let mut gw_init = init["gw"].clone();
        gw_init["deployed"] = json!(true);
        let mut its_init = init["its"].clone();
        // fields the service binding expects even when the instance does not use them
        if its_init.get("gas").is_none() {
            its_init["gas"] = json!({});
        }
        let its = ItsBinder::new_with_gateway(&inst["its"], &its_init, inst, &gw_init, true);
        SystemBinder { its }
    }
    pub fn exec(&mut self, act: &J) -> Obs {
        let name = act["name"].as_str().unwrap();
        if GATEWAY_ACTIONS.contains(&name) {
            self.its.g.exec(act)
        } else {
            self.its.exec(act)
        }
    }
    pub fn project(&mut self) -> J {
        let gw = self.its.g.project();
        let mut gwo = gw;
        gwo["now"] = json!(self.its.g.now);
        let mut its = self.its.project();
        // the composed specification keeps the approval table in the gateway; id / ownership self-checks of the
        // service binding are the business of the ITS instances
        if let Some(o) = its.as_object_mut() {
            for k in ["appr", "idcheck", "wiring", "tokOwner", "tokSelfId"] {
                o.remove(k);
            }
        }
        json!({"gw": gwo, "its": its})
    }
}
