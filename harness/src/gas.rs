//! Binding of spec/GasService.tla to contracts/axelar-gas-service with two real tokens:
//! "sac" = a Stellar asset contract, "itk" = the interchain token of /repo registered natively.
#![allow(dead_code)]

use crate::common::*;
use serde_json::{json, Value as J};
use soroban_sdk::vec as svec;
use soroban_sdk::{Address, Bytes, BytesN, IntoVal, String as SStr, TryFromVal, Val, Vec as SVec};
use soroban_token_sdk::metadata::TokenMetadata;
use std::collections::BTreeMap;

pub mod wire {
    use soroban_sdk::{contracttype, Address};
    #[contracttype]
    #[derive(Clone, Debug, PartialEq, Eq)]
    pub struct Token {
        pub address: Address,
        pub amount: i128,
    }
}
use wire::Token;

pub struct GasBinder {
    pub cx: Ctx,
    pub inst: J,
    pub gs: Address,
    pub tokens: BTreeMap<String, Address>,
    pub accts: Vec<String>,
}

impl GasBinder {
    pub fn new(inst: &J, init: &J) -> GasBinder {
        GasBinder::new_in(Ctx::new_aging(5), inst, init)
    }

    /// in a world that already exists (names bound there - e.g. the operators contract as collector - are used as they are)
    pub fn new_in(mut cx: Ctx, inst: &J, init: &J) -> GasBinder {
        let env = cx.env.clone();
        let owner = cx.addr(&jstr(init, "owner"));
        let collector = cx.addr(&jstr(init, "collector"));
        let gs = env.register(axelar_gas_service::AxelarGasService, (owner.clone(), collector.clone()));
        cx.bind("gs", &gs);
        let mut accts: Vec<String> = jstrs(inst, "Accts");
        accts.sort();
        let mut tokens = BTreeMap::new();
        let admin = cx.addr("tokadmin");
        env.mock_all_auths();
        for t in jstrs(inst, "Tokens") {
            let addr = if t == "sac" {
                env.register_stellar_asset_contract_v2(admin.clone()).address()
            } else if t == "nv" {
                env.register(crate::probe::naivetoken::NaiveToken, ())
            } else {
                let meta = TokenMetadata { decimal: 7, name: SStr::from_str(&env, "Gas Token"), symbol: SStr::from_str(&env, "GAS") };
                env.register(interchain_token::InterchainToken, (admin.clone(), None::<Address>, BytesN::<32>::from_array(&env, &[9u8; 32]), meta))
            };
            cx.bind(&t, &addr);
            for (who, v) in init["bal"][&t].as_object().unwrap() {
                let amt = v.as_i64().unwrap() as i128;
                if amt > 0 {
                    let to = cx.addr(who);
                    env.invoke_contract::<()>(&addr, &soroban_sdk::Symbol::new(&env, "mint"), svec![&env, to.into_val(&env), amt.into_val(&env)]);
                }
            }
            // standing allowances toward the service (third-party state on the token: a payer may have approved the
            // service for other reasons) - payments must still come from the named spender only
            if let Some(al) = inst.get("Allowances").and_then(|x| x.as_array()) {
                if t != "nv" {
                    for who in al {
                        let w = cx.addr(who.as_str().unwrap());
                        env.invoke_contract::<()>(
                            &addr,
                            &soroban_sdk::Symbol::new(&env, "approve"),
                            svec![&env, w.into_val(&env), gs.into_val(&env), 1000i128.into_val(&env), 900_000_000u32.into_val(&env)],
                        );
                    }
                }
            }
            tokens.insert(t, addr);
        }
        env.set_auths(&[]);
        cx.take_events();
        GasBinder { cx, inst: inst.clone(), gs, tokens, accts }
    }

    fn token_name(&self, a: &Address) -> String {
        self.tokens.iter().find(|(_, x)| *x == a).map(|(n, _)| n.clone()).unwrap_or("UnknownToken".into())
    }

    pub fn decode_event(&self, c: &Address, topics: &SVec<Val>, _data: &Val) -> Option<J> {
        let env = &self.cx.env;
        if c != &self.gs {
            return None;
        }
        let name = sym_name(env, &topics.get(0)?)?;
        let tok = |i: u32| -> Option<(String, i64)> {
            let t = Token::try_from_val(env, &topics.get(i)?).ok()?;
            Some((self.token_name(&t.address), t.amount as i64))
        };
        let addr = |i: u32| -> Option<String> { Address::try_from_val(env, &topics.get(i)?).ok().map(|a| self.cx.name_of(&a)) };
        match name.as_str() {
            "gas_paid" => {
                let (t, a) = tok(6)?;
                Some(json!({"k": name, "spender": addr(5)?, "token": t, "amt": a}))
            }
            "gas_added" => {
                let (t, a) = tok(4)?;
                Some(json!({"k": name, "spender": addr(3)?, "token": t, "amt": a}))
            }
            "gas_refunded" => {
                let (t, a) = tok(3)?;
                Some(json!({"k": name, "receiver": addr(2)?, "token": t, "amt": a}))
            }
            "gas_collected" => {
                let (t, a) = tok(2)?;
                Some(json!({"k": name, "token": t, "amt": a}))
            }
            "ownership_transferred" => Some(json!({"k": name, "prev": addr(1)?, "new": addr(2)?})),
            _ => Some(json!({"k": name})),
        }
    }

    fn finish(&mut self, r: Result<Val, String>) -> Obs {
        let raw = self.cx.take_events();
        let mut ev = vec![];
        for (c, t, d) in raw.iter() {
            if let Some(e) = self.decode_event(c, t, d) {
                ev.push(e);
            }
        }
        match r {
            Ok(_) => Obs { ok: true, ret: unit(), ev, err: String::new() },
            Err(e) => Obs { ok: false, ret: json!("none"), ev, err: e },
        }
    }

    pub fn exec(&mut self, act: &J) -> Obs {
        self.cx.set_argdrop(act);
        let env = self.cx.env.clone();
        let name = jstr(act, "name");
        let gs = self.gs.clone();
        let auth_names: Vec<String> = act.get("auth").and_then(|x| x.as_array()).map(|a| a.iter().map(|n| n.as_str().unwrap().to_string()).collect()).unwrap_or_default();
        let r = match name.as_str() {
            "PayGas" | "AddGas" => {
                let taddr = self.tokens[act["token"].as_str().unwrap()].clone();
                let amt = act["amt"].as_i64().unwrap() as i128;
                let token = Token { address: taddr.clone(), amount: amt };
                let sender = self.cx.addr(act["sender"].as_str().unwrap());
                let spender = self.cx.addr(act["spender"].as_str().unwrap());
                let (func, args): (&'static str, SVec<Val>) = if name == "PayGas" {
                    (
                        "pay_gas",
                        svec![&env, sender.into_val(&env), SStr::from_str(&env, "ethereum").into_val(&env), SStr::from_str(&env, "0xdest").into_val(&env),
                              Bytes::from_slice(&env, b"payload").into_val(&env), spender.into_val(&env), token.into_val(&env), Bytes::new(&env).into_val(&env)],
                    )
                } else {
                    ("add_gas", svec![&env, sender.into_val(&env), SStr::from_str(&env, "msg-1").into_val(&env), spender.into_val(&env), token.into_val(&env)])
                };
                let sub: SVec<Val> = svec![&env, spender.into_val(&env), gs.into_val(&env), amt.into_val(&env)];
                let mut auths: Vec<(Address, Inv)> = auth_names
                    .iter()
                    .map(|n| (self.cx.addr(n), Inv::new(&gs, func, args.clone()).with(Inv::new(&taddr, "transfer", sub.clone()))))
                    .collect();
                // `scoped`: principals whose entry is rooted at the bare token transfer to the service - it does
                // not authorise this gas payment
                if let Some(sc) = act.get("scoped").and_then(|x| x.as_array()) {
                    for n in sc {
                        auths.push((self.cx.addr(n.as_str().unwrap()), Inv::new(&taddr, "transfer", sub.clone())));
                    }
                }
                self.cx.call_auth(&auths, &gs, func, args)
            }
            "CollectFees" | "Refund" => {
                let taddr = self.tokens[act["token"].as_str().unwrap()].clone();
                let amt = act["amt"].as_i64().unwrap() as i128;
                let token = Token { address: taddr, amount: amt };
                let receiver = self.cx.addr(act["receiver"].as_str().unwrap());
                let (func, args): (&'static str, SVec<Val>) = if name == "CollectFees" {
                    ("collect_fees", svec![&env, receiver.into_val(&env), token.into_val(&env)])
                } else {
                    ("refund", svec![&env, SStr::from_str(&env, "msg-1").into_val(&env), receiver.into_val(&env), token.into_val(&env)])
                };
                let auths: Vec<(Address, Inv)> = auth_names.iter().map(|n| (self.cx.addr(n), Inv::new(&gs, func, args.clone()))).collect();
                self.cx.call_auth(&auths, &gs, func, args)
            }
            "HookOpenWindow" => {
                env.as_contract(&gs, || axelar_soroban_std::interfaces::verif_open_migration_window(&env));
                Ok(Val::VOID.into())
            }
            "TransferOwnership" => {
                let new = self.cx.addr(act["new"].as_str().unwrap());
                let args: SVec<Val> = svec![&env, new.into_val(&env)];
                let auths: Vec<(Address, Inv)> = auth_names.iter().map(|n| (self.cx.addr(n), Inv::new(&gs, "transfer_ownership", args.clone()))).collect();
                self.cx.call_auth(&auths, &gs, "transfer_ownership", args)
            }
            other => panic!("GasService: unknown action {other}"),
        };
        self.finish(r)
    }

    pub fn project(&mut self) -> J {
        let env = self.cx.env.clone();
        let mut bal = serde_json::Map::new();
        let toks: Vec<(String, Address)> = self.tokens.iter().map(|(a, b)| (a.clone(), b.clone())).collect();
        let accts = self.accts.clone();
        for (tn, ta) in toks {
            let mut row = serde_json::Map::new();
            for n in accts.iter() {
                let a = self.cx.addr(n);
                let b: Option<i128> = self.cx.query(&ta, "balance", svec![&env, a.into_val(&env)]);
                row.insert(n.clone(), b.map(|x| json!(x as i64)).unwrap_or(json!("query_failed")));
            }
            bal.insert(tn, J::Object(row));
        }
        let gs = self.gs.clone();
        let owner: Option<Address> = self.cx.query(&gs, "owner", SVec::new(&env));
        let col: Option<Address> = self.cx.query(&gs, "gas_collector", SVec::new(&env));
        json!({"bal": bal, "owner": owner.map(|a| self.cx.name_of(&a)).unwrap_or("none".into()),
               "collector": col.map(|a| self.cx.name_of(&a)).unwrap_or("none".into())})
    }
}
