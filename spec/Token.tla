------------------------------- MODULE Token -------------------------------
(***************************************************************************)
(* contracts/interchain-token: SEP-41 token with minters and an owner.     *)
(* Same style as Gateway.tla: state record `st`, one pure operator per     *)
(* entry point returning [ok, why, fails, free, ret, ev, post].            *)
(* Amounts live on a lattice (concrete = abstract * Q); Cap > 0 means      *)
(* "an i128 balance overflows iff the abstract sum exceeds Cap"; Cap = 0   *)
(* means the instance cannot reach overflow (unit scale).                  *)
(***************************************************************************)
EXTENDS Naturals, Integers, Sequences, FiniteSets, TLC

CONSTANTS
    Accts,      \* set of account names (strings), includes every possible owner / minter
    Cap,        \* overflow threshold in abstract units (0 = unreachable)
    MaxLive     \* host ceiling on the lifetime of a temporary entry (approve traps beyond it)

Rej(st, why, fails) ==
    [ok |-> FALSE, why |-> why, fails |-> fails, free |-> FALSE,
     ret |-> "none", ev |-> <<>>, post |-> st]
Acc(st2, ret, ev) ==
    [ok |-> TRUE, why |-> "ok", fails |-> {}, free |-> FALSE,
     ret |-> ret, ev |-> ev, post |-> st2]

First(order, fails) ==
    LET i == CHOOSE j \in 1..Len(order) : order[j] \in fails /\ \A k \in 1..(j-1) : order[k] \notin fails
    IN order[i]
Guarded(st, order, fails, okres) ==
    IF fails = {} THEN okres ELSE Rej(st, First(order, fails), fails)

Overflows(x) == Cap > 0 /\ x > Cap

(* effective allowance: an allowance is usable up to and including its expiration ledger *)
Eff(st, f, s) == IF st.allow[f][s].exp < st.seq THEN 0 ELSE st.allow[f][s].amt
EffMap(st) == [f \in Accts |-> [s \in Accts |-> Eff(st, f, s)]]

Blank(owner, minter, seq) ==
    [bal |-> [a \in Accts |-> 0],
     allow |-> [f \in Accts |-> [s \in Accts |-> [amt |-> 0, exp |-> 0]]],
     minters |-> [a \in Accts |-> a = owner \/ a = minter],
     owner |-> owner, seq |-> seq]

-----------------------------------------------------------------------------
Order == <<"unimplemented", "role_auth", "named_auth", "is_minter", "amount", "expiry", "host_ttl",
           "allowance", "balance", "overflow">>

(* mint_from(minter, to, amount);  mint(to, amount) = mint_from(owner, to, amount) *)
MintCore(st, m, to, a, authGuard) ==
    LET fails == (IF m \notin a.auth THEN {authGuard} ELSE {})
                 \cup (IF ~st.minters[m] THEN {"is_minter"} ELSE {})
                 \cup (IF a.amt < 0 THEN {"amount"} ELSE {})
                 \* a negative amount would DEBIT the recipient, who has not authorised anything
                 \cup (IF a.amt < 0 /\ to \notin a.auth THEN {"named_auth"} ELSE {})
                 \cup (IF a.amt >= 0 /\ Overflows(st.bal[to] + a.amt) THEN {"overflow"} ELSE {})
    IN Guarded(st, Order, fails,
               Acc([st EXCEPT !.bal[to] = @ + a.amt], "unit",
                   <<[k |-> "mint", admin |-> m, to |-> to, amt |-> a.amt]>>))

Mint(st, a) == MintCore(st, st.owner, a.to, a, "role_auth")
MintFrom(st, a) == MintCore(st, a.minter, a.to, a, "named_auth")

AddMinter(st, a) ==
    IF st.owner \notin a.auth THEN Rej(st, "role_auth", {"role_auth"})
    ELSE Acc([st EXCEPT !.minters[a.minter] = TRUE], "unit", <<[k |-> "minter_added", who |-> a.minter]>>)
RemoveMinter(st, a) ==
    IF st.owner \notin a.auth THEN Rej(st, "role_auth", {"role_auth"})
    ELSE Acc([st EXCEPT !.minters[a.minter] = FALSE], "unit", <<[k |-> "minter_removed", who |-> a.minter]>>)

(* approve(from, spender, amount, expiration_ledger) *)
Approve(st, a) ==
    LET fails == (IF a.from \notin a.auth THEN {"named_auth"} ELSE {})
                 \cup (IF a.amt < 0 THEN {"amount"} ELSE {})
                 \cup (IF a.amt > 0 /\ a.exp < st.seq THEN {"expiry"} ELSE {})
                 \cup (IF a.amt > 0 /\ a.exp >= st.seq /\ a.exp - st.seq > MaxLive THEN {"host_ttl"} ELSE {})
        res == Guarded(st, Order, fails,
                       Acc([st EXCEPT !.allow[a.from][a.spender] = [amt |-> a.amt, exp |-> a.exp]], "unit",
                           <<[k |-> "approve", from |-> a.from, spender |-> a.spender, amt |-> a.amt, exp |-> a.exp]>>))
    IN \* the host's TTL ceiling is not part of the token rules: the statement leaves it open
       [res EXCEPT !.free = fails = {"host_ttl"}]

SpendAllowance(st, f, s, amt) ==
    IF amt > 0 THEN [st EXCEPT !.allow[f][s].amt = Eff(st, f, s) - amt] ELSE st

Transfer(st, a) ==
    LET fails == (IF a.from \notin a.auth THEN {"named_auth"} ELSE {})
                 \cup (IF a.amt < 0 THEN {"amount"} ELSE {})
                 \cup (IF a.amt < 0 /\ a.to \notin a.auth THEN {"named_auth"} ELSE {})   \* would debit `to`
                 \cup (IF a.amt >= 0 /\ st.bal[a.from] < a.amt THEN {"balance"} ELSE {})
                 \cup (IF a.amt >= 0 /\ a.from # a.to /\ Overflows(st.bal[a.to] + a.amt) THEN {"overflow"} ELSE {})
        st1 == [st EXCEPT !.bal[a.from] = @ - a.amt]
        st2 == [st1 EXCEPT !.bal[a.to] = @ + a.amt]
    IN Guarded(st, Order, fails,
               Acc(st2, "unit", <<[k |-> "transfer", from |-> a.from, to |-> a.to, amt |-> a.amt]>>))

TransferFrom(st, a) ==
    LET fails == (IF a.spender \notin a.auth THEN {"named_auth"} ELSE {})
                 \cup (IF a.amt < 0 THEN {"amount"} ELSE {})
                 \cup (IF a.amt < 0 /\ a.to \notin a.auth THEN {"named_auth"} ELSE {})   \* would debit `to`
                 \cup (IF a.amt >= 0 /\ Eff(st, a.from, a.spender) < a.amt THEN {"allowance"} ELSE {})
                 \cup (IF a.amt >= 0 /\ st.bal[a.from] < a.amt THEN {"balance"} ELSE {})
                 \cup (IF a.amt >= 0 /\ a.from # a.to /\ Overflows(st.bal[a.to] + a.amt) THEN {"overflow"} ELSE {})
        st0 == SpendAllowance(st, a.from, a.spender, a.amt)
        st1 == [st0 EXCEPT !.bal[a.from] = @ - a.amt]
        st2 == [st1 EXCEPT !.bal[a.to] = @ + a.amt]
    IN Guarded(st, Order, fails,
               Acc(st2, "unit", <<[k |-> "transfer", from |-> a.from, to |-> a.to, amt |-> a.amt]>>))

Burn(st, a) ==
    LET fails == (IF a.from \notin a.auth THEN {"named_auth"} ELSE {})
                 \cup (IF a.amt < 0 THEN {"amount"} ELSE {})
                 \cup (IF a.amt >= 0 /\ st.bal[a.from] < a.amt THEN {"balance"} ELSE {})
    IN Guarded(st, Order, fails,
               Acc([st EXCEPT !.bal[a.from] = @ - a.amt], "unit",
                   <<[k |-> "burn", from |-> a.from, amt |-> a.amt]>>))

BurnFrom(st, a) ==
    LET fails == (IF a.spender \notin a.auth THEN {"named_auth"} ELSE {})
                 \cup (IF a.amt < 0 THEN {"amount"} ELSE {})
                 \cup (IF a.amt >= 0 /\ Eff(st, a.from, a.spender) < a.amt THEN {"allowance"} ELSE {})
                 \cup (IF a.amt >= 0 /\ st.bal[a.from] < a.amt THEN {"balance"} ELSE {})
        st0 == SpendAllowance(st, a.from, a.spender, a.amt)
    IN Guarded(st, Order, fails,
               Acc([st0 EXCEPT !.bal[a.from] = @ - a.amt], "unit",
                   <<[k |-> "burn", from |-> a.from, amt |-> a.amt]>>))

(* Ownable + the SEP-41 admin event: names the previous and the new administrator *)
TransferOwnership(st, a) ==
    IF st.owner \notin a.auth THEN Rej(st, "role_auth", {"role_auth"})
    ELSE Acc([st EXCEPT !.owner = a.new], "unit",
             <<[k |-> "ownership_transferred", prev |-> st.owner, new |-> a.new],
               [k |-> "set_admin", prev |-> st.owner, new |-> a.new]>>)

AdvanceLedger(st, a) == Acc([st EXCEPT !.seq = @ + a.d], "unit", <<>>)

(* StellarAssetInterface entries the token declares but does not implement (`todo!()`): set_authorized,
   authorized and clawback always trap, whoever authorises; balances can therefore only move through
   the entries above *)
Unimplemented(st, a) ==
    Rej(st, "unimplemented",
        {"unimplemented"} \cup (IF a.name = "Clawback" /\ a.from \notin a.auth THEN {"named_auth"} ELSE {}))

(* verification hook (harness only, never a contract entry point): the Upgradable interface's migration window is
   opened without swapping code.  The window belongs to another interface: nothing in this module may depend on it *)
Apply(st, a) ==
    CASE a.name = "Mint"              -> Mint(st, a)
      [] a.name = "MintFrom"          -> MintFrom(st, a)
      [] a.name = "AddMinter"         -> AddMinter(st, a)
      [] a.name = "RemoveMinter"      -> RemoveMinter(st, a)
      [] a.name = "Approve"           -> Approve(st, a)
      [] a.name = "Transfer"          -> Transfer(st, a)
      [] a.name = "TransferFrom"      -> TransferFrom(st, a)
      [] a.name = "Burn"              -> Burn(st, a)
      [] a.name = "BurnFrom"          -> BurnFrom(st, a)
      [] a.name = "TransferOwnership" -> TransferOwnership(st, a)
      [] a.name = "AdvanceLedger"     -> AdvanceLedger(st, a)
      [] a.name \in {"Clawback", "SetAuthorized", "Authorized"} -> Unimplemented(st, a)
      [] a.name = "HookOpenWindow" -> Acc(st, "unit", <<>>)

-----------------------------------------------------------------------------
RECURSIVE SumOver(_, _)
SumOver(f, S) == IF S = {} THEN 0 ELSE LET x == CHOOSE y \in S : TRUE IN f[x] + SumOver(f, S \ {x})
Supply(st) == SumOver(st.bal, Accts)

NonNegative(st) ==
    /\ \A x \in Accts : st.bal[x] >= 0
    /\ \A f, s \in Accts : st.allow[f][s].amt >= 0

(* the standard token rules as a step property: what each successful call may change *)
SupplyDelta(a) ==
    CASE a.name \in {"Mint", "MintFrom"} -> a.amt
      [] a.name \in {"Burn", "BurnFrom"} -> 0 - a.amt
      [] OTHER -> 0
StepRules(st, a, r) ==
    /\ ~r.ok => r.post = st /\ r.ev = <<>>
    /\ r.ok => /\ Supply(r.post) = Supply(st) + SupplyDelta(a)
               /\ NonNegative(r.post)
               /\ (a.name \in {"Mint", "MintFrom", "Transfer", "TransferFrom", "Burn", "BurnFrom", "Approve"} => a.amt >= 0)
               /\ (a.name \in {"Mint", "MintFrom"} =>
                      st.minters[IF a.name = "Mint" THEN st.owner ELSE a.minter])
               /\ (a.name \in {"TransferFrom", "BurnFrom"} =>
                      /\ Eff(st, a.from, a.spender) >= a.amt
                      /\ Eff(r.post, a.from, a.spender) = Eff(st, a.from, a.spender) - a.amt)
               /\ (a.name \in {"Transfer", "TransferFrom"} /\ a.from # a.to =>
                      /\ r.post.bal[a.from] = st.bal[a.from] - a.amt
                      /\ r.post.bal[a.to] = st.bal[a.to] + a.amt
                      /\ \A x \in Accts \ {a.from, a.to} : r.post.bal[x] = st.bal[x])
               /\ (a.name \in {"Transfer", "TransferFrom"} /\ a.from = a.to => r.post.bal = st.bal)
=============================================================================
