---------------------------- MODULE OperatorsInd ----------------------------
(* Unbounded-history argument for C17 on the DESIGN of the operators contract            *)
(* (spec/Operators.tla restated with typed, primed variables for Apalache): addresses     *)
(* are integers, the operator set is any finite set of them, ownership changes hands any   *)
(* number of times; MC_C17 has two candidate operators and one owner change.                *)
(*                                                                                        *)
(*   - the set changes only by the owner OF THAT MOMENT adding an absent address or          *)
(*     removing a present one - by exactly that one address;                                 *)
(*   - a call is forwarded only for an address that is in the set AT THAT MOMENT and          *)
(*     authorised it, exactly once, to the named target, with the target's return value        *)
(*     handed back unchanged;                                                                  *)
(*   - a former owner changes nothing, a removed operator forwards nothing.                     *)
(*                                                                                        *)
(*   Init => IndInv            (apalache-mc check --init=Init    --length=0 --inv=IndInv)   *)
(*   IndInv /\ Next => IndInv' (apalache-mc check --init=IndInit --length=1 --inv=IndInv)   *)
EXTENDS Integers, FiniteSets, Apalache

VARIABLES
    \* @type: Int;
    owner,
    \* @type: Set(Int);
    ops,
    \* @type: Int;
    forwarded,          \* calls that reached a target
    \* history
    \* @type: Set(Int);
    prevOps,
    \* @type: Int;
    touched,            \* the address named by the last membership change
    \* @type: Bool;
    lastChangeByOwner,
    \* @type: Bool;
    lastChangeReal,     \* the last membership change added an absent address or removed a present one
    \* @type: Bool;
    lastExecByMember,   \* the last forwarded call came from a member of that moment that authorised it
    \* @type: Bool;
    lastExecIntact,     \* ... reached the named target once and its return value came back unchanged
    \* @type: Int;
    prevForwarded

Init ==
    /\ owner \in Int /\ ops = {} /\ forwarded = 0 /\ prevOps = {} /\ touched = 0
    /\ lastChangeByOwner = TRUE /\ lastChangeReal = TRUE /\ lastExecByMember = TRUE /\ lastExecIntact = TRUE /\ prevForwarded = 0

Add(caller, a) ==
    /\ caller = owner /\ a \notin ops
    /\ ops' = ops \union {a} /\ prevOps' = ops /\ touched' = a
    /\ lastChangeByOwner' = (caller = owner) /\ lastChangeReal' = (a \notin ops)
    /\ prevForwarded' = forwarded
    /\ UNCHANGED <<owner, forwarded, lastExecByMember, lastExecIntact>>

Remove(caller, a) ==
    /\ caller = owner /\ a \in ops
    /\ ops' = ops \ {a} /\ prevOps' = ops /\ touched' = a
    /\ lastChangeByOwner' = (caller = owner) /\ lastChangeReal' = (a \in ops)
    /\ prevForwarded' = forwarded
    /\ UNCHANGED <<owner, forwarded, lastExecByMember, lastExecIntact>>

(* execute(operator, target, function, args): `auth` authorised the call; the target answers `ret` *)
Execute(op, auth, target, reached, ret, handedBack) ==
    /\ op \in ops /\ auth = op
    /\ reached = target /\ handedBack = ret
    /\ forwarded' = forwarded + 1 /\ prevForwarded' = forwarded
    /\ lastExecByMember' = (op \in ops /\ auth = op)
    /\ lastExecIntact' = (reached = target /\ handedBack = ret)
    /\ prevOps' = ops
    /\ UNCHANGED <<owner, ops, touched, lastChangeByOwner, lastChangeReal>>

TransferOwnership(caller, new) ==
    /\ caller = owner /\ owner' = new
    /\ prevOps' = ops /\ prevForwarded' = forwarded
    /\ lastChangeByOwner' = (caller = owner)
    /\ UNCHANGED <<ops, forwarded, touched, lastChangeReal, lastExecByMember, lastExecIntact>>

Next ==
    \/ \E c \in Int, a \in Int : Add(c, a)
    \/ \E c \in Int, a \in Int : Remove(c, a)
    \/ \E o \in Int, au \in Int, t \in Int, r \in Int, v \in Int, h \in Int : Execute(o, au, t, r, v, h)
    \/ \E c \in Int, n \in Int : TransferOwnership(c, n)

IndInv ==
    /\ lastChangeByOwner /\ lastChangeReal /\ lastExecByMember /\ lastExecIntact
    /\ \A x \in ops : x \in prevOps \/ x = touched
    /\ \A x \in prevOps : x \in ops \/ x = touched
    /\ forwarded >= 0 /\ prevForwarded <= forwarded /\ forwarded <= prevForwarded + 1

IndInit ==
    /\ owner = Gen(1) /\ ops = Gen(4) /\ forwarded = Gen(1) /\ prevOps = Gen(4) /\ touched = Gen(1)
    /\ lastChangeByOwner = Gen(1) /\ lastChangeReal = Gen(1) /\ lastExecByMember = Gen(1) /\ lastExecIntact = Gen(1) /\ prevForwarded = Gen(1)
    /\ IndInv

(* sanity: with a member present a call is forwarded *)
NotInvariant == forwarded = prevForwarded
RefuteInit == IndInit /\ ops # {} /\ forwarded = prevForwarded
=============================================================================
