-------------------------------- MODULE ITSInd --------------------------------
(* Unbounded-history, unbounded-amount argument on the DESIGN of the interchain token  *)
(* service (spec/ITS.tla restated with typed, primed variables for Apalache):            *)
(* three token ids, each either free, a service-deployed token ("native": minted and     *)
(* burned by the service) or a registered canonical token ("lock": held in the            *)
(* service's custody); amounts, message ids and the number of steps are unbounded.        *)
(*                                                                                       *)
(*  C11  once an id is registered its manager type and token address never change;         *)
(*       two ids never share a token address;                                               *)
(*  C05  custody of a canonical token = locked by outbound transfers - released by           *)
(*       inbound ones (+ what was simply sent to the service), never negative;               *)
(*       supply of a native token = initial + minted on arrival - burned on departure         *)
(*       (+ minted by its own minter), never negative; every moved amount was positive;      *)
(*  C04  a delivery acts only on an approved, not yet executed message from a trusted         *)
(*       origin for a registered token, and each message acts at most once;                  *)
(*  C05/C18  the last outbound announcement went to a destination trusted at that moment.      *)
(*                                                                                       *)
(*   Init => IndInv            (apalache-mc check --init=Init    --length=0 --inv=IndInv)  *)
(*   IndInv /\ Next => IndInv' (apalache-mc check --init=IndInit --length=1 --inv=IndInv)  *)
EXTENDS Integers, FiniteSets, Apalache

\* @type: Set(Str);
Ids == {"t1", "t2", "t3"}
\* @type: Set(Str);
Chains == {"c1", "c2"}

VARIABLES
    \* @type: Str -> Int;
    kind,           \* 0 free, 1 native (mint / burn), 2 lock (custody)
    \* @type: Str -> Int;
    addr,           \* token address, 0 while free
    \* @type: Str -> Int;
    held,           \* native: total supply on this chain; lock: the service's custody
    \* @type: Str -> Int;
    inflow,         \* native: initial supply + minted (arrivals, own minter); lock: locked + donated
    \* @type: Str -> Int;
    outflow,        \* native: burned on departure; lock: released on arrival
    \* @type: Str -> Bool;
    trusted,
    \* @type: Set(Int);
    approved,       \* message ids the gateway has approved for the service
    \* @type: Set(Int);
    executed,       \* ... and the ones already consumed
    \* @type: Int -> Int;
    acted,          \* how often a consumed message has acted (DOMAIN = executed)
    \* history
    \* @type: Str -> Int;
    prevKind,
    \* @type: Str -> Int;
    prevAddr,
    \* @type: Bool;
    lastOk          \* the last step's guards held: positive amount, trusted chain, registered token, fresh approved message

Remember == prevKind' = kind /\ prevAddr' = addr

Init ==
    /\ kind = [t \in Ids |-> 0] /\ addr = [t \in Ids |-> 0]
    /\ held = [t \in Ids |-> 0] /\ inflow = [t \in Ids |-> 0] /\ outflow = [t \in Ids |-> 0]
    /\ trusted = [c \in Chains |-> FALSE]
    /\ approved = {} /\ executed = {} /\ acted = [m \in {} |-> 0]
    /\ prevKind = kind /\ prevAddr = addr /\ lastOk = TRUE

FreshAddr(a) == a > 0 /\ \A t \in Ids : addr[t] # a

(* deploy_interchain_token / register_canonical_token / a deploy message from the hub: the id must be free *)
Register(t, k, a, supply) ==
    /\ kind[t] = 0 /\ k \in {1, 2} /\ FreshAddr(a)
    /\ IF k = 1 THEN supply >= 0 ELSE supply = 0
    /\ kind' = [kind EXCEPT ![t] = k] /\ addr' = [addr EXCEPT ![t] = a]
    /\ held' = [held EXCEPT ![t] = supply] /\ inflow' = [inflow EXCEPT ![t] = supply]
    /\ lastOk' = (kind[t] = 0)
    /\ Remember
    /\ UNCHANGED <<outflow, trusted, approved, executed, acted>>

(* interchain_transfer: burn (native) or lock (canonical) a positive amount toward a trusted chain *)
Outbound(t, x, c) ==
    /\ kind[t] # 0 /\ x > 0 /\ trusted[c]
    /\ IF kind[t] = 1
       THEN held[t] >= x /\ held' = [held EXCEPT ![t] = @ - x] /\ outflow' = [outflow EXCEPT ![t] = @ + x] /\ UNCHANGED inflow
       ELSE held' = [held EXCEPT ![t] = @ + x] /\ inflow' = [inflow EXCEPT ![t] = @ + x] /\ UNCHANGED outflow
    /\ lastOk' = (x > 0 /\ trusted[c] /\ kind[t] # 0)
    /\ Remember
    /\ UNCHANGED <<kind, addr, trusted, approved, executed, acted>>

(* execute: an approved, unexecuted transfer message from a trusted origin: mint (native) or release (canonical) *)
Inbound(m, t, x, c) ==
    /\ m \in approved /\ m \notin executed /\ trusted[c] /\ kind[t] # 0 /\ x > 0
    /\ IF kind[t] = 1
       THEN held' = [held EXCEPT ![t] = @ + x] /\ inflow' = [inflow EXCEPT ![t] = @ + x] /\ UNCHANGED outflow
       ELSE held[t] >= x /\ held' = [held EXCEPT ![t] = @ - x] /\ outflow' = [outflow EXCEPT ![t] = @ + x] /\ UNCHANGED inflow
    /\ executed' = executed \union {m}
    /\ acted' = [n \in executed \union {m} |-> IF n = m THEN 1 ELSE acted[n]]
    /\ lastOk' = (m \in approved /\ m \notin executed /\ trusted[c] /\ kind[t] # 0 /\ x > 0)
    /\ Remember
    /\ UNCHANGED <<kind, addr, trusted, approved>>

(* the gateway approves a message for the service (signers' business: any id, any time; re-approval changes nothing) *)
Approve(m) ==
    /\ approved' = approved \union {m}
    /\ Remember
    /\ UNCHANGED <<kind, addr, held, inflow, outflow, trusted, executed, acted, lastOk>>

(* the token's own minter mints, or somebody sends canonical tokens to the service *)
Donate(t, x) ==
    /\ kind[t] # 0 /\ x >= 0
    /\ held' = [held EXCEPT ![t] = @ + x] /\ inflow' = [inflow EXCEPT ![t] = @ + x]
    /\ Remember
    /\ UNCHANGED <<kind, addr, outflow, trusted, approved, executed, acted, lastOk>>

SetTrusted(c, b) ==
    /\ trusted' = [trusted EXCEPT ![c] = b]
    /\ Remember
    /\ UNCHANGED <<kind, addr, held, inflow, outflow, approved, executed, acted, lastOk>>

Next ==
    \/ \E t \in Ids, k \in {1, 2}, a \in Int, s \in Int : Register(t, k, a, s)
    \/ \E t \in Ids, x \in Int, c \in Chains : Outbound(t, x, c)
    \/ \E m \in approved, t \in Ids, x \in Int, c \in Chains : Inbound(m, t, x, c)
    \/ \E m \in Int : Approve(m)
    \/ \E t \in Ids, x \in Int : Donate(t, x)
    \/ \E c \in Chains, b \in BOOLEAN : SetTrusted(c, b)

IndInv ==
    /\ \A t \in Ids :
        /\ kind[t] \in {0, 1, 2}
        /\ (kind[t] = 0) = (addr[t] = 0)
        /\ addr[t] >= 0
        /\ held[t] >= 0 /\ inflow[t] >= 0 /\ outflow[t] >= 0
        /\ held[t] = inflow[t] - outflow[t]
        /\ kind[t] = 0 => held[t] = 0 /\ inflow[t] = 0
        /\ prevKind[t] # 0 => (kind[t] = prevKind[t] /\ addr[t] = prevAddr[t])
    /\ \A t \in Ids, u \in Ids : (addr[t] = addr[u] /\ addr[t] # 0) => t = u
    /\ executed \subseteq approved
    /\ DOMAIN acted = executed
    /\ \A m \in executed : acted[m] = 1
    /\ lastOk

IndInit ==
    /\ kind = Gen(3) /\ addr = Gen(3) /\ held = Gen(3) /\ inflow = Gen(3) /\ outflow = Gen(3)
    /\ trusted = Gen(2) /\ approved = Gen(4) /\ executed = Gen(4) /\ acted = Gen(4)
    /\ prevKind = Gen(3) /\ prevAddr = Gen(3) /\ lastOk = Gen(1)
    /\ DOMAIN kind = Ids /\ DOMAIN addr = Ids /\ DOMAIN held = Ids /\ DOMAIN inflow = Ids /\ DOMAIN outflow = Ids
    /\ DOMAIN prevKind = Ids /\ DOMAIN prevAddr = Ids /\ DOMAIN trusted = Chains
    /\ IndInv

(* sanity: from an invariant state with an approved, unexecuted message, a trusted chain and custody, a release happens *)
NotInvariant == outflow["t1"] = 0
RefuteInit == IndInit /\ kind["t1"] = 2 /\ held["t1"] > 0 /\ outflow["t1"] = 0 /\ trusted["c1"] /\ approved # executed
=============================================================================
