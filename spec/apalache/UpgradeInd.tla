------------------------------ MODULE UpgradeInd ------------------------------
(* Unbounded-history argument for C15 on the DESIGN of the derived upgrade / migrate   *)
(* protocol (spec/Upgrade.tla, `Derived` code on both sides of every upgrade, restated  *)
(* with typed, primed variables for Apalache).  Owners and code versions are integers,   *)
(* so ownership may change hands and code may be replaced any number of times; the TLC    *)
(* instances MC_C15_* explore all sequences up to a bounded length over two owners and     *)
(* three pieces of code.                                                                    *)
(*                                                                                        *)
(*   - the window is open exactly when at least one upgrade happened since the last         *)
(*     migration (so a migration never runs twice for one upgrade, nor without one);        *)
(*   - migrations never outnumber upgrades;                                                  *)
(*   - when the window is closed the announced version is the version of the running code;   *)
(*   - the last upgrade, the last migration and the last change of owner were authorised     *)
(*     by the owner of that moment - not by a former owner;                                   *)
(*   - a step of the Upgrader is both steps or none: it ends with the window closed and the    *)
(*     requested version running and announced.                                                *)
(*                                                                                        *)
(*   Init => IndInv            (apalache-mc check --init=Init    --length=0 --inv=IndInv)   *)
(*   IndInv /\ Next => IndInv' (apalache-mc check --init=IndInit --length=1 --inv=IndInv)   *)
EXTENDS Integers, Apalache

VARIABLES
    \* @type: Int;
    owner,
    \* @type: Int;
    code,               \* version of the running code
    \* @type: Int;
    announced,          \* version carried by the last `upgraded` event (initially: the deployed code)
    \* @type: Bool;
    migrating,          \* the migration window
    \* @type: Int;
    upgrades,
    \* @type: Int;
    migrations,
    \* @type: Int;
    upSinceMig,         \* history: upgrades since the last migration
    \* @type: Bool;
    lastByOwner,        \* history: the last administrative step was authorised by the owner at that moment
    \* @type: Bool;
    lastMigHadUpgrade,  \* history: the last migration found a preceding, not yet migrated upgrade
    \* @type: Bool;
    lastReqOk           \* history: the last Upgrader step ended at the version it was asked for, different from the one before

Init ==
    /\ owner \in Int /\ code \in Int /\ announced = code
    /\ migrating = FALSE /\ upgrades = 0 /\ migrations = 0 /\ upSinceMig = 0
    /\ lastByOwner = TRUE /\ lastMigHadUpgrade = TRUE /\ lastReqOk = TRUE

(* upgrade(new_wasm_hash) *)
Upgrade(caller, new) ==
    /\ caller = owner
    /\ code' = new /\ migrating' = TRUE
    /\ upgrades' = upgrades + 1 /\ upSinceMig' = upSinceMig + 1
    /\ lastByOwner' = (caller = owner)
    /\ UNCHANGED <<owner, announced, migrations, lastMigHadUpgrade, lastReqOk>>

(* migrate(data) *)
Migrate(caller) ==
    /\ caller = owner /\ migrating
    /\ migrating' = FALSE /\ announced' = code
    /\ migrations' = migrations + 1 /\ upSinceMig' = 0
    /\ lastByOwner' = (caller = owner)
    /\ lastMigHadUpgrade' = (upSinceMig >= 1)
    /\ UNCHANGED <<owner, code, upgrades, lastReqOk>>

(* Upgrader.upgrade(target, version, hash, data): both steps in one transaction, or nothing *)
ViaUpgrader(authUp, authMig, new, requested) ==
    /\ requested # code /\ authUp = owner /\ authMig = owner /\ requested = new
    /\ code' = new /\ announced' = new /\ migrating' = FALSE
    /\ upgrades' = upgrades + 1 /\ migrations' = migrations + 1 /\ upSinceMig' = 0
    /\ lastByOwner' = (authUp = owner /\ authMig = owner)
    /\ lastMigHadUpgrade' = TRUE
    /\ lastReqOk' = (new = requested /\ new # code)
    /\ UNCHANGED owner

TransferOwnership(caller, new) ==
    /\ caller = owner /\ owner' = new
    /\ lastByOwner' = (caller = owner)
    /\ UNCHANGED <<code, announced, migrating, upgrades, migrations, upSinceMig, lastMigHadUpgrade, lastReqOk>>

Next ==
    \/ \E c \in Int, n \in Int : Upgrade(c, n)
    \/ \E c \in Int : Migrate(c)
    \/ \E a \in Int, b \in Int, n \in Int, r \in Int : ViaUpgrader(a, b, n, r)
    \/ \E c \in Int, n \in Int : TransferOwnership(c, n)

IndInv ==
    /\ migrating = (upSinceMig >= 1)
    /\ upSinceMig >= 0 /\ migrations >= 0
    /\ upgrades >= migrations + upSinceMig
    /\ ~migrating => announced = code
    /\ lastByOwner /\ lastMigHadUpgrade /\ lastReqOk

IndInit ==
    /\ owner = Gen(1) /\ code = Gen(1) /\ announced = Gen(1) /\ migrating = Gen(1)
    /\ upgrades = Gen(1) /\ migrations = Gen(1) /\ upSinceMig = Gen(1)
    /\ lastByOwner = Gen(1) /\ lastMigHadUpgrade = Gen(1) /\ lastReqOk = Gen(1)
    /\ IndInv

(* sanity: the step is not vacuous - from a state with the window open a migration is possible *)
NotInvariant == migrating
RefuteInit == IndInit /\ migrating
=============================================================================
