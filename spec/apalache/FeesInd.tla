------------------------------- MODULE FeesInd -------------------------------
(* Unbounded-history, unbounded-amount argument for the balance equation of C14   *)
(* on the DESIGN of the gas service with the operators contract as its collector    *)
(* (spec/GasService.tla and spec/Fees.tla restated with typed, primed variables for  *)
(* Apalache; one token):                                                              *)
(*     holding of the service = paid in - paid out (+ what was simply sent to it),    *)
(*     no balance is ever negative, the token's supply is constant,                    *)
(*     and the holding shrinks only in a step taken by a current operator.              *)
(* IndInv is an inductive invariant:                                                    *)
(*   Init => IndInv            (apalache-mc check --length=0 --inv=IndInv)              *)
(*   IndInv /\ Next => IndInv' (apalache-mc check --init=IndInit --length=1 ...)        *)
(* The TLC instances bound amounts by 2-3 units per token; here they are integers.      *)
EXTENDS Integers, FiniteSets, Apalache

\* @type: Set(Str);
Accts == {"alice", "bob", "carol", "gs"}
\* @type: Set(Str);
Users == {"alice", "bob", "carol"}
\* @type: Set(Str);
OpAccts == {"op1", "op2"}

VARIABLES
    \* @type: Str -> Int;
    bal,
    \* @type: Str -> Bool;
    ops,
    \* @type: Int;
    paidIn,
    \* @type: Int;
    paidOut,
    \* @type: Int;
    donated,
    \* @type: Int;
    supply,
    \* @type: Bool;
    lastByOperator      \* the last step that shrank the holding was taken by a current operator (history variable)

\* @type: (Int, Str) => Int;
Plus(acc, a) == acc + bal[a]
Total == ApaFoldSet(Plus, 0, Accts)

Init ==
    /\ bal = Gen(4) /\ DOMAIN bal = Accts /\ (\A a \in Accts : bal[a] >= 0) /\ bal["gs"] = 0
    /\ ops = [o \in OpAccts |-> FALSE]
    /\ paidIn = 0 /\ paidOut = 0 /\ donated = 0
    /\ supply = Total
    /\ lastByOperator = TRUE

(* pay_gas / add_gas *)
Pay(sp, x) ==
    /\ x > 0 /\ bal[sp] >= x
    /\ bal' = [bal EXCEPT ![sp] = @ - x, !["gs"] = @ + x]
    /\ paidIn' = paidIn + x
    /\ UNCHANGED <<ops, paidOut, donated, supply, lastByOperator>>

(* operators.execute(o, gas_service, collect_fees | refund, ...): the only way out *)
PayOut(o, rc, x, isRefund) ==
    /\ ops[o]
    /\ (IF isRefund THEN x >= 0 ELSE x > 0) /\ bal["gs"] >= x
    /\ bal' = IF rc = "gs" THEN bal ELSE [bal EXCEPT !["gs"] = @ - x, ![rc] = @ + x]
    /\ paidOut' = IF rc = "gs" THEN paidOut ELSE paidOut + x
    /\ lastByOperator' = ops[o]
    /\ UNCHANGED <<ops, paidIn, donated, supply>>

(* the token's other holders move funds among themselves, or simply send some to the service *)
Move(f, t, x) ==
    /\ x >= 0 /\ bal[f] >= x /\ f # t
    /\ bal' = [bal EXCEPT ![f] = @ - x, ![t] = @ + x]
    /\ donated' = IF t = "gs" THEN donated + x ELSE donated
    /\ UNCHANGED <<ops, paidIn, paidOut, supply, lastByOperator>>

SetOperator(o, b) ==
    /\ ops' = [ops EXCEPT ![o] = b]
    /\ UNCHANGED <<bal, paidIn, paidOut, donated, supply, lastByOperator>>

Next ==
    \/ \E sp \in Users, x \in Int : Pay(sp, x)
    \/ \E o \in OpAccts, rc \in Accts, x \in Int, r \in BOOLEAN : PayOut(o, rc, x, r)
    \/ \E f \in Users, t \in Accts, x \in Int : Move(f, t, x)
    \/ \E o \in OpAccts, b \in BOOLEAN : SetOperator(o, b)

IndInv ==
    /\ \A a \in Accts : bal[a] >= 0
    /\ bal["gs"] = paidIn - paidOut + donated
    /\ paidIn >= 0 /\ paidOut >= 0 /\ donated >= 0
    /\ Total = supply
    /\ lastByOperator

(* sanity: from an invariant state in which nothing has been paid out yet, a member exists and the service holds
   something, "nothing is ever paid out" must be refuted - by a PayOut step (the inductive step is not vacuous) *)
NotInvariant == paidOut = 0

IndInit ==
    /\ bal = Gen(4) /\ ops = Gen(2)
    /\ paidIn = Gen(1) /\ paidOut = Gen(1) /\ donated = Gen(1) /\ supply = Gen(1)
    /\ lastByOperator = Gen(1)
    /\ DOMAIN bal = Accts /\ DOMAIN ops = OpAccts
    /\ IndInv
RefuteInit == IndInit /\ paidOut = 0 /\ bal["gs"] > 0 /\ ops["op1"]
=============================================================================
