------------------------------ MODULE TokenInd ------------------------------
(* Unbounded-history argument for two clauses of C12 on the DESIGN of the token  *)
(* ledger (spec/Token.tla restated with typed, primed variables for Apalache):    *)
(* no balance or allowance is ever negative, and the total supply always equals    *)
(* what was minted minus what was burned.  IndInv is an inductive invariant:       *)
(*   Init => IndInv            (apalache-mc check --length=0 --inv=IndInv)         *)
(*   IndInv /\ Next => IndInv' (apalache-mc check --init=IndInit --length=1 ...)   *)
(* Amounts are unbounded integers here (TLC instances bound them by a lattice).   *)
EXTENDS Integers, FiniteSets, Apalache

\* @type: Set(Str);
Accts == {"alice", "bob", "carol", "owner"}

VARIABLES
    \* @type: Str -> Int;
    bal,
    \* @type: <<Str, Str>> -> Int;
    allowAmt,
    \* @type: <<Str, Str>> -> Int;
    allowExp,
    \* @type: Str -> Bool;
    minters,
    \* @type: Int;
    seq,
    \* @type: Int;
    minted,
    \* @type: Int;
    burned

\* @type: (Int, Str) => Int;
Plus(acc, a) == acc + bal[a]
Supply == ApaFoldSet(Plus, 0, Accts)

\* @type: (Str, Str) => Int;
Eff(f, s) == IF allowExp[<<f, s>>] < seq THEN 0 ELSE allowAmt[<<f, s>>]

Init ==
    /\ bal = [a \in Accts |-> 0]
    /\ allowAmt = [p \in Accts \X Accts |-> 0]
    /\ allowExp = [p \in Accts \X Accts |-> 0]
    /\ minters = [a \in Accts |-> a = "owner"]
    /\ seq = 1 /\ minted = 0 /\ burned = 0

Mint(m, to, x) ==
    /\ minters[m] /\ x >= 0
    /\ bal' = [bal EXCEPT ![to] = @ + x]
    /\ minted' = minted + x
    /\ UNCHANGED <<allowAmt, allowExp, minters, seq, burned>>

Approve(f, s, x, e) ==
    /\ x >= 0 /\ ~(x > 0 /\ e < seq)
    /\ allowAmt' = [allowAmt EXCEPT ![<<f, s>>] = x]
    /\ allowExp' = [allowExp EXCEPT ![<<f, s>>] = e]
    /\ UNCHANGED <<bal, minters, seq, minted, burned>>

Transfer(f, t, x) ==
    /\ x >= 0 /\ bal[f] >= x
    /\ bal' = IF f = t THEN bal ELSE [bal EXCEPT ![f] = @ - x, ![t] = @ + x]
    /\ UNCHANGED <<allowAmt, allowExp, minters, seq, minted, burned>>

TransferFrom(s, f, t, x) ==
    /\ x >= 0 /\ Eff(f, s) >= x /\ bal[f] >= x
    /\ bal' = IF f = t THEN bal ELSE [bal EXCEPT ![f] = @ - x, ![t] = @ + x]
    /\ allowAmt' = IF x > 0 THEN [allowAmt EXCEPT ![<<f, s>>] = Eff(f, s) - x] ELSE allowAmt
    /\ UNCHANGED <<allowExp, minters, seq, minted, burned>>

Burn(f, x) ==
    /\ x >= 0 /\ bal[f] >= x
    /\ bal' = [bal EXCEPT ![f] = @ - x]
    /\ burned' = burned + x
    /\ UNCHANGED <<allowAmt, allowExp, minters, seq, minted>>

BurnFrom(s, f, x) ==
    /\ x >= 0 /\ Eff(f, s) >= x /\ bal[f] >= x
    /\ bal' = [bal EXCEPT ![f] = @ - x]
    /\ burned' = burned + x
    /\ allowAmt' = IF x > 0 THEN [allowAmt EXCEPT ![<<f, s>>] = Eff(f, s) - x] ELSE allowAmt
    /\ UNCHANGED <<allowExp, minters, seq, minted>>

SetMinter(m, b) ==
    /\ minters' = [minters EXCEPT ![m] = b]
    /\ UNCHANGED <<bal, allowAmt, allowExp, seq, minted, burned>>

Advance ==
    /\ seq' = seq + 1
    /\ UNCHANGED <<bal, allowAmt, allowExp, minters, minted, burned>>

Next ==
    \/ \E m \in Accts, to \in Accts, x \in Int : Mint(m, to, x)
    \/ \E f \in Accts, s \in Accts, x \in Int, e \in Int : Approve(f, s, x, e)
    \/ \E f \in Accts, t \in Accts, x \in Int : Transfer(f, t, x)
    \/ \E s \in Accts, f \in Accts, t \in Accts, x \in Int : TransferFrom(s, f, t, x)
    \/ \E f \in Accts, x \in Int : Burn(f, x)
    \/ \E s \in Accts, f \in Accts, x \in Int : BurnFrom(s, f, x)
    \/ \E m \in Accts, b \in BOOLEAN : SetMinter(m, b)
    \/ Advance

IndInv ==
    /\ \A a \in Accts : bal[a] >= 0
    /\ \A p \in Accts \X Accts : allowAmt[p] >= 0
    /\ Supply = minted - burned
    /\ minted >= 0 /\ burned >= 0 /\ seq >= 1

(* sanity: a non-invariant must be refuted from IndInit (the inductive step is not vacuous) *)
NotInvariant == minted <= 5

(* arbitrary state satisfying the type shape and the invariant: start of the inductive step *)
IndInit ==
    /\ bal = Gen(4) /\ allowAmt = Gen(16) /\ allowExp = Gen(16) /\ minters = Gen(4)
    /\ seq = Gen(1) /\ minted = Gen(1) /\ burned = Gen(1)
    /\ DOMAIN bal = Accts /\ DOMAIN minters = Accts
    /\ DOMAIN allowAmt = Accts \X Accts /\ DOMAIN allowExp = Accts \X Accts
    /\ IndInv
=============================================================================
