------------------------------ MODULE BridgeInd ------------------------------
(* Unbounded-history, unbounded-amount argument on the DESIGN of two deployments of the  *)
(* token service joined by the hub (spec/Bridge.tla restated with typed, primed           *)
(* variables for Apalache) for one token: canonical on the home chain (the home service    *)
(* locks and releases), service-deployed on the remote chain (the remote service mints      *)
(* and burns).  Messages in flight are functions id -> amount; the hub delivers any of       *)
(* them, in any order, each at most once; MC_Bridge has 2 units and <= 2 messages in flight.  *)
(*                                                                                        *)
(*   conservation: custody at home = supply on the remote chain + everything in flight       *)
(*                 in either direction;                                                       *)
(*   consequence : what is in flight toward home never exceeds the custody - a release        *)
(*                 is never refused for lack of custody (the `custody` guard of C04/C05        *)
(*                 cannot fail for a message the other deployment really sent);                *)
(*   exactly once: a delivered message is no longer in flight and ids are never reused.         *)
(*                                                                                        *)
(*   Init => IndInv            (apalache-mc check --init=Init    --length=0 --inv=IndInv)   *)
(*   IndInv /\ Next => IndInv' (apalache-mc check --init=IndInit --length=1 --inv=IndInv)   *)
EXTENDS Integers, FiniteSets, Apalache

VARIABLES
    \* @type: Int;
    custody,        \* held by the home service
    \* @type: Int;
    supplyR,        \* total supply of the remote token
    \* @type: Int -> Int;
    toRemote,       \* in flight home -> remote: id -> amount
    \* @type: Int -> Int;
    toHome,         \* in flight remote -> home
    \* @type: Set(Int);
    used,           \* message ids ever sent
    \* @type: Bool;
    lastReleaseCovered   \* history: the last release found enough custody

\* @type: (Int -> Int) => Int;
Sum(f) == LET \* @type: (Int, Int) => Int;
              Add(acc, k) == acc + f[k]
          IN ApaFoldSet(Add, 0, DOMAIN f)

\* @type: (Int -> Int, Int) => (Int -> Int);
Without(f, m) == [k \in DOMAIN f \ {m} |-> f[k]]
\* @type: (Int -> Int, Int, Int) => (Int -> Int);
With(f, m, x) == [k \in DOMAIN f \union {m} |-> IF k = m THEN x ELSE f[k]]

Init ==
    /\ custody = 0 /\ supplyR = 0
    /\ toRemote = [k \in {} |-> 0] /\ toHome = [k \in {} |-> 0]
    /\ used = {} /\ lastReleaseCovered = TRUE

(* home: interchain_transfer of the canonical token - lock and announce *)
SendOut(m, x) ==
    /\ x > 0 /\ m \notin used
    /\ custody' = custody + x /\ toRemote' = With(toRemote, m, x) /\ used' = used \union {m}
    /\ UNCHANGED <<supplyR, toHome, lastReleaseCovered>>

(* remote: the hub delivers - mint *)
ArriveRemote(m) ==
    /\ m \in DOMAIN toRemote
    /\ supplyR' = supplyR + toRemote[m] /\ toRemote' = Without(toRemote, m)
    /\ UNCHANGED <<custody, toHome, used, lastReleaseCovered>>

(* remote: interchain_transfer back - burn and announce *)
SendBack(m, x) ==
    /\ x > 0 /\ m \notin used /\ supplyR >= x
    /\ supplyR' = supplyR - x /\ toHome' = With(toHome, m, x) /\ used' = used \union {m}
    /\ UNCHANGED <<custody, toRemote, lastReleaseCovered>>

(* home: the hub delivers - release from custody *)
ArriveHome(m) ==
    /\ m \in DOMAIN toHome
    /\ lastReleaseCovered' = (custody >= toHome[m])
    /\ custody' = custody - toHome[m] /\ toHome' = Without(toHome, m)
    /\ UNCHANGED <<supplyR, toRemote, used>>

Next ==
    \/ \E m \in Int, x \in Int : SendOut(m, x)
    \/ \E m \in DOMAIN toRemote : ArriveRemote(m)
    \/ \E m \in Int, x \in Int : SendBack(m, x)
    \/ \E m \in DOMAIN toHome : ArriveHome(m)

IndInv ==
    /\ custody >= 0 /\ supplyR >= 0
    /\ \A m \in DOMAIN toRemote : toRemote[m] > 0 /\ m \in used
    /\ \A m \in DOMAIN toHome : toHome[m] > 0 /\ m \in used
    /\ DOMAIN toRemote \intersect DOMAIN toHome = {}
    /\ custody = supplyR + Sum(toRemote) + Sum(toHome)
    /\ lastReleaseCovered

IndInit ==
    /\ custody = Gen(1) /\ supplyR = Gen(1) /\ toRemote = Gen(3) /\ toHome = Gen(3) /\ used = Gen(7)
    /\ lastReleaseCovered = Gen(1)
    /\ IndInv

(* sanity: something in flight toward home is released *)
NotInvariant == Cardinality(DOMAIN toHome) >= 1
RefuteInit == IndInit /\ Cardinality(DOMAIN toHome) = 1
=============================================================================
