------------------------------ MODULE GatewayInd ------------------------------
(* Unbounded-history argument for the gateway DESIGN (spec/Gateway.tla restated with  *)
(* typed, primed variables for Apalache): epochs, ledger time, retention and the       *)
(* minimum rotation delay are arbitrary integers, signer sets and message contents     *)
(* are integers (injective hashes), so no bound on the number of rotations, on the      *)
(* clock or on the configured constants enters the argument - the TLC instances go      *)
(* to 4-6 rotations, retention 0/1/2/9/15/16/20/u64::MAX and delay 0/1/10/30/u64::MAX.  *)
(*                                                                                      *)
(*  C03  every installed set has exactly one epoch in 1..epoch, no two sets share one,   *)
(*       the number of installed sets IS the epoch (each success advances it by one,     *)
(*       a set is never installed twice, nothing is ever forgotten);                      *)
(*  C08  a proof is honoured only at distance <= retention from the newest epoch;         *)
(*  C09  a rotation without bypass is honoured only from the newest set and only          *)
(*       minDelay after the previous one; a bypass only with the operator; every          *)
(*       success restarts the clock (lastRot = now at that step, lastRot <= now always);   *)
(*  C02  per message key the status moves only forward none -> approved -> executed,       *)
(*       the content recorded for a known key never changes, an executed key was           *)
(*       consumed exactly once, an unknown key never.                                      *)
(*                                                                                      *)
(* IndInv is an inductive invariant:                                                     *)
(*   Init => IndInv            (apalache-mc check --init=Init    --length=0 --inv=IndInv) *)
(*   IndInv /\ Next => IndInv' (apalache-mc check --init=IndInit --length=1 --inv=IndInv) *)
(* IndInit draws the set of installed sets with Gen(4): the step is checked from every    *)
(* invariant state with at most 4 installed sets at ARBITRARY epochs; IndInv is a          *)
(* universal formula over pairs of sets and a step adds one set, so a violating step from   *)
(* a larger state restricts to one with the offending pair, the proof's set and the new     *)
(* set (<= 4).  The cardinality conjunct is the exception (it is not closed under           *)
(* restriction); it is kept because with it IndInv implies "one set per epoch".             *)
EXTENDS Integers, FiniteSets, Apalache

\* @type: Set(Str);
MsgKeys == {"k1", "k2"}

VARIABLES
    \* @type: Int;
    epoch,
    \* @type: Set(Int);
    known,              \* signer sets ever installed (their hashes)
    \* @type: Int -> Int;
    epochOf,            \* DOMAIN = known
    \* @type: Int;
    now,
    \* @type: Int;
    lastRot,
    \* @type: Int;
    retention,          \* configuration: never changes
    \* @type: Int;
    minDelay,           \* configuration: never changes
    \* @type: Str -> Int;
    status,             \* 0 none, 1 approved, 2 executed
    \* @type: Str -> Int;
    content,            \* what was approved under the key, 0 = nothing
    \* @type: Str -> Int;
    execCount,
    \* history variables: the pre-state of the last step and what the last honoured proof looked like
    \* @type: Str -> Int;
    prevStatus,
    \* @type: Str -> Int;
    prevContent,
    \* @type: Int;
    lastDist,           \* epoch distance of the last honoured proof
    \* @type: Bool;
    lastRotOk,          \* the last rotation was by-the-book (see C09 above)
    \* @type: Int;
    prevEpoch

Remember == prevStatus' = status /\ prevContent' = content /\ prevEpoch' = epoch
Config == UNCHANGED <<retention, minDelay>>

Init ==
    /\ epoch = 1 /\ known = {1} /\ epochOf = [s \in {1} |-> 1]
    /\ now \in Int /\ now >= 0 /\ lastRot = now
    /\ retention \in Int /\ retention >= 0
    /\ minDelay \in Int /\ minDelay >= 0
    /\ status = [k \in MsgKeys |-> 0] /\ content = [k \in MsgKeys |-> 0] /\ execCount = [k \in MsgKeys |-> 0]
    /\ prevStatus = status /\ prevContent = content /\ prevEpoch = 1
    /\ lastDist = 0 /\ lastRotOk = TRUE

(* validate_proof: the set is installed, still retained, and carries threshold weight of valid signatures *)
ProofOk(p, enough) == p \in known /\ epoch - epochOf[p] <= retention /\ enough

Approve(p, enough, k, m) ==
    /\ ProofOk(p, enough) /\ m > 0
    /\ status' = [status EXCEPT ![k] = IF @ = 0 THEN 1 ELSE @]
    /\ content' = [content EXCEPT ![k] = IF status[k] = 0 THEN m ELSE @]
    /\ lastDist' = epoch - epochOf[p]
    /\ Remember /\ Config
    /\ UNCHANGED <<epoch, known, epochOf, now, lastRot, execCount, lastRotOk>>

Rotate(p, enough, n, bypass, opAuth) ==
    /\ bypass => opAuth
    /\ ProofOk(p, enough)
    /\ ~bypass => epochOf[p] = epoch
    /\ ~bypass => now - lastRot >= minDelay
    /\ n \notin known
    /\ epoch' = epoch + 1
    /\ known' = known \union {n}
    /\ epochOf' = [s \in known \union {n} |-> IF s = n THEN epoch + 1 ELSE epochOf[s]]
    /\ lastRot' = now
    /\ lastDist' = epoch - epochOf[p]
    /\ lastRotOk' = IF bypass THEN opAuth ELSE (epochOf[p] = epoch /\ now - lastRot >= minDelay)
    /\ Remember /\ Config
    /\ UNCHANGED <<now, status, content, execCount>>

Validate(k, m) ==
    /\ IF status[k] = 1 /\ content[k] = m
       THEN status' = [status EXCEPT ![k] = 2] /\ execCount' = [execCount EXCEPT ![k] = @ + 1]
       ELSE UNCHANGED <<status, execCount>>
    /\ Remember /\ Config
    /\ UNCHANGED <<epoch, known, epochOf, now, lastRot, content, lastDist, lastRotOk>>

Tick(dt) ==
    /\ dt >= 0 /\ now' = now + dt
    /\ Remember /\ Config
    /\ UNCHANGED <<epoch, known, epochOf, lastRot, status, content, execCount, lastDist, lastRotOk>>

Next ==
    \/ \E p \in known, enough \in BOOLEAN, k \in MsgKeys, m \in Int : Approve(p, enough, k, m)
    \/ \E p \in known, enough \in BOOLEAN, n \in Int, b \in BOOLEAN, o \in BOOLEAN : Rotate(p, enough, n, b, o)
    \/ \E k \in MsgKeys, m \in Int : Validate(k, m)
    \/ \E dt \in Int : Tick(dt)

IndInv ==
    /\ epoch >= 1 /\ DOMAIN epochOf = known
    /\ \A s \in known : 1 <= epochOf[s] /\ epochOf[s] <= epoch
    /\ \A s \in known, t \in known : epochOf[s] = epochOf[t] => s = t
    /\ Cardinality(known) = epoch
    /\ retention >= 0 /\ minDelay >= 0
    /\ lastRot <= now
    /\ 0 <= lastDist /\ lastDist <= retention
    /\ lastRotOk
    /\ prevEpoch <= epoch /\ epoch <= prevEpoch + 1
    /\ \A k \in MsgKeys :
        /\ status[k] \in {0, 1, 2}
        /\ (status[k] = 0) = (content[k] = 0)
        /\ execCount[k] = (IF status[k] = 2 THEN 1 ELSE 0)
        /\ prevStatus[k] <= status[k]
        /\ prevStatus[k] # 0 => prevContent[k] = content[k]

IndInit ==
    /\ epoch = Gen(1) /\ known = Gen(4) /\ epochOf = Gen(4)
    /\ now = Gen(1) /\ lastRot = Gen(1) /\ retention = Gen(1) /\ minDelay = Gen(1)
    /\ status = Gen(2) /\ content = Gen(2) /\ execCount = Gen(2)
    /\ prevStatus = Gen(2) /\ prevContent = Gen(2) /\ prevEpoch = Gen(1)
    /\ lastDist = Gen(1) /\ lastRotOk = Gen(1)
    /\ DOMAIN status = MsgKeys /\ DOMAIN content = MsgKeys /\ DOMAIN execCount = MsgKeys
    /\ DOMAIN prevStatus = MsgKeys /\ DOMAIN prevContent = MsgKeys
    /\ IndInv

(* sanity: the step is not vacuous - from an invariant state a rotation is possible and moves the epoch *)
NotInvariant == epoch = prevEpoch
RefuteInit == IndInit /\ epoch = prevEpoch
=============================================================================
