------------------------------ MODULE TraceAbi ------------------------------
(* Validation of recorded codec cases against Abi.tla: the contract's abi_encode of a  *)
(* random message must be Encode(m) (and must fail exactly when m is not representable);  *)
(* its abi_decode of random bytes / damaged encodings must be Decode(b), and whatever it    *)
(* accepts must re-encode to the input.  A panic is logged as err = "PANIC".                *)
EXTENDS Abi, Json, IOUtils
Rec == ndJsonDeserialize(IOEnv.TRACE)
NLines == Len(Rec)
VARIABLES l, bad

Problem(c) ==
    IF c.err = "PANIC" THEN "panic"
    ELSE IF c.op = "encode"
    THEN IF Representable(c.m) # c.ok THEN "encodable"
         ELSE IF c.ok /\ Encode(c.m) # c.out THEN "encoding" ELSE ""
    ELSE LET d == Decode(c.b) IN
         IF IsErr(d) # ~c.ok THEN "canonical"
         ELSE IF c.ok /\ d # c.m THEN "decoded_value"
         ELSE IF c.ok /\ ~c.reenc THEN "reencode" ELSE ""

Init == l = 2 /\ bad = 0
Next ==
    /\ l <= NLines
    /\ LET c == Rec[l]  p == Problem(c) IN
       /\ IF p = "" THEN TRUE
          ELSE PrintT(<<"TRES", ToJson([l |-> l, kind |-> p, op |-> c.op, ok |-> c.ok,
                                         spec |-> IF c.op = "encode" THEN [representable |-> Representable(c.m)]
                                                  ELSE [decodes |-> ~IsErr(Decode(c.b))]])>>)
       /\ bad' = IF p = "" THEN bad ELSE bad + 1
    /\ l' = l + 1
Accepted ==
    /\ TLCGet("stats").diameter = NLines
    /\ PrintT(<<"TRACE_DONE", NLines - 1, TLCGet("stats").diameter>>)
=============================================================================
