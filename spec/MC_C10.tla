------------------------------- MODULE MC_C10 -------------------------------
(* C10: the ITS codec is exact canonical Solidity ABI and never misdecodes.      *)
(* TLC is the independent encoder / decoder and the case generator:                *)
(*  - a catalogue of messages (both wrappers x both inner kinds; every dynamic      *)
(*    field at lengths 0, 1, 31, 32, 33 (+64, 65 in the thorough instance) with       *)
(*    patterns 00.., ff.., ascending; multi-byte UTF-8 names; amounts 0, 1, 2^64,     *)
(*    2^127-1; decimals 0, 7, 255) with their encodings;                             *)
(*  - for selected encodings every single-byte flip at every offset (masks 0x01,     *)
(*    0x80), every truncation, extensions by 1..33 bytes, every offset / length       *)
(*    word +-1 and +-32, type tags out of range, amounts 2^127, 2^128, 2^255,         *)
(*    decimals 256, invalid UTF-8 - each with the specification's verdict            *)
(*    (rejected, or the message it canonically encodes).                             *)
EXTENDS Abi, Json, SequencesExt
CONSTANTS Lens, MutEvery      \* lengths of dynamic fields; mutate every MutEvery-th base
VARIABLE i

Asc(n) == [k \in 1..n |-> (k * 7 + 3) % 256]
FF(n) == [k \in 1..n |-> 255]
Txt(n) == [k \in 1..n |-> 97 + (k % 26)]
Smile == <<240, 159, 152, 128>>
Zhong == <<228, 184, 173>>
Eacute == <<195, 169>>
Utf(n) == IF n >= 9 THEN Txt(n - 9) \o Smile \o Zhong \o Eacute
          ELSE IF n >= 2 THEN Txt(n - 2) \o Eacute ELSE Txt(n)
Pats(n) == {Zeros(n), FF(n), Asc(n)}
TxtPats(n) == {Txt(n), Utf(n)}

TokId == Asc(32)
A0 == Zeros(16)
A1 == Zeros(15) \o <<1>>
A64 == Zeros(7) \o <<1>> \o Zeros(8)
AMax == <<127>> \o FF(15)

T(outer, chain, src, dst, amt, data) ==
    [outer |-> outer, chain |-> chain, inner |-> "transfer", tokenId |-> TokId, src |-> src, dst |-> dst,
     amount |-> amt, data |-> data]
D(outer, chain, name, symbol, dec, minter) ==
    [outer |-> outer, chain |-> chain, inner |-> "deploy", tokenId |-> TokId, name |-> name, symbol |-> symbol,
     decimals |-> dec, minter |-> minter]

Outers == {"send", "recv"}
BaseSet ==
    {T(o, Txt(8), b, Asc(20), A1, <<>>) : o \in Outers, b \in UNION {Pats(n) : n \in Lens}}
    \cup {T(o, Txt(8), Asc(5), b, A64, Asc(3)) : o \in Outers, b \in UNION {Pats(n) : n \in Lens}}
    \cup {T(o, Txt(8), Asc(32), Asc(33), AMax, b) : o \in Outers, b \in UNION {Pats(n) : n \in Lens}}
    \cup {T(o, c, Asc(1), Asc(31), a, <<>>) : o \in Outers, c \in UNION {TxtPats(n) : n \in Lens}, a \in {A0, AMax}}
    \cup {D(o, Txt(8), nm, Txt(3), 7, <<>>) : o \in Outers, nm \in UNION {TxtPats(n) : n \in Lens}}
    \cup {D(o, Txt(8), Txt(4), sy, 0, Asc(20)) : o \in Outers, sy \in UNION {TxtPats(n) : n \in Lens}}
    \cup {D(o, Utf(12), Utf(33), Utf(9), d, b) : o \in Outers, d \in {0, 255}, b \in UNION {Pats(n) : n \in Lens}}
    \* not encodable: text that is not UTF-8
    \cup {D("send", Txt(8), <<97, 255, 98>>, Txt(3), 7, <<>>), D("recv", <<192, 128>>, Txt(4), Txt(3), 7, <<>>),
          T("send", <<237, 160, 128>>, Asc(5), Asc(5), A1, <<>>)}
Bases == SetToSeq(BaseSet)
N == Len(Bases)
Enc(k) == IF Representable(Bases[k]) THEN Encode(Bases[k]) ELSE <<>>

-----------------------------------------------------------------------------
(* mutations of an encoding *)
FlipByte(x, mask) == IF mask = 1 THEN (IF x % 2 = 0 THEN x + 1 ELSE x - 1)
                                 ELSE (IF x >= 128 THEN x - 128 ELSE x + 128)
ApplyMut(b, m) ==
    CASE m.kind = "flip" -> [b EXCEPT ![m.off + 1] = FlipByte(@, m.mask)]
      [] m.kind = "trunc" -> SubSeq(b, 1, Len(b) - m.n)
      [] m.kind = "extend" -> b \o [k \in 1..m.n |-> m.byte]
      [] m.kind = "setbytes" -> [k \in 1..Len(b) |-> IF k > m.off /\ k <= m.off + Len(m.bytes) THEN m.bytes[k - m.off] ELSE b[k]]
      \* a canonical wrapper around the first n bytes of the nested message (n below one word: not even a type tag)
      [] m.kind = "shortinner" ->
            LET S == WordVal(b, 64) + 32 IN
            SubSeq(b, 1, S - 32) \o EncBytes(SubSeq(b, S + 1, S + m.n))

InnerStart(b) == WordVal(b, 64) + 32
SmallWordOffsets(b) ==
    LET S == InnerStart(b) IN
    {32, 64, WordVal(b, 32), WordVal(b, 64), S + 64, S + 96, S + 160,
     S + WordVal(b, S + 64), S + WordVal(b, S + 96), S + WordVal(b, S + 160)}
Muts(b) ==
    LET S == InnerStart(b) IN
    {[kind |-> "flip", off |-> o, mask |-> mk] : o \in 0..(Len(b) - 1), mk \in {1, 128}}
    \cup {[kind |-> "trunc", n |-> k] : k \in 1..Len(b)}
    \cup {[kind |-> "shortinner", n |-> k] : k \in {0, 1, 16, 31, 32, 33, 64, 160, 191}}
    \cup {[kind |-> "extend", n |-> k, byte |-> y] : k \in 1..33, y \in {0, 255}}
    \cup {[kind |-> "setbytes", off |-> o, bytes |-> Word(WordVal(b, o) + d)] :
            o \in SmallWordOffsets(b), d \in {1, 32}}
    \cup {[kind |-> "setbytes", off |-> o, bytes |-> Word(WordVal(b, o) - d)] :
            o \in {x \in SmallWordOffsets(b) : WordVal(b, x) >= 32}, d \in {1, 32}}
    \cup {[kind |-> "setbytes", off |-> 0, bytes |-> Word(t)] : t \in {0, 1, 2, 5, 255}}
    \cup {[kind |-> "setbytes", off |-> S, bytes |-> Word(t)] : t \in {2, 3, 4, 5, 255}}
    \cup {[kind |-> "setbytes", off |-> S + 128, bytes |-> w] :
            w \in {Zeros(16) \o <<128>> \o Zeros(15), Zeros(15) \o <<1>> \o Zeros(16), <<128>> \o Zeros(31), Word(256)}}
    \cup {[kind |-> "setbytes", off |-> S + WordVal(b, S + 64) + 32, bytes |-> y] : y \in {<<255>>, <<192, 128>>}}

Mutated(k) == Representable(Bases[k]) /\ k % MutEvery = 0

-----------------------------------------------------------------------------
Init == i = 1
Next == i < N /\ i' = i + 1

(* the specification's own sanity, checked on every catalogue entry *)
RoundTrip == Representable(Bases[i]) => Decode(Enc(i)) = Bases[i]
Injective == \A j \in 1..(i - 1) : (Representable(Bases[i]) /\ Representable(Bases[j])) => Enc(i) # Enc(j)
CanonicalOnly ==
    Mutated(i) => \A m \in Muts(Enc(i)) :
        LET mb == ApplyMut(Enc(i), m)  d == Decode(mb) IN IsErr(d) \/ (Encode(d) = mb /\ Representable(d))

Res(ok, why, ret) == [ok |-> ok, why |-> why, fails |-> IF ok THEN {} ELSE {why}, free |-> FALSE, ret |-> ret, ev |-> <<>>]
Inst == [module |-> "Abi", N |-> N, Msgs |-> Bases, Enc |-> [k \in 1..N |-> Enc(k)]]
ASSUME PrintT(<<"INST", ToJson(Inst)>>)
Dump ==
    LET b == Enc(i)
        ms == IF Mutated(i) THEN SetToSeq(Muts(b)) ELSE <<>>
        rep == Representable(Bases[i])
    IN PrintT(<<"NODE", ToJson([pre |-> [s |-> "abi"],
        edges |-> <<[act |-> [name |-> "Encode", msg |-> i],
                     exp |-> IF rep THEN Res(TRUE, "ok", "enc_ok") ELSE Res(FALSE, "encodable", "none"), post |-> "same"]>>
                   \o (IF rep THEN <<[act |-> [name |-> "Decode", msg |-> i], exp |-> Res(TRUE, "ok", "dec_ok"), post |-> "same"]>>
                       ELSE <<>>)
                   \o [k \in 1..Len(ms) |->
                        LET d == Decode(ApplyMut(b, ms[k])) IN
                        [act |-> [name |-> "DecodeMut", base |-> i, mut |-> ms[k]],
                         exp |-> IF IsErr(d) THEN Res(FALSE, "canonical", "none") ELSE Res(TRUE, "ok", d),
                         post |-> "same"]]])>>)
=============================================================================
