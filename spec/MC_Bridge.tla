------------------------------ MODULE MC_Bridge ------------------------------
(* Two chains end to end (Bridge.tla).  Side A ("stellar"): alice deploys a token   *)
(* with supply 2 and registers a canonical token she holds 2 of; both are deployed   *)
(* remotely to side B ("stellar-2") and sent there; bob sends back.  Every            *)
(* announcement travels through the flight (any order, refusals keep the message:     *)
(* a transfer can overtake its token's deployment, side B can stop trusting side A     *)
(* and trust it again).  Gas is finite on both sides, so the instance is finite and     *)
(* explored completely.                                                                  *)
EXTENDS Bridge
VARIABLE sys

MC_Chains == {ChainA, ChainB}
MC_Accts == {"alice", "bob", "its", "gs"}
MC_Ids == {"iA1", "cS"}
MC_IdOf == [alice |-> [s1 |-> "iA1"]]
MC_IdCOf == [sac |-> "cS"]
MC_Canon == {"sac"}
MC_Metas == [good    |-> [nameLen |-> 10, symLen |-> 4, decimals |-> 7, utf8 |-> TRUE, style |-> "ascii"],
             sacMeta |-> [nameLen |-> 6,  symLen |-> 6, decimals |-> 7, utf8 |-> TRUE, style |-> "sac"]]
MC_Keys == {"k0"}

Amts == {1, 2}
MsgsFrom(o, snd, rcp) ==
    {[inner |-> "transfer", id |-> id, sender |-> snd, destAddr |-> rcp, amt |-> x, data |-> "none"] : id \in MC_Ids, x \in Amts}
AllMsgs ==
    {<<ChainA, m>> : m \in MsgsFrom(ChainA, "alice", "bob")}
    \cup {<<ChainB, m>> : m \in MsgsFrom(ChainB, "bob", "alice")}
    \cup {<<ChainA, [inner |-> "deploy", id |-> "iA1", meta |-> "good", minter |-> "none"]>>,
          <<ChainA, [inner |-> "deploy", id |-> "cS", meta |-> "sacMeta", minter |-> "none"]>>}
RawPayloads == [n \in {PName(om[1], om[2]) : om \in AllMsgs} |->
                   LET om == CHOOSE x \in AllMsgs : PName(x[1], x[2]) = n IN Delivered(om[1], om[2])]
MC_Payloads == WithDecodes(RawPayloads)
MC_Deliveries == [d0 |-> [key |-> "k0", srcChain |-> "axelar", srcAddr |-> "hub", dest |-> "its",
                          payload |-> PName(ChainA, [inner |-> "deploy", id |-> "iA1", meta |-> "good", minter |-> "none"])]]

Xfer(x, c, id, to, rcp, amt) ==
    [side |-> x, name |-> "InterchainTransfer", caller |-> c, id |-> id, dest |-> to, destAddr |-> rcp, amt |-> amt,
     data |-> "none", gas |-> 1, auth |-> {c}]
Acts(s) ==
    {[side |-> "A", name |-> "DeployInterchainToken", caller |-> "alice", salt |-> "s1", meta |-> "good", supply |-> 2,
      minter |-> "none", auth |-> {"alice"}],
     [side |-> "A", name |-> "RegisterCanonical", tok |-> "sac"],
     [side |-> "A", name |-> "DeployRemoteInterchainToken", caller |-> "alice", salt |-> "s1", dest |-> ChainB, gas |-> 1, auth |-> {"alice"}],
     [side |-> "A", name |-> "DeployRemoteCanonical", tok |-> "sac", dest |-> ChainB, spender |-> "alice", gas |-> 1, auth |-> {"alice"}]}
    \cup {Xfer("A", "alice", id, ChainB, "bob", x) : id \in MC_Ids, x \in Amts}
    \cup {Xfer("B", "bob", id, ChainA, "alice", x) : id \in MC_Ids, x \in Amts}
    \cup {[side |-> "B", name |-> n, chain |-> ChainA, auth |-> {"owner0"}] : n \in {"SetTrusted", "RemoveTrusted"}}
    \cup {[name |-> "Relay", i |-> i] : i \in 1..Len(s.flight)}

InitSide(x) == [Blank("owner0") EXCEPT !.trusted[NameOf(Other(x))] = TRUE,
                   !.bal["sac"]["alice"] = IF x = "A" THEN 2 ELSE 0,
                   !.gas["alice"] = IF x = "A" THEN 4 ELSE 0, !.gas["bob"] = IF x = "B" THEN 2 ELSE 0]
Init == sys = [A |-> InitSide("A"), B |-> InitSide("B"), flight |-> <<>>]
Next == \E a \in Acts(sys) : sys' = BApply(sys, a).post

-----------------------------------------------------------------------------
Bridge_ConservedNative == ConservedNative(sys, "iA1", "A", 2)
Bridge_ConservedCanonical == ConservedCanonical(sys, "cS", "A", "sac")
Bridge_RemoteMeta == \A id \in MC_Ids : RemoteMeta(sys, id, "A")
Bridge_NoOrphans == \A id \in MC_Ids : NoOrphans(sys, id, "A")
Bridge_NonNegative == NonNegative(sys.A) /\ NonNegative(sys.B)
(* every step of either side also satisfies that side's folding into Token.tla / GasService.tla *)
Bridge_Compose ==
    \A a \in Acts(sys) :
        IF a.name = "Relay"
        THEN LET m == sys.flight[a.i]  d == [name |-> "Deliver", payload |-> m.p] IN ComposeStep(sys[m.to], d, Apply(sys[m.to], d))
        ELSE ComposeStep(sys[a.side], a, Apply(sys[a.side], a))
(* everything in flight was announced: a refused relay leaves it there, an accepted one removes exactly it *)
Bridge_Flight ==
    \A a \in Acts(sys) :
        LET r == BApply(sys, a) IN
        /\ (~r.ok => r.post = sys /\ r.ev = <<>>)
        /\ (a.name = "Relay" /\ r.ok => Len(r.post.flight) = Len(sys.flight) - 1 + Len(Sent(sys.flight[a.i].to, r)))

BObs(s) == [A |-> Obs(s.A), B |-> Obs(s.B), flight |-> s.flight]
ASSUME PrintT(<<"INST", ToJson([module |-> "Bridge", ChainA |-> ChainA, ChainB |-> ChainB,
                                 its |-> InstBase(RawPayloads, <<>>)])>>)
Dump ==
    LET acts == SetToSeq(Acts(sys)) IN
    PrintT(<<"NODE", ToJson([pre |-> BObs(sys),
        edges |-> [i \in 1..Len(acts) |->
            LET r == BApply(sys, acts[i]) IN
            [act |-> IF acts[i].name = "Relay" THEN [acts[i] EXCEPT !.name = "Relay"] @@ [to |-> sys.flight[acts[i].i].to, payload |-> sys.flight[acts[i].i].p] ELSE acts[i],
             exp |-> [ok |-> r.ok, why |-> r.why, fails |-> r.fails, free |-> r.free, ret |-> r.ret, ev |-> r.ev],
             post |-> IF r.post = sys THEN "same" ELSE BObs(r.post)]]])>>)
=============================================================================
