CONSTANTS
  Sets <- MC_Sets
  GKeys <- MC_GKeys
  Msgs <- MC_Msgs
  Cap = 1000
  Retention = 1
  MinDelay = 0
  Chains <- MC_Chains
  Accts <- MC_Accts
  Ids <- MC_Ids
  IdOf <- MC_IdOf
  IdCOf <- MC_IdCOf
  Canon <- MC_Canon
  Metas <- MC_Metas
  Deliveries <- MC_Deliveries
  Payloads <- MC_Payloads
  Keys <- MC_Keys
  Deviations = {"its_minter_revoked", "its_hub_address_unchecked"}
INIT Init
NEXT Next
CHECK_DEADLOCK FALSE
INVARIANTS
  Sys_Gate
  Sys_Once
  Sys_ApprovalNeedsLiveSigners
  Sys_RotationKeepsApprovals
  Sys_Frame
  Sys_Sound
  Sys_RefinesITS
  Dump
