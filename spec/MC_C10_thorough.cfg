CONSTANTS
  Lens = {0, 1, 31, 32, 33, 64, 65}
  MutEvery = 7
INIT Init
NEXT Next
CHECK_DEADLOCK FALSE
INVARIANTS
  RoundTrip
  Injective
  CanonicalOnly
  Dump
