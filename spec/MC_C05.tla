------------------------------- MODULE MC_C05 -------------------------------
(* C05: interchain transfers conserve value and announce exactly what was taken. *)
(* Instance: two users, one service-deployed token and one canonical token (a      *)
(* Stellar asset contract), a second service-deployed token with a third-party       *)
(* minter; outbound transfers with amounts -1, 0, 1, 2, 3 (zero, negative, balance,   *)
(* balance+1), with and without data, to a trusted / untrusted chain, of a known /     *)
(* unknown token, with affordable / zero / unaffordable gas; inbound transfers that     *)
(* mint, release custody, exceed custody, call an accepting / trapping receiver;        *)
(* trusted-chain changes; deployments and registrations interleaved.  Every outbound     *)
(* transfer costs gas, so the state space is finite and explored completely.             *)
EXTENDS ITSMC
CONSTANTS Small,
          Donated,    \* units of the canonical token somebody simply sent to the service's address before the history starts:
                      \* the service holds them, but nobody locked them - an outbound transfer must still TAKE from the
                      \* sender (a service that pays the sender out of its holding would go unnoticed with an empty holding)
          CanonName   \* "sac": a Stellar asset contract; "itk": an interchain token built from the repository's source,
                      \* registered as a canonical token (the only way the token's SOURCE meets the service: the tokens
                      \* the service deploys itself run the pinned wasm)
VARIABLE st

MC_Chains == {"ethereum", "avalanche"}
MC_Accts == {"alice", "bob", "carol", "its", "gs", "app", "trap", "errapp"}
MC_Ids == {"iA1", "iB1", "cS", "r9"}
MC_IdOf == [alice |-> [s1 |-> "iA1"], bob |-> [s1 |-> "iB1"]]
MC_IdCOf == [x \in {CanonName} |-> "cS"]
MC_Canon == {CanonName}
MC_Metas == [good    |-> [nameLen |-> 10, symLen |-> 4, decimals |-> 7, utf8 |-> TRUE, style |-> "ascii"],
             sacMeta |-> [nameLen |-> 6,  symLen |-> 6, decimals |-> 7, utf8 |-> TRUE, style |-> "sac"]]
MC_Keys == {"k0"}
MC_Deliveries == [d0 |-> [key |-> "k0", srcChain |-> "axelar", srcAddr |-> "hub", dest |-> "its", payload |-> "in_n"]]

Tx(id, to, amt, data) == [outer |-> "recv", origin |-> "ethereum", inner |-> "transfer", id |-> id, sender |-> "evm1",
                          recipient |-> to, amt |-> amt, data |-> data, mut |-> NoMut]
RawPayloads ==
    [in_n  |-> Tx("iA1", "bob", 1, "none"), in_c |-> Tx("cS", "bob", 1, "none"), in_c3 |-> Tx("cS", "alice", 3, "none"),
     in_d  |-> Tx("iA1", "app", 1, "d1"),   in_t |-> Tx("iA1", "trap", 1, "d1"), in_e |-> Tx("iA1", "errapp", 1, "d1"), in_0 |-> Tx("iA1", "bob", 0, "none"),
     in_u  |-> Tx("r9", "bob", 1, "none"),
     \* the service itself as recipient: releasing custody to itself must leave custody where it was
     in_cs |-> Tx("cS", "its", 1, "none"),
     \* a canonical token released to a receiving contract together with data
     in_cd |-> Tx("cS", "app", 1, "d1"),
     \* announced amounts beyond i128 (2^128 + 1, 2^127): must be refused, never credited in part
     in_big  |-> [Tx("iA1", "bob", 1, "none") EXCEPT !.mut = [kind |-> "setinner", off |-> 128,
                    bytes |-> A!Zeros(15) \o <<1>> \o A!Zeros(15) \o <<1>>]],
     in_cbig |-> [Tx("cS", "bob", 1, "none") EXCEPT !.mut = [kind |-> "setinner", off |-> 128,
                    bytes |-> A!Zeros(15) \o <<1>> \o A!Zeros(15) \o <<1>>]],
     in_127  |-> [Tx("iA1", "bob", 1, "none") EXCEPT !.mut = [kind |-> "setinner", off |-> 128,
                    bytes |-> A!Zeros(16) \o <<128>> \o A!Zeros(15)]]]
MC_Payloads == WithDecodes(RawPayloads)

Callers == IF Small THEN {"alice"} ELSE {"alice", "bob"}
Amts == IF Small THEN {0, 1, 2, 3} ELSE {-1, 0, 1, 2, 3}
Xfer(c, id, dest, amt, data, gas) ==
    [name |-> "InterchainTransfer", caller |-> c, id |-> id, dest |-> dest, destAddr |-> "0xdest", amt |-> amt,
     data |-> data, gas |-> gas, auth |-> {c}]
Acts(s) ==
    {[name |-> "DeployInterchainToken", caller |-> "alice", salt |-> "s1", meta |-> "good", supply |-> 2,
      minter |-> "none", auth |-> {"alice"}],
     [name |-> "RegisterCanonical", tok |-> CanonName]}
    \cup (IF Small THEN {} ELSE
          {[name |-> "DeployInterchainToken", caller |-> "bob", salt |-> "s1", meta |-> "good", supply |-> 0,
            minter |-> "carol", auth |-> {"bob"}],
           [name |-> "MinterMint", id |-> "iB1", minter |-> "carol", to |-> "bob", amt |-> 1, auth |-> {"carol"}],
           Xfer("bob", "iB1", "ethereum", 1, "none", 1)})
    \cup {Xfer(c, id, "ethereum", x, "none", 1) : c \in Callers, id \in {"iA1", "cS"}, x \in Amts}
    \cup {Xfer(c, id, "ethereum", 1, "d1", 1) : c \in Callers, id \in {"iA1", "cS"}}
    \* data of exactly one byte and of exactly one word: announced as given
    \cup {Xfer("alice", id, "ethereum", 1, d, 1) : id \in {"iA1", "cS"}, d \in {"b1", "b32"}}
    \cup {Xfer("alice", id, "avalanche", 1, "none", 1) : id \in {"iA1", "cS"}}
    \cup {Xfer("alice", "r9", "ethereum", 1, "none", 1)}
    \cup {Xfer("alice", id, "ethereum", 1, "none", g) : id \in {"iA1", "cS"}, g \in {-1, 0, 9}}
    \cup {[name |-> "Deliver", payload |-> p] : p \in DOMAIN RawPayloads}
    \cup {[name |-> n, chain |-> "ethereum", auth |-> {"owner0"}] : n \in {"SetTrusted", "RemoveTrusted"}}

Within(s) == s.bal["iA1"]["bob"] <= (IF Small THEN 1 ELSE 2) /\ s.bal["iA1"]["app"] <= 1 /\ s.bal["iB1"]["bob"] <= 1
             /\ s.bal[CanonName]["app"] <= 1
InitState == [Blank("owner0") EXCEPT !.trusted["ethereum"] = TRUE,
                 !.bal[CanonName]["alice"] = 2, !.bal[CanonName]["its"] = Donated, !.bal[CanonName]["bob"] = IF Small THEN 0 ELSE 1,
                 !.gas["alice"] = IF Small THEN 2 ELSE 3, !.gas["bob"] = IF Small THEN 0 ELSE 1]
Init == st = InitState
EnabledActs(s) == {a \in Acts(s) : Within(Apply(s, a).post)}
Next == \E a \in EnabledActs(st) : st' = Apply(st, a).post

-----------------------------------------------------------------------------
Step(P(_, _, _)) == \A a \in EnabledActs(st) : P(st, a, Apply(st, a))
Custody(s, a, r) ==
    LET d == r.post.bal[CanonName]["its"] - s.bal[CanonName]["its"] IN
    /\ r.post.bal[CanonName]["its"] >= 0
    /\ IF a.name = "InterchainTransfer" /\ r.ok /\ a.id = "cS" THEN d = a.amt
       ELSE IF a.name = "Deliver" /\ r.ok /\ Payloads[a.payload].id = "cS"
            \* released to the service itself: what leaves custody comes straight back
            THEN d = IF Payloads[a.payload].recipient = "its" THEN 0 ELSE 0 - Payloads[a.payload].amt
       ELSE d = 0
    /\ Supply(r.post, CanonName) = Supply(s, CanonName)
NativeSupply(s, a, r) == \A t \in {"iA1", "iB1"} :
    LET d == Supply(r.post, t) - Supply(s, t) IN
    IF a.name = "InterchainTransfer" /\ r.ok /\ a.id = t THEN d = 0 - a.amt
    ELSE IF a.name = "Deliver" /\ r.ok /\ Payloads[a.payload].id = t THEN d = Payloads[a.payload].amt
    ELSE IF a.name = "MinterMint" /\ r.ok /\ a.id = t THEN d = a.amt
    ELSE IF a.name = "DeployInterchainToken" /\ r.ok /\ IdOf[a.caller][a.salt] = t THEN d = (IF a.supply > 0 THEN a.supply ELSE 0)
    ELSE d = 0
Out(s, a, r) ==
    (a.name = "InterchainTransfer" /\ r.ok) =>
        LET T == TokenOf(s, a.id) IN
        /\ a.amt > 0 /\ s.trusted[a.dest] /\ a.caller \in a.auth
        /\ r.post.bal[T][a.caller] = s.bal[T][a.caller] - a.amt
        /\ r.post.gas[a.caller] = s.gas[a.caller] - a.gas /\ r.post.gas["gs"] = s.gas["gs"] + a.gas /\ a.gas > 0
        /\ r.ev = <<[k |-> "gas_paid", spender |-> a.caller, amt |-> a.gas],
                    [k |-> "contract_called", dest |-> a.dest,
                     msg |-> [inner |-> "transfer", id |-> a.id, sender |-> a.caller, destAddr |-> a.destAddr,
                              amt |-> a.amt, data |-> a.data]]>>
In(s, a, r) ==
    (a.name = "Deliver" /\ r.ok) =>
        LET P == Payloads[a.payload]  T == TokenOf(s, P.id) IN
        r.post.bal[T][P.recipient] = s.bal[T][P.recipient] + (IF s.reg[P.id] = "lock" /\ P.recipient = "its" THEN 0 ELSE P.amt)
Frame(s, a, r) == ~r.ok => r.post = s /\ r.ev = <<>>
C05_Custody == Step(Custody)
C05_NativeSupply == Step(NativeSupply)
C05_Out == Step(Out)
C05_In == Step(In)
C05_Frame == Step(Frame)
C05_NonNegative == NonNegative(st)
Compose == Step(ComposeStep)

ASSUME PrintT(<<"INST", ToJson(InstBase(RawPayloads, <<"r9">>))>>)
Dump == DumpNode(st, EnabledActs(st))
=============================================================================
