----------------------------- MODULE MC_C07_gas -----------------------------
(* C07 on the gas service: pay_gas / add_gas take funds only with the spender's     *)
(* authorisation (for the whole call tree incl. the token transfer).                 *)
EXTENDS GasService, Json, SequencesExt
VARIABLE st
People == {"alice", "bob", "owner0", "col0", "mallory"}
Auths == {{p} : p \in People} \cup {{}}
HookActs == {[name |-> "HookOpenWindow"]}
Acts(s) == HookActs \cup {[name |-> n, sender |-> "bob", spender |-> "alice", token |-> t, amt |-> 1, auth |-> au] :
                n \in {"PayGas", "AddGas"}, t \in Tokens, au \in Auths}
           \* the service's own address named as spender by an outside caller
           \cup {[name |-> n, sender |-> "bob", spender |-> "gs", token |-> t, amt |-> 1, auth |-> au] :
                n \in {"PayGas", "AddGas"}, t \in Tokens, au \in {{}, {"mallory"}}}
           \* aliased parties: the sender pays for itself; the service's own address as sender AND spender
           \cup {[name |-> n, sender |-> "alice", spender |-> "alice", token |-> t, amt |-> 1, auth |-> au] :
                n \in {"PayGas", "AddGas"}, t \in Tokens, au \in {{}, {"alice"}, {"bob"}, {"owner0"}}}
           \cup {[name |-> n, sender |-> "gs", spender |-> "gs", token |-> t, amt |-> 1, auth |-> au] :
                n \in {"PayGas", "AddGas"}, t \in Tokens, au \in {{}, {"mallory"}}}
           \* `scoped`: the spender signed only a bare token transfer to the service, not this call
           \cup {[name |-> n, sender |-> sd, spender |-> "alice", token |-> t, amt |-> 1, auth |-> {}, scoped |-> {"alice"}] :
                n \in {"PayGas", "AddGas"}, sd \in {"alice", "bob"}, t \in Tokens}
InitState == [bal |-> [t \in Tokens |-> [x \in Accts |-> IF x = "alice" THEN 2 ELSE 0]], collector |-> "col0", owner |-> "owner0"]
(* `win`: the Upgradable interface's migration window is open (instance-level ghost, not observable; set by the
   verification hook).  Every action is explored with the window closed AND open. *)
WithWin(s, w) == [f \in DOMAIN s \cup {"win"} |-> IF f = "win" THEN w ELSE s[f]]
ApplyW(s, a) ==
    IF a.name = "HookOpenWindow"
    THEN [ok |-> TRUE, why |-> "ok", fails |-> {}, free |-> FALSE, ret |-> "unit", ev |-> <<>>, post |-> [s EXCEPT !.win = TRUE]]
    ELSE Apply(s, a)
Init == st = WithWin(InitState, FALSE)
Next == \E a \in Acts(st) : st' = ApplyW(st, a).post
Step(P(_, _, _)) == \A a \in Acts(st) : a.name # "HookOpenWindow" => P(st, a, ApplyW(st, a))
Named(s, a, r) == r.ok => a.spender \in a.auth
Frame(s, a, r) == ~r.ok => r.post = s /\ r.ev = <<>>
C07_Named == Step(Named)
C07_Frame == Step(Frame)
Inst == [module |-> "GasService", Tokens |-> Tokens, Accts |-> Accts]
ASSUME PrintT(<<"INST", ToJson(Inst)>>)
Dump ==
    LET acts == SetToSeq(Acts(st)) IN
    PrintT(<<"NODE", ToJson([pre |-> st,
        edges |-> [i \in 1..Len(acts) |->
            LET r == ApplyW(st, acts[i]) IN
            [act |-> acts[i],
             exp |-> [ok |-> r.ok, why |-> r.why, fails |-> r.fails, free |-> r.free, ret |-> r.ret, ev |-> r.ev],
             post |-> IF r.post = st THEN "same" ELSE r.post]]])>>)
=============================================================================
