----------------------------- MODULE MC_C06_its -----------------------------
(* C06 on the token service: trusted-chain changes and ownership transfer need the *)
(* current owner; every principal as sole authoriser, over role transfer histories.  *)
EXTENDS ITSMC, AuthShapes
VARIABLE st
MC_Chains == {"ethereum"}
MC_Accts == {"alice", "its", "gs"}
MC_Ids == {"iA1"}
MC_IdOf == [alice |-> [s1 |-> "iA1"]]
MC_IdCOf == [x \in {} |-> "none"]
MC_Canon == {}
MC_Metas == [good |-> [nameLen |-> 10, symLen |-> 4, decimals |-> 7, utf8 |-> TRUE, style |-> "ascii"]]
MC_Keys == {"k0"}
MC_Deliveries == [d0 |-> [key |-> "k0", srcChain |-> "axelar", srcAddr |-> "hub", dest |-> "its", payload |-> "p0"]]
RawPayloads == [p0 |-> [outer |-> "recv", origin |-> "ethereum", inner |-> "transfer", id |-> "iA1", sender |-> "evm1",
                        recipient |-> "alice", amt |-> 1, data |-> "none", mut |-> NoMut]]
MC_Payloads == WithDecodes(RawPayloads)
People == {"owner0", "bob", "mallory", "alice"}
Auths == {{p} : p \in People} \cup {{}}
Acts(s) ==
    {[name |-> n, chain |-> "ethereum", auth |-> au] : n \in {"SetTrusted", "RemoveTrusted"}, au \in Auths}
    \cup {[name |-> "TransferOwnership", new |-> n, auth |-> au] : n \in {"owner0", "bob"}, au \in Auths}
    \* the migration window of the Upgradable interface is open (hidden from this module): every role check must
    \* behave exactly as when it is closed
    \cup {[name |-> "HookOpenWindow"]}
    \* an entry that names the entry point but keeps only the arguments `keepArgs` (what require_auth_for_args with a subset of the
    \* arguments would ask for) is not an authorisation of this exact call
    \cup {[name |-> n, chain |-> "ethereum", auth |-> {}, scopedAuth |-> {s.owner}, keepArgs |-> <<>>] : n \in {"SetTrusted", "RemoveTrusted"}}
    \cup {[name |-> "TransferOwnership", new |-> "bob", auth |-> {}, scopedAuth |-> {s.owner}, keepArgs |-> <<>>]}
Init == st = Blank("owner0")
Next == \E a \in Acts(st) : st' = Apply(st, a).post
Step(P(_, _, _)) == \A a \in Acts(st) : a.name # "HookOpenWindow" => P(st, a, Apply(st, a))
OnlyHolder(s, a, r) == r.ok => s.owner \in a.auth
Successor(s, a, r) == r.post.owner = IF a.name = "TransferOwnership" /\ r.ok THEN a.new ELSE s.owner
Frame(s, a, r) == ~r.ok => r.post = s /\ r.ev = <<>>
C06_OnlyHolder == Step(OnlyHolder)
C06_Successor == Step(Successor)
C06_Frame == Step(Frame)
ASSUME PrintT(<<"INST", ToJson(InstBase(RawPayloads, <<>>))>>)
Dump == DumpNode(st, Acts(st))
=============================================================================
