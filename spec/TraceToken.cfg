CONSTANTS
  Accts <- TAccts
  Cap <- TCap
  MaxLive <- TMaxLive
INIT Init
NEXT Next
CHECK_DEADLOCK FALSE
POSTCONDITION Accepted
