---------------------------- MODULE TraceGateway ----------------------------
(* Trace validation (impl -> spec) for the gateway.  The harness logs, for     *)
(* every public call AFTER it returned: the projected state before, the action  *)
(* with its arguments and authorisers, the outcome (committed?, returned value, *)
(* events) and the projected state after.  Each line must be a step of          *)
(* Gateway!Apply from the logged pre-state; the one variable the API does not   *)
(* expose (the rotation clock) is inferred by this specification and carried     *)
(* from step to step.  State invariants of the design are evaluated on every     *)
(* state the implementation visited.  A line that does not match is printed      *)
(* (TRES) with the specification's expectation so that the driver can attribute  *)
(* it to the owning property; acceptance = every line consumed, no TRES line.    *)
EXTENDS Gateway, Json, IOUtils

Rec == ndJsonDeserialize(IOEnv.TRACE)
TInst == Rec[1]
TSets == TInst.Sets
TKeys == TInst.Keys
TMsgs == TInst.Msgs
TCap == TInst.Cap
TRetention == TInst.Retention
TMinDelay == TInst.MinDelay
NLines == Len(Rec)

VARIABLES l,        \* next line to consume
          lastRot,  \* inferred: time of the last successful rotation
          bad,      \* number of lines that did not match
          prev      \* projected state after the previous line (continuity of the log)

ToSet(sq) == {sq[i] : i \in DOMAIN sq}

StateOf(p, lr) ==
    [deployed |-> TRUE, epoch |-> p.epoch, hashByEpoch |-> p.hashByEpoch, epochOf |-> p.epochOf,
     lastRot |-> lr, now |-> p.now, status |-> p.status,
     execCount |-> [k \in KeyNames |-> IF p.status[k] = "executed" THEN 1 ELSE 0],
     owner |-> p.owner, operator |-> p.operator, hist |-> <<>>]

ActOf(a) == IF "auth" \in DOMAIN a THEN [a EXCEPT !.auth = ToSet(a.auth)] ELSE a

SameBag(s, t) ==
    /\ Len(s) = Len(t)
    /\ \A i \in DOMAIN s : Cardinality({j \in DOMAIN s : s[j] = s[i]}) = Cardinality({j \in DOMAIN t : t[j] = s[i]})

OwnKinds == {"message_approved", "message_executed", "signers_rotated", "contract_called",
             "ownership_transferred", "operatorship_transferred"}
Own(ev) == SelectSeq(ev, LAMBDA e : e.k \in OwnKinds)

Fields == <<"epoch", "hashByEpoch", "epochOf", "status", "owner", "operator">>
Diffs(specPost, post) ==
    {f \in ToSet(Fields) :
        CASE f = "epoch" -> specPost.epoch # post.epoch
          [] f = "hashByEpoch" -> specPost.hashByEpoch # post.hashByEpoch
          [] f = "epochOf" -> specPost.epochOf # post.epochOf
          [] f = "status" -> specPost.status # post.status
          [] f = "owner" -> specPost.owner # post.owner
          [] f = "operator" -> specPost.operator # post.operator}

(* kind of mismatch, "" if the line is a step of the specification *)
Verdict(line, r) ==
    IF line.obs.ok # r.ok THEN "outcome"
    ELSE IF r.ok THEN
        IF r.ret # "unit" /\ r.ret # line.obs.ret THEN "ret"
        ELSE IF ~SameBag(r.ev, Own(line.obs.ev)) THEN "events"
        ELSE IF Diffs(r.post, line.post) # {} THEN "state"
        ELSE ""
    ELSE IF Diffs(r.post, line.post) # {} THEN "frame"
    ELSE IF Own(line.obs.ev) # <<>> THEN "frame_events"
    ELSE ""

(* the observed state is a state of the specification at all (no hole in a lookup, no unknown name) *)
RepOK(p) ==
    /\ \A i \in DOMAIN p.hashByEpoch : p.hashByEpoch[i] \in SetNames
    /\ \A k \in KeyNames : p.status[k] \in {"none", "executed"} \cup MsgNames

InvFailures(s) ==
    (IF LookupsInverse(s) THEN {} ELSE {"LookupsInverse"})
    \cup (IF InstalledWellFormed(s) THEN {} ELSE {"InstalledWellFormed"})
    \cup (IF s.epoch = Len(s.hashByEpoch) THEN {} ELSE {"EpochLen"})

Report(line, r, v, inv) ==
    PrintT(<<"TRES", ToJson([l |-> l, kind |-> v, act |-> line.act,
                             exp |-> [ok |-> r.ok, why |-> r.why, fails |-> r.fails, free |-> r.free,
                                      ret |-> r.ret, ev |-> r.ev],
                             spec_ok |-> r.ok, code_ok |-> line.obs.ok,
                             spec |-> IF v = "events" THEN r.ev ELSE IF v = "ret" THEN <<r.ret>> ELSE <<>>,
                             code |-> IF v \in {"events", "frame_events"} THEN line.obs.ev
                                      ELSE IF v = "ret" THEN <<line.obs.ret>> ELSE <<>>,
                             diffs |-> {[field |-> f] : f \in Diffs(r.post, line.post)},
                             inv |-> inv])>>)

Init == l = 2 /\ lastRot = 0 /\ bad = 0 /\ prev = [none |-> TRUE]

Consume ==
    /\ l <= NLines
    /\ LET line == Rec[l] IN
       IF line.reset
       THEN \* a fresh deployment: the rotation clock starts at deployment time
            /\ lastRot' = line.pre.now
            /\ bad' = bad
       ELSE IF ~RepOK(line.pre)
       THEN \* the implementation has left the specification's state space (reported at the step that did it):
            \* nothing can be said about this run until the next fresh deployment
            /\ lastRot' = lastRot
            /\ bad' = bad
       ELSE LET s == StateOf(line.pre, lastRot)
                a == ActOf(line.act)
                r == Apply(s, a)
                v == Verdict(line, r)
                inv == IF RepOK(line.post) THEN InvFailures(StateOf(line.post, lastRot)) \ InvFailures(s)   \* newly broken only
                       ELSE {"Representable"}
                accepted == v = "" \/ (r.free /\ v = "outcome")
            IN /\ IF accepted /\ inv = {} THEN TRUE ELSE Report(line, r, v, inv)
               /\ bad' = IF accepted /\ inv = {} THEN bad ELSE bad + 1
               \* the clock follows what the implementation did
               /\ lastRot' = IF a.name = "RotateSigners" /\ line.obs.ok THEN s.now ELSE lastRot
    \* the log must be continuous: each call starts in the state the previous one ended in
    /\ IF Rec[l].reset \/ "none" \in DOMAIN prev \/ Rec[l].pre = prev THEN TRUE
       ELSE PrintT(<<"DISCONTINUITY", l>>)
    /\ prev' = IF Rec[l].reset THEN Rec[l].pre ELSE Rec[l].post
    /\ l' = l + 1

Next == Consume
Spec == Init /\ [][Next]_<<l, lastRot, bad, prev>>

\* acceptance: every line consumed (TLC's diameter counts the initial state too)
Accepted ==
    /\ TLCGet("stats").diameter = NLines
    /\ PrintT(<<"TRACE_DONE", NLines - 1, TLCGet("stats").diameter>>)
=============================================================================
