CONSTANTS
  Tokens = {"sac", "itk"}
  Accts = {"alice", "carol", "gs", "ops"}
  OpAccts = {"op1", "op2"}
INIT Init
NEXT Next
CHECK_DEADLOCK FALSE
INVARIANTS
  Fees_PayOuts
  Fees_Layers
  Fees_GasRefines
  Fees_OpsRefines
  Dump
