----------------------------- MODULE TraceToken -----------------------------
(* Trace validation (impl -> spec) for the interchain token.  The API exposes the   *)
(* EFFECTIVE allowance only; the raw allowance (amount, expiration ledger) is         *)
(* inferred by this specification from the calls it has seen and carried along, and     *)
(* its effective value must agree with what the implementation reports in every state.  *)
EXTENDS Token, Json, IOUtils

Rec == ndJsonDeserialize(IOEnv.TRACE)
TInst == Rec[1]
ToSet(sq) == {sq[i] : i \in DOMAIN sq}
TAccts == ToSet(TInst.Accts)
TCap == TInst.Cap
TMaxLive == TInst.MaxLive
NLines == Len(Rec)

VARIABLES l, allow, bad, prev

NoAllow == [f \in Accts |-> [s \in Accts |-> [amt |-> 0, exp |-> 0]]]
StateOf(p, al) == [bal |-> p.bal, allow |-> al, minters |-> p.minters, owner |-> p.owner, seq |-> p.seq]
ActOf(a) == IF "auth" \in DOMAIN a THEN [a EXCEPT !.auth = ToSet(a.auth)] ELSE a

SameBag(s, t) ==
    /\ Len(s) = Len(t)
    /\ \A i \in DOMAIN s : Cardinality({j \in DOMAIN s : s[j] = s[i]}) = Cardinality({j \in DOMAIN t : t[j] = s[i]})
OwnKinds == {"mint", "transfer", "burn", "approve", "set_admin", "minter_added", "minter_removed", "ownership_transferred"}
Own(ev) == SelectSeq(ev, LAMBDA e : e.k \in OwnKinds)

Diffs(sp, post) ==
    (IF sp.bal # post.bal THEN {"bal"} ELSE {})
    \cup (IF EffMap(sp) # post.allowance THEN {"allowance"} ELSE {})
    \cup (IF sp.minters # post.minters THEN {"minters"} ELSE {})
    \cup (IF sp.owner # post.owner THEN {"owner"} ELSE {})
    \cup (IF sp.seq # post.seq THEN {"seq"} ELSE {})

Verdict(line, r) ==
    IF line.obs.ok # r.ok THEN "outcome"
    ELSE IF r.ok THEN
        IF ~SameBag(r.ev, Own(line.obs.ev)) THEN "events"
        ELSE IF Diffs(r.post, line.post) # {} THEN "state"
        ELSE ""
    ELSE IF Diffs(r.post, line.post) # {} THEN "frame"
    ELSE IF Own(line.obs.ev) # <<>> THEN "frame_events"
    ELSE ""

InvFailures(s) ==
    (IF NonNegative(s) THEN {} ELSE {"NonNegative"})

Report(line, r, v, inv) ==
    PrintT(<<"TRES", ToJson([l |-> l, kind |-> v, act |-> line.act,
                             exp |-> [ok |-> r.ok, why |-> r.why, fails |-> r.fails, free |-> r.free,
                                      ret |-> r.ret, ev |-> r.ev],
                             spec_ok |-> r.ok, code_ok |-> line.obs.ok,
                             spec |-> IF v = "events" THEN r.ev ELSE <<>>,
                             code |-> IF v \in {"events", "frame_events"} THEN line.obs.ev ELSE <<>>,
                             diffs |-> {[field |-> f] : f \in Diffs(r.post, line.post)},
                             inv |-> inv])>>)

Init == l = 2 /\ allow = NoAllow /\ bad = 0 /\ prev = [none |-> TRUE]

Consume ==
    /\ l <= NLines
    /\ LET line == Rec[l] IN
       IF line.reset
       THEN allow' = NoAllow /\ bad' = bad
       ELSE LET s == StateOf(line.pre, allow)
                a == ActOf(line.act)
                r == Apply(s, a)
                v == Verdict(line, r)
                inv == InvFailures(r.post) \ InvFailures(s)
                accepted == v = "" \/ (r.free /\ v = "outcome")
            IN /\ IF accepted /\ inv = {} THEN TRUE ELSE Report(line, r, v, inv)
               /\ bad' = IF accepted /\ inv = {} THEN bad ELSE bad + 1
               \* the raw allowance follows what the implementation did: on a committed call take the
               \* specification's bookkeeping, on a refused one keep it; an `approve` accepted although
               \* the specification's as-coded branch refuses (free) records the approved values
               /\ allow' = IF line.obs.ok /\ r.ok THEN r.post.allow
                           ELSE IF line.obs.ok /\ a.name = "Approve"
                                THEN [allow EXCEPT ![a.from][a.spender] = [amt |-> a.amt, exp |-> a.exp]]
                                ELSE allow
    \* the log must be continuous: each call starts in the state the previous one ended in
    /\ IF Rec[l].reset \/ "none" \in DOMAIN prev \/ Rec[l].pre = prev THEN TRUE
       ELSE PrintT(<<"DISCONTINUITY", l>>)
    /\ prev' = IF Rec[l].reset THEN Rec[l].pre ELSE Rec[l].post
    /\ l' = l + 1

Next == Consume
Accepted ==
    /\ TLCGet("stats").diameter = NLines
    /\ PrintT(<<"TRACE_DONE", NLines - 1, TLCGet("stats").diameter>>)
=============================================================================
