CONSTANTS
  Chains <- MC_Chains
  Accts <- MC_Accts
  Ids <- MC_Ids
  IdOf <- MC_IdOf
  IdCOf <- MC_IdCOf
  Canon <- MC_Canon
  Metas <- MC_Metas
  Deliveries <- MC_Deliveries
  Payloads <- MC_Payloads
  Keys <- MC_Keys
  Deviations = {}
  Variant = "std"
  Small = TRUE
INIT Init
NEXT Next
CHECK_DEADLOCK FALSE
INVARIANTS
  C18_Announce
  C18_OnlyGas
  C18_Frame
  C18_NonNegative
  Dump
