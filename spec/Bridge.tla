------------------------------- MODULE Bridge -------------------------------
(***************************************************************************)
(* Two deployments of the interchain token service on two chains, joined by *)
(* the hub.  Each side is ITS.tla unchanged (the same `Apply`, applied to    *)
(* that side's state); the hub is the environment:                            *)
(*                                                                           *)
(*   an outbound announcement of side X toward the other side's chain name     *)
(*   (`contract_called` with SendToHub(destination, message)) is put in        *)
(*   flight; `Relay(i)` hands message i to the destination side as             *)
(*   ReceiveFromHub(origin = X's chain name, the same message) under a fresh    *)
(*   approval.  A refused delivery changes nothing and the message stays in     *)
(*   flight (it can be retried); an accepted one leaves the flight.             *)
(*                                                                           *)
(* State: [A, B : ITS state, flight : Seq([to, p])], p = the name of the        *)
(* catalogue payload that IS the message in its delivered form (`PName`).        *)
(* What this module adds to the per-chain properties is the end-to-end view:     *)
(* value is conserved ACROSS chains (what left one side is in flight or arrived   *)
(* on the other, nothing else), a remotely deployed token carries the origin's    *)
(* id and metadata, and nothing is delivered that was not sent.                   *)
(***************************************************************************)
EXTENDS ITSMC

CONSTANTS ChainA, ChainB       \* the two sides' chain names (both in Chains)

Sides == {"A", "B"}
NameOf(x) == IF x = "A" THEN ChainA ELSE ChainB
SideOf(c) == IF c = ChainA THEN "A" ELSE "B"
Other(x) == IF x = "A" THEN "B" ELSE "A"

(* the delivered form of an announced message: ReceiveFromHub(origin, message) *)
Delivered(origin, msg) ==
    IF msg.inner = "transfer"
    THEN [outer |-> "recv", origin |-> origin, inner |-> "transfer", id |-> msg.id, sender |-> msg.sender,
          recipient |-> msg.destAddr, amt |-> msg.amt, data |-> msg.data, mut |-> NoMut]
    ELSE [outer |-> "recv", origin |-> origin, inner |-> "deploy", id |-> msg.id, meta |-> msg.meta,
          minter |-> msg.minter, mut |-> NoMut]
PName(origin, msg) ==
    IF msg.inner = "transfer"
    THEN "t_" \o origin \o "_" \o msg.id \o "_" \o msg.sender \o "_" \o msg.destAddr \o "_" \o ToString(msg.amt)
    ELSE "d_" \o origin \o "_" \o msg.id \o "_" \o msg.meta

(* announcements of a successful step of side x that go to the other side *)
Sent(x, r) ==
    LET calls == SelectSeq(r.ev, LAMBDA e : e.k = "contract_called" /\ e.dest = NameOf(Other(x)) /\ "msg" \in DOMAIN e) IN
    [i \in 1..Len(calls) |-> [to |-> Other(x), p |-> PName(NameOf(x), calls[i].msg)]]

Res(ok, why, fails, free, ret, ev, post) ==
    [ok |-> ok, why |-> why, fails |-> fails, free |-> free, ret |-> ret, ev |-> ev, post |-> post]
Without(s, i) == SubSeq(s, 1, i - 1) \o SubSeq(s, i + 1, Len(s))

(* a call on one side: a.side says which; everything else is that side's action *)
OnSide(sys, a) ==
    LET r == Apply(sys[a.side], a) IN
    Res(r.ok, r.why, r.fails, r.free, r.ret, r.ev,
        IF r.ok THEN [sys EXCEPT ![a.side] = r.post, !.flight = @ \o Sent(a.side, r)] ELSE sys)

(* the hub hands message a.i of the flight to its destination *)
Relay(sys, a) ==
    IF a.i > Len(sys.flight) THEN Res(FALSE, "in_flight", {"in_flight"}, FALSE, "none", <<>>, sys)
    ELSE LET m == sys.flight[a.i]
             r == Apply(sys[m.to], [name |-> "Deliver", payload |-> m.p]) IN
         Res(r.ok, r.why, r.fails, r.free, r.ret, r.ev,
             IF r.ok THEN [sys EXCEPT ![m.to] = r.post, !.flight = Without(@, a.i) \o Sent(m.to, r)] ELSE sys)

BApply(sys, a) == IF a.name = "Relay" THEN Relay(sys, a) ELSE OnSide(sys, a)

-----------------------------------------------------------------------------
(* end-to-end invariants *)
InFlight(sys, id) ==
    LET ms == SelectSeq(sys.flight, LAMBDA m : Payloads[m.p].inner = "transfer" /\ Payloads[m.p].id = id) IN
    SumOver([i \in 1..Len(ms) |-> Payloads[ms[i].p].amt], 1..Len(ms))
SupplyOn(s, id) == IF s.reg[id] = "native" THEN Supply(s, id) ELSE 0

(* a token the service deployed on its home side with a fixed supply (no third-party minter): the supply on both
   sides plus what is in flight is that supply, for ever *)
ConservedNative(sys, id, home, supply) ==
    sys[home].reg[id] = "native" =>
        SupplyOn(sys[home], id) + SupplyOn(sys[Other(home)], id) + InFlight(sys, id) = supply
(* a canonical token of the home side: what the service holds in custody is exactly what exists of it on the other
   side plus what is in flight in either direction *)
ConservedCanonical(sys, id, home, tok) ==
    sys[home].reg[id] = "lock" =>
        sys[home].bal[tok]["its"] = SupplyOn(sys[Other(home)], id) + InFlight(sys, id)
(* a token that exists on the other side because of a remote deployment carries the home side's metadata *)
RemoteMeta(sys, id, home) ==
    (sys[home].reg[id] # "none" /\ sys[Other(home)].reg[id] = "native") =>
        sys[Other(home)].tokMeta[id] = MetaOfToken(sys[home], id)
(* the other side never holds a token the home side does not know (nothing is delivered that was not sent) *)
NoOrphans(sys, id, home) == sys[Other(home)].reg[id] # "none" => sys[home].reg[id] # "none"
=============================================================================
