CONSTANTS
  Sets <- MC_Sets
  Keys <- MC_Keys
  Msgs <- MC_Msgs
  Cap = 1000
  Retention = 1
  MinDelay = 10
  MaxEpoch = 6
INIT Init
NEXT Next
CHECK_DEADLOCK FALSE
INVARIANTS
  Types
  C08_Window
  C08_BypassWindow
  C08_PlainOnlyNewest
  C08_LatestFlag
  C08_Frame
  Dump
