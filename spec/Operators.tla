----------------------------- MODULE Operators -----------------------------
(***************************************************************************)
(* contracts/axelar-operators: an owner-managed operator set and a call     *)
(* forwarder.  Membership is three-valued ("never", "yes", "former") so     *)
(* that former members and never-members are different states of the        *)
(* instance although the API shows both as "not an operator".               *)
(* A forwarded call is observed through the target (a recording probe       *)
(* contract): exactly one record per successful execute, none otherwise.    *)
(***************************************************************************)
EXTENDS Naturals, Sequences, FiniteSets, TLC

CONSTANTS Accts

Rej(st, why, fails) ==
    [ok |-> FALSE, why |-> why, fails |-> fails, free |-> FALSE, ret |-> "none", ev |-> <<>>, post |-> st]
Acc(st2, ret, ev) ==
    [ok |-> TRUE, why |-> "ok", fails |-> {}, free |-> FALSE, ret |-> ret, ev |-> ev, post |-> st2]
First(order, fails) ==
    LET i == CHOOSE j \in 1..Len(order) : order[j] \in fails /\ \A k \in 1..(j-1) : order[k] \notin fails
    IN order[i]
Order == <<"role_auth", "named_auth", "membership", "is_operator", "target_ok">>

IsOp(st, x) == st.ops[x] = "yes"

AddOperator(st, a) ==
    LET fails == (IF st.owner \notin a.auth THEN {"role_auth"} ELSE {})
                 \cup (IF IsOp(st, a.acct) THEN {"membership"} ELSE {})
        res == IF fails # {} THEN Rej(st, First(Order, fails), fails)
               ELSE Acc([st EXCEPT !.ops[a.acct] = "yes"], "unit", <<[k |-> "operator_added", who |-> a.acct]>>)
    IN \* adding a present operator is refused today; either way nothing may change
       [res EXCEPT !.free = fails = {"membership"}]

RemoveOperator(st, a) ==
    LET fails == (IF st.owner \notin a.auth THEN {"role_auth"} ELSE {})
                 \cup (IF ~IsOp(st, a.acct) THEN {"membership"} ELSE {})
        res == IF fails # {} THEN Rej(st, First(Order, fails), fails)
               ELSE Acc([st EXCEPT !.ops[a.acct] = "former"], "unit", <<[k |-> "operator_removed", who |-> a.acct]>>)
    IN [res EXCEPT !.free = fails = {"membership"}]

(* execute(operator, contract, func, args): the call record [target, fn, arg] is what the probe logs *)
Execute(st, a) ==
    LET fails == (IF a.op \notin a.auth THEN {"named_auth"} ELSE {})
                 \cup (IF ~IsOp(st, a.op) THEN {"is_operator"} ELSE {})
                 \cup (IF a.fn \in {"boom", "fail2", "fail7"} THEN {"target_ok"} ELSE {})   \* the target traps / fails with a contract error
    IN IF fails # {} THEN Rej(st, First(Order, fails), fails)
       ELSE Acc(st, a.arg, <<[k |-> "probe_call", target |-> a.target, fn |-> a.fn, arg |-> a.arg]>>)

TransferOwnership(st, a) ==
    IF st.owner \notin a.auth THEN Rej(st, "role_auth", {"role_auth"})
    ELSE Acc([st EXCEPT !.owner = a.new], "unit",
             <<[k |-> "ownership_transferred", prev |-> st.owner, new |-> a.new]>>)

(* verification hook (harness only, never a contract entry point): the Upgradable interface's migration window is
   opened without swapping code.  The window belongs to another interface: nothing in this module may depend on it *)
Apply(st, a) ==
    CASE a.name = "AddOperator"       -> AddOperator(st, a)
      [] a.name = "RemoveOperator"    -> RemoveOperator(st, a)
      [] a.name = "Execute"           -> Execute(st, a)
      [] a.name = "TransferOwnership" -> TransferOwnership(st, a)
      [] a.name = "HookOpenWindow" -> Acc(st, "unit", <<>>)

Obs(st) == [operators |-> [x \in Accts |-> IsOp(st, x)], owner |-> st.owner, ops |-> st.ops]
=============================================================================
