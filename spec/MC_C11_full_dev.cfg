CONSTANTS
  Chains <- MC_Chains
  Accts <- MC_Accts
  Ids <- MC_Ids
  IdOf <- MC_IdOf
  IdCOf <- MC_IdCOf
  Canon <- MC_Canon
  Metas <- MC_Metas
  Deliveries <- MC_Deliveries
  Payloads <- MC_Payloads
  Keys <- MC_Keys
  Deviations = {"its_minter_revoked", "its_hub_address_unchecked"}
  Small = FALSE
INIT Init
NEXT Next
CHECK_DEADLOCK FALSE
INVARIANTS
  Compose
  Dump
