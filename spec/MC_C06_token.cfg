CONSTANTS
  Accts = {"its0", "carol", "bob", "mallory"}
  Cap = 0
  MaxLive = 6311999
INIT Init
NEXT Next
CHECK_DEADLOCK FALSE
INVARIANTS
  C06_OnlyHolder
  C06_Successor
  C06_Frame
  Dump
