---------------------------- MODULE GasService ----------------------------
(***************************************************************************)
(* contracts/axelar-gas-service: escrow of gas payments per token.          *)
(* st = [bal: token -> account -> amount, collector, owner]; the service's   *)
(* own holding of a token is bal[t]["gs"].  Token transfers are the SEP-41   *)
(* rules (amount >= 0, sufficient balance, sender's authorisation).          *)
(***************************************************************************)
EXTENDS Naturals, Integers, Sequences, FiniteSets, TLC

CONSTANTS Tokens, Accts      \* Accts includes "gs" (the service itself)

Rej(st, why, fails) ==
    [ok |-> FALSE, why |-> why, fails |-> fails, free |-> FALSE, ret |-> "none", ev |-> <<>>, post |-> st]
Acc(st2, ret, ev) ==
    [ok |-> TRUE, why |-> "ok", fails |-> {}, free |-> FALSE, ret |-> ret, ev |-> ev, post |-> st2]
First(order, fails) ==
    LET i == CHOOSE j \in 1..Len(order) : order[j] \in fails /\ \A k \in 1..(j-1) : order[k] \notin fails
    IN order[i]
Order == <<"named_auth", "collector_auth", "positive_amount", "negative_amount", "sufficient_balance", "balance">>

Move(st, t, from, to, amt) ==
    [st EXCEPT !.bal[t] = [[@ EXCEPT ![from] = @ - amt] EXCEPT ![to] = @ + amt]]

(* pay_gas(sender, destination_chain, destination_address, payload, spender, token, metadata)
   add_gas(sender, message_id, spender, token) *)
PayLike(st, a, kind) ==
    LET fails == (IF a.spender \notin a.auth THEN {"named_auth"} ELSE {})
                 \cup (IF a.amt <= 0 THEN {"positive_amount"} ELSE {})
                 \cup (IF a.amt > 0 /\ st.bal[a.token][a.spender] < a.amt THEN {"balance"} ELSE {})
    IN IF fails # {} THEN Rej(st, First(Order, fails), fails)
       ELSE Acc(Move(st, a.token, a.spender, "gs", a.amt), "unit",
                <<[k |-> kind, spender |-> a.spender, token |-> a.token, amt |-> a.amt]>>)
PayGas(st, a) == PayLike(st, a, "gas_paid")
AddGas(st, a) == PayLike(st, a, "gas_added")

(* collect_fees(receiver, token): collector only, amount > 0, never more than the service holds *)
CollectFees(st, a) ==
    LET fails == (IF st.collector \notin a.auth THEN {"collector_auth"} ELSE {})
                 \cup (IF a.amt < 0 THEN {"negative_amount"} ELSE {})
                 \cup (IF a.amt = 0 THEN {"positive_amount"} ELSE {})
                 \cup (IF a.amt > 0 /\ st.bal[a.token]["gs"] < a.amt THEN {"sufficient_balance"} ELSE {})
        res == IF fails # {} THEN Rej(st, First(Order, fails), fails)
               ELSE Acc(Move(st, a.token, "gs", a.receiver, a.amt), "unit",
                        <<[k |-> "gas_collected", token |-> a.token, amt |-> a.amt]>>)
    IN \* collecting exactly 0 is refused today; a no-op would satisfy the statement as well
       [res EXCEPT !.free = fails = {"positive_amount"}]

(* refund(message_id, receiver, token): collector only; the token rules refuse negative amounts and overdrafts *)
Refund(st, a) ==
    LET fails == (IF st.collector \notin a.auth THEN {"collector_auth"} ELSE {})
                 \cup (IF a.amt < 0 THEN {"negative_amount"} ELSE {})
                 \cup (IF a.amt >= 0 /\ st.bal[a.token]["gs"] < a.amt THEN {"sufficient_balance"} ELSE {})
        res == IF fails # {} THEN Rej(st, First(Order, fails), fails)
               ELSE Acc(Move(st, a.token, "gs", a.receiver, a.amt), "unit",
                        <<[k |-> "gas_refunded", receiver |-> a.receiver, token |-> a.token, amt |-> a.amt]>>)
    IN [res EXCEPT !.free = fails = {} /\ a.amt = 0]

TransferOwnership(st, a) ==
    IF st.owner \notin a.auth THEN Rej(st, "role_auth", {"role_auth"})
    ELSE Acc([st EXCEPT !.owner = a.new], "unit",
             <<[k |-> "ownership_transferred", prev |-> st.owner, new |-> a.new]>>)

(* verification hook (harness only, never a contract entry point): the Upgradable interface's migration window is
   opened without swapping code.  The window belongs to another interface: nothing in this module may depend on it *)
Apply(st, a) ==
    CASE a.name = "PayGas"            -> PayGas(st, a)
      [] a.name = "AddGas"            -> AddGas(st, a)
      [] a.name = "CollectFees"       -> CollectFees(st, a)
      [] a.name = "Refund"            -> Refund(st, a)
      [] a.name = "TransferOwnership" -> TransferOwnership(st, a)
      [] a.name = "HookOpenWindow" -> Acc(st, "unit", <<>>)

-----------------------------------------------------------------------------
RECURSIVE SumOver(_, _)
SumOver(f, S) == IF S = {} THEN 0 ELSE LET x == CHOOSE y \in S : TRUE IN f[x] + SumOver(f, S \ {x})

NonNegative(st) == \A t \in Tokens, x \in Accts : st.bal[t][x] >= 0

(* step rules: exact movements, only the collector moves funds out, one event per movement *)
StepRules(st, a, r) ==
    /\ ~r.ok => r.post = st /\ r.ev = <<>>
    /\ r.ok /\ a.name \in {"PayGas", "AddGas"} =>
          /\ a.amt > 0 /\ a.spender \in a.auth
          /\ r.post.bal[a.token]["gs"] = st.bal[a.token]["gs"] + a.amt
          /\ r.post.bal[a.token][a.spender] = st.bal[a.token][a.spender] - a.amt
          /\ Len(r.ev) = 1 /\ r.ev[1].token = a.token /\ r.ev[1].amt = a.amt
    /\ r.ok /\ a.name \in {"CollectFees", "Refund"} =>
          /\ st.collector \in a.auth
          /\ a.amt >= 0 /\ a.amt <= st.bal[a.token]["gs"]
          /\ r.post.bal[a.token]["gs"] = st.bal[a.token]["gs"] - a.amt
          /\ Len(r.ev) = 1 /\ r.ev[1].token = a.token /\ r.ev[1].amt = a.amt
    /\ \A t \in Tokens :
          /\ SumOver(r.post.bal[t], Accts) = SumOver(st.bal[t], Accts)
          /\ (r.post.bal[t]["gs"] < st.bal[t]["gs"] => st.collector \in a.auth)
          /\ (t # a.token => r.post.bal[t] = st.bal[t])
=============================================================================
