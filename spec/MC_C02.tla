------------------------------- MODULE MC_C02 -------------------------------
(* C02: each (source chain, message id) is approved once and executed once,   *)
(* only by its destination.  Bounded instance: 3 keys (two of them the same    *)
(* characters split differently), two contents per key that differ in source   *)
(* address, destination and payload hash; batches of 1..2 messages (in-batch   *)
(* duplicates, same key / different content); consumption attempts over every  *)
(* caller x key x source address x payload hash.  The state space is finite,   *)
(* so TLC explores every interleaving (no depth bound).                        *)
EXTENDS Gateway, Json
CONSTANT Deep
VARIABLE st

MC_Sets == [s1 |-> [keys |-> <<1, 2>>, weights |-> <<1, 1>>, threshold |-> 2, nonce |-> 0]]
MC_Keys == [k1 |-> [chain |-> "ab", id |-> "c"],
            k2 |-> [chain |-> "a",  id |-> "bc"],
            k3 |-> [chain |-> "",   id |-> "abc"],     \* and an empty chain name: ("", "abc") is not ("ab", "c")
            k4 |-> [chain |-> "x",  id |-> "c"]]       \* the id of k1 on another chain: a different message (round 12, C02l)
DeepMsgs == [m1c |-> [key |-> "k1", src |-> "sA", dest |-> "app2", ph |-> "p1"],
             m3c |-> [key |-> "k3", src |-> "sA", dest |-> "app1", ph |-> "p2"]]
MC_Msgs0 == [m1a |-> [key |-> "k1", src |-> "sA", dest |-> "app1", ph |-> "p1"],
            m1b |-> [key |-> "k1", src |-> "sB", dest |-> "app2", ph |-> "p2"],
            m2a |-> [key |-> "k2", src |-> "sA", dest |-> "app1", ph |-> "p1"],
            m2b |-> [key |-> "k2", src |-> "sA", dest |-> "app1", ph |-> "p2"],
            m3a |-> [key |-> "k3", src |-> "sA", dest |-> "app2", ph |-> "p1"],
            m3b |-> [key |-> "k3", src |-> "sB", dest |-> "app2", ph |-> "p1"],
            m4a |-> [key |-> "k4", src |-> "sA", dest |-> "app1", ph |-> "p1"]]
MC_Msgs == IF Deep THEN MC_Msgs0 @@ DeepMsgs ELSE MC_Msgs0

GoodProof == [set |-> "s1", sigs |-> <<"Valid", "Valid">>]

Batches == {<<m>> : m \in MsgNames} \cup {<<m, n>> : m \in MsgNames, n \in MsgNames}

Acts(s) ==
    {[name |-> "ApproveMessages", msgs |-> b, proof |-> GoodProof, auth |-> {}] : b \in Batches}
    \cup
    {[name |-> "ValidateMessage", caller |-> c, key |-> k, src |-> sa, ph |-> p,
      via |-> "direct", auth |-> {c}] :
        c \in {"app1", "app2"}, k \in KeyNames, sa \in {"sA", "sB"}, p \in {"p1", "p2"}}

InitState ==
    [Install(Blank("owner0", "op0", 0), "s1") EXCEPT !.deployed = TRUE]

Init == st = InitState
Next == \E a \in Acts(st) : st' = Apply(st, a).post

-----------------------------------------------------------------------------
(* the property, as invariants over every action enabled in every reachable state *)
Step(P(_, _, _)) == \A a \in Acts(st) : P(st, a, Apply(st, a))

Monotone(s, a, r) == \A k \in KeyNames : StatusRank(r.post.status[k]) >= StatusRank(s.status[k])
ContentFrozen(s, a, r) == \A k \in KeyNames :
    s.status[k] # "none" => r.post.status[k] \in {s.status[k], "executed"}
ApprovalEvents(s, a, r) ==
    a.name = "ApproveMessages" =>
        LET newly == {k \in KeyNames : s.status[k] = "none" /\ r.post.status[k] # "none"} IN
        /\ Len(r.ev) = Cardinality(newly)
        /\ \A i \in 1..Len(r.ev) : r.ev[i].k = "message_approved" /\ Msgs[r.ev[i].msg].key \in newly
                                   /\ r.post.status[Msgs[r.ev[i].msg].key] = r.ev[i].msg
ExecOnlyByDestination(s, a, r) == \A k \in KeyNames :
    (r.post.status[k] = "executed" /\ s.status[k] # "executed") =>
        /\ a.name = "ValidateMessage" /\ a.key = k /\ r.ret = "true"
        /\ s.status[k] \in MsgNames
        /\ Msgs[s.status[k]].dest = a.caller /\ Msgs[s.status[k]].src = a.src /\ Msgs[s.status[k]].ph = a.ph
        /\ r.ev = <<[k |-> "message_executed", msg |-> s.status[k]]>>
ConsumeTrueIffMatch(s, a, r) ==
    a.name = "ValidateMessage" /\ r.ok =>
        (r.ret = "true") <=> (/\ s.status[a.key] \in MsgNames
                            /\ Msgs[s.status[a.key]] = [key |-> a.key, src |-> a.src, dest |-> a.caller, ph |-> a.ph])
RejectFrame(s, a, r) == ~r.ok => r.post = s /\ r.ev = <<>>

C02_Monotone == Step(Monotone)
C02_ContentFrozen == Step(ContentFrozen)
C02_ApprovalEvents == Step(ApprovalEvents)
C02_ExecOnlyByDestination == Step(ExecOnlyByDestination)
C02_ConsumeTrueIffMatch == Step(ConsumeTrueIffMatch)
C02_RejectFrame == Step(RejectFrame)
C02_ExecOnce == ExecOnce(st)
C02_KeysDistinct == \A k1, k2 \in KeyNames : k1 # k2 => Keys[k1] # Keys[k2]
Types == TypeOK(st)

-----------------------------------------------------------------------------
(* state-graph dump for the conformance replay (one line per transition) *)
Inst == [module |-> "Gateway", Sets |-> Sets, Keys |-> Keys, Msgs |-> Msgs, Cap |-> Cap,
         Retention |-> Retention, MinDelay |-> MinDelay, Probes |-> <<>>,
         scale |-> [Q |-> "1", Qt |-> 1, t0 |-> 1000000]]
ASSUME PrintT(<<"INST", ToJson(Inst)>>)
Dump == \A a \in Acts(st) :
    LET r == Apply(st, a) IN
    PrintT(<<"EDGE", ToJson([pre |-> st, act |-> a,
                             exp |-> [ok |-> r.ok, why |-> r.why, fails |-> r.fails, free |-> r.free,
                                      ret |-> r.ret, ev |-> r.ev],
                             post |-> r.post])>>)
=============================================================================
