------------------------------ MODULE MC_System ------------------------------
(* Cross-contract histories: hub deliveries are approved on the gateway by real    *)
(* proofs from rotating signer sets (full, insufficient, from a retained or an       *)
(* expired set) and consumed by the token service's execute in the same             *)
(* transaction as the gateway's validate_message.  Deliveries: conforming transfer    *)
(* and remote deploy, approved for another destination contract, from another          *)
(* source address, from another chain.                                                 *)
EXTENDS System, Json, SequencesExt
VARIABLE sys

MC_Sets == [a |-> [keys |-> <<1, 2>>, weights |-> <<1, 1>>, threshold |-> 2, nonce |-> 1],
            b |-> [keys |-> <<2, 3>>, weights |-> <<1, 2>>, threshold |-> 2, nonce |-> 2],
            c |-> [keys |-> <<1, 3>>, weights |-> <<2, 1>>, threshold |-> 3, nonce |-> 3]]
MC_GKeys == [k1 |-> [chain |-> "axelar", id |-> "k1"], k2 |-> [chain |-> "axelar", id |-> "k2"],
             k3 |-> [chain |-> "axelar", id |-> "k3"],
             \* the SAME message id as k1, claimed from another chain
             k1_e |-> [chain |-> "ethereum", id |-> "k1"]]
MC_Deliveries ==
    [d_tx  |-> [key |-> "k1", srcChain |-> "axelar",   srcAddr |-> "hub",    dest |-> "its",   payload |-> "p_tx"],
     d_src |-> [key |-> "k1", srcChain |-> "axelar",   srcAddr |-> "nothub", dest |-> "its",   payload |-> "p_tx"],
     d_dp  |-> [key |-> "k2", srcChain |-> "axelar",   srcAddr |-> "hub",    dest |-> "its",   payload |-> "p_dp"],
     d_oth |-> [key |-> "k3", srcChain |-> "axelar",   srcAddr |-> "hub",    dest |-> "carol", payload |-> "p_tx"],
     d_chn |-> [key |-> "k1_e", srcChain |-> "ethereum", srcAddr |-> "hub",    dest |-> "its",   payload |-> "p_tx"]]
MC_Msgs == [d \in DOMAIN MC_Deliveries |->
                [key |-> MC_Deliveries[d].key, src |-> MC_Deliveries[d].srcAddr, dest |-> MC_Deliveries[d].dest,
                 ph |-> MC_Deliveries[d].payload]]
MC_Chains == {"ethereum"}
MC_Accts == {"alice", "bob", "carol", "its", "gs"}
MC_Ids == {"iA1", "r1"}
MC_IdOf == [alice |-> [s1 |-> "iA1"]]
MC_IdCOf == [x \in {} |-> "none"]
MC_Canon == {}
MC_Metas == [good |-> [nameLen |-> 10, symLen |-> 4, decimals |-> 7, utf8 |-> TRUE, style |-> "ascii"]]
MC_Keys == {"k1", "k2", "k3", "k1_e"}

A == INSTANCE Abi
RawPayloads ==
    [p_tx |-> [outer |-> "recv", origin |-> "ethereum", inner |-> "transfer", id |-> "iA1", sender |-> "evm1",
               recipient |-> "bob", amt |-> 1, data |-> "none", mut |-> [kind |-> "none"], decodes |-> TRUE],
     p_dp |-> [outer |-> "recv", origin |-> "ethereum", inner |-> "deploy", id |-> "r1", meta |-> "good",
               minter |-> "none", mut |-> [kind |-> "none"], decodes |-> TRUE]]
MC_Payloads == RawPayloads

Order == <<"a", "b", "c">>
Full(s) == [set |-> s, sigs |-> [i \in 1..Len(Sets[s].keys) |-> "Valid"]]
OneShort(s) == [set |-> s, sigs |-> [i \in 1..Len(Sets[s].keys) |-> IF i = 1 THEN "Unsigned" ELSE "Valid"]]
Batches == {<<d>> : d \in DOMAIN Deliveries} \cup {<<"d_tx", "d_dp">>, <<"d_src", "d_tx">>}

Acts(s) ==
    {[name |-> "ApproveMessages", msgs |-> bt, proof |-> Full(s.gw.hashByEpoch[e]), auth |-> {}] :
        bt \in Batches, e \in 1..s.gw.epoch}
    \cup {[name |-> "ApproveMessages", msgs |-> <<"d_tx">>, proof |-> OneShort(s.gw.hashByEpoch[s.gw.epoch]), auth |-> {}]}
    \cup (IF s.gw.epoch < 3
          THEN {[name |-> "RotateSigners", new |-> Order[s.gw.epoch + 1], proof |-> Full(s.gw.hashByEpoch[s.gw.epoch]),
                 bypass |-> FALSE, auth |-> {}]}
          ELSE {})
    \cup {[name |-> "Execute", d |-> d] : d \in DOMAIN Deliveries}
    \cup {[name |-> "DeployInterchainToken", caller |-> "alice", salt |-> "s1", meta |-> "good", supply |-> 1,
           minter |-> "none", auth |-> {"alice"}]}
    \cup {[name |-> n, chain |-> "ethereum", auth |-> {"owner0"}] : n \in {"SetTrusted", "RemoveTrusted"}}

InitSys == [gw |-> [G!Install(G!Blank("gwowner", "gwop", 0), "a") EXCEPT !.deployed = TRUE],
            its |-> [I!Blank("owner0") EXCEPT !.trusted["ethereum"] = TRUE]]
Init == sys = InitSys
Next == \E a \in Acts(sys) : sys' = Apply(sys, a).post

-----------------------------------------------------------------------------
ASSUME CatalogueConsistent
Step(P(_, _, _)) == \A a \in Acts(sys) : P(sys, a, Apply(sys, a))
Gate(s, a, r) ==
    (a.name = "Execute" /\ r.ok) =>
        LET D == Deliveries[a.d] IN
        /\ s.gw.status[D.key] = a.d \/ (s.gw.status[D.key] \in DOMAIN Msgs /\ Msgs[s.gw.status[D.key]] = Msgs[a.d])
        /\ D.dest = "its" /\ D.srcChain = "axelar"
        /\ ("its_hub_address_unchecked" \in Deviations \/ D.srcAddr = "hub")
        /\ r.post.gw.status[D.key] = "executed"
Once(s, a, r) == (a.name = "Execute" /\ r.ok) => ~Apply(r.post, a).ok
ApprovalNeedsLiveSigners(s, a, r) ==
    (a.name = "ApproveMessages" /\ r.ok) =>
        /\ s.gw.epochOf[a.proof.set] # 0 /\ s.gw.epoch - s.gw.epochOf[a.proof.set] <= Retention
        /\ G!ValidWeight(Sets[a.proof.set], a.proof.sigs) >= Sets[a.proof.set].threshold
RotationKeepsApprovals(s, a, r) ==
    (a.name = "RotateSigners" /\ r.ok) => r.post.gw.status = s.gw.status /\ r.post.its = s.its
Frame(s, a, r) == ~r.ok => r.post = s /\ r.ev = <<>>
(* Refinement: the composed system implements ITS.tla, whose approval table is abstract.  Under the mapping
   "the service's approval table IS the gateway's status table", every system step is the corresponding
   step of ITS.tla (execute |-> Execute, approve_messages |-> one ApproveDelivery per message, in order) or a
   stuttering step (rotations, clock ticks, ownership of the gateway).  This is what entitles the ITS
   instances (C04, C05, C11, C18) to model the gateway by the single abstract step `ApproveDelivery`. *)
MapITS(s) == [s.its EXCEPT !.appr = [k \in Keys |-> s.gw.status[k]]]
RECURSIVE ApproveAll(_, _)
ApproveAll(ist, ms) ==
    IF ms = <<>> THEN ist ELSE ApproveAll(I!ApproveDelivery(ist, [name |-> "ApproveDelivery", d |-> Head(ms)]).post, Tail(ms))
StripExec(ev) == SelectSeq(ev, LAMBDA e : e.k \notin {"delivery_executed", "message_executed"})
Refines(s, a, r) ==
    LET m == MapITS(s)
        m2 == MapITS(r.post) IN
    CASE a.name = "Execute" ->
            LET ar == I!Apply(m, a) IN
            /\ ar.ok = r.ok /\ ar.post = m2 /\ StripExec(ar.ev) = StripExec(r.ev)
            /\ (~r.ok => ar.fails = r.fails)
      [] a.name = "ApproveMessages" -> m2 = IF r.ok THEN ApproveAll(m, a.msgs) ELSE m
      [] a.name \in GatewayActions -> m2 = m
      [] OTHER -> LET ar == I!Apply(m, a) IN ar.ok = r.ok /\ ar.post = m2 /\ ar.ev = r.ev /\ ar.fails = r.fails
Sys_RefinesITS == Step(Refines)
Sys_Gate == Step(Gate)
Sys_Once == Step(Once)
Sys_ApprovalNeedsLiveSigners == Step(ApprovalNeedsLiveSigners)
Sys_RotationKeepsApprovals == Step(RotationKeepsApprovals)
Sys_Frame == Step(Frame)
Sys_Sound == ExecutedOnlyOnce(sys) /\ GatewaySound(sys) /\ ServiceSound(sys)

-----------------------------------------------------------------------------
ItsObs(s) ==
    [trusted |-> s.trusted, reg |-> s.reg, regTok |-> s.regTok, tokMeta |-> s.tokMeta, bal |-> s.bal,
     minters |-> s.minters, gas |-> s.gas, fkMeta |-> s.fkMeta, owner |-> s.owner]
GwObs(g) == [deployed |-> g.deployed, epoch |-> g.epoch, hashByEpoch |-> g.hashByEpoch, epochOf |-> g.epochOf,
            status |-> g.status, owner |-> g.owner, operator |-> g.operator, now |-> g.now]
Obs(s) == [gw |-> GwObs(s.gw), its |-> ItsObs(s.its)]
Inst == [module |-> "System",
         Sets |-> Sets, Keys |-> GKeys, Msgs |-> Msgs, Cap |-> Cap, Retention |-> Retention, MinDelay |-> MinDelay,
         Probes |-> <<>>, scale |-> [Q |-> "1", Qt |-> "1", t0 |-> 1000000],
         its |-> [module |-> "ITS", Chains |-> Chains, Accts |-> Accts, Ids |-> Ids, IdOf |-> IdOf, IdCOf |-> IdCOf,
                  Canon |-> Canon, Metas |-> Metas, Deliveries |-> Deliveries, Payloads |-> RawPayloads, Keys |-> Keys,
                  RemoteIds |-> <<"r1">>]]
ASSUME PrintT(<<"INST", ToJson(Inst)>>)
Dump ==
    LET acts == SetToSeq(Acts(sys)) IN
    PrintT(<<"NODE", ToJson([pre |-> Obs(sys),
        edges |-> [i \in 1..Len(acts) |->
            LET r == Apply(sys, acts[i]) IN
            [act |-> acts[i],
             exp |-> [ok |-> r.ok, why |-> r.why, fails |-> r.fails, free |-> r.free, ret |-> r.ret, ev |-> r.ev],
             post |-> IF r.post = sys THEN "same" ELSE Obs(r.post)]]])>>)
=============================================================================
