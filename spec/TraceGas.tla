------------------------------ MODULE TraceGas ------------------------------
(* Trace validation (impl -> spec) for the gas service: every logged call must be a  *)
(* step of GasService!Apply from the logged pre-state (all state is observable).      *)
EXTENDS GasService, Json, IOUtils
Rec == ndJsonDeserialize(IOEnv.TRACE)
TInst == Rec[1]
ToSet(sq) == {sq[i] : i \in DOMAIN sq}
TTokens == ToSet(TInst.Tokens)
TAccts == ToSet(TInst.Accts)
NLines == Len(Rec)
VARIABLES l, bad, prev
StateOf(p) == [bal |-> p.bal, collector |-> p.collector, owner |-> p.owner]
ActOf(a) == IF "auth" \in DOMAIN a THEN [a EXCEPT !.auth = ToSet(a.auth)] ELSE a
SameBag(s, t) ==
    /\ Len(s) = Len(t)
    /\ \A i \in DOMAIN s : Cardinality({j \in DOMAIN s : s[j] = s[i]}) = Cardinality({j \in DOMAIN t : t[j] = s[i]})
OwnKinds == {"gas_paid", "gas_added", "gas_collected", "gas_refunded", "ownership_transferred"}
Own(ev) == SelectSeq(ev, LAMBDA e : e.k \in OwnKinds)
Diffs(sp, post) ==
    (IF sp.bal # post.bal THEN {"bal"} ELSE {})
    \cup (IF sp.collector # post.collector THEN {"collector"} ELSE {})
    \cup (IF sp.owner # post.owner THEN {"owner"} ELSE {})
Verdict(line, r) ==
    IF line.obs.ok # r.ok THEN "outcome"
    ELSE IF r.ok THEN
        IF ~SameBag(r.ev, Own(line.obs.ev)) THEN "events"
        ELSE IF Diffs(r.post, line.post) # {} THEN "state" ELSE ""
    ELSE IF Diffs(r.post, line.post) # {} THEN "frame"
    ELSE IF Own(line.obs.ev) # <<>> THEN "frame_events" ELSE ""
InvFailures(s) == IF NonNegative(s) THEN {} ELSE {"NonNegative"}
Report(line, r, v, inv) ==
    PrintT(<<"TRES", ToJson([l |-> l, kind |-> v, act |-> line.act,
                             exp |-> [ok |-> r.ok, why |-> r.why, fails |-> r.fails, free |-> r.free, ret |-> r.ret, ev |-> r.ev],
                             spec_ok |-> r.ok, code_ok |-> line.obs.ok,
                             spec |-> IF v = "events" THEN r.ev ELSE <<>>,
                             code |-> IF v \in {"events", "frame_events"} THEN line.obs.ev ELSE <<>>,
                             diffs |-> {[field |-> f] : f \in Diffs(r.post, line.post)}, inv |-> inv])>>)
Init == l = 2 /\ bad = 0 /\ prev = [none |-> TRUE]
Next ==
    /\ l <= NLines
    /\ LET line == Rec[l] IN
       IF line.reset THEN bad' = bad
       ELSE LET r == Apply(StateOf(line.pre), ActOf(line.act))
                v == Verdict(line, r)
                inv == InvFailures(StateOf(line.post)) \ InvFailures(StateOf(line.pre))   \* newly broken only
                accepted == v = "" \/ (r.free /\ v = "outcome")
            IN /\ IF accepted /\ inv = {} THEN TRUE ELSE Report(line, r, v, inv)
               /\ bad' = IF accepted /\ inv = {} THEN bad ELSE bad + 1
    \* the log must be continuous: each call starts in the state the previous one ended in
    /\ IF Rec[l].reset \/ "none" \in DOMAIN prev \/ Rec[l].pre = prev THEN TRUE
       ELSE PrintT(<<"DISCONTINUITY", l>>)
    /\ prev' = IF Rec[l].reset THEN Rec[l].pre ELSE Rec[l].post
    /\ l' = l + 1
Accepted ==
    /\ TLCGet("stats").diameter = NLines
    /\ PrintT(<<"TRACE_DONE", NLines - 1, TLCGet("stats").diameter>>)
=============================================================================
