----------------------------- MODULE MC_C06_gas -----------------------------
(* C06 on the gas service: fee collection and refunds need the gas collector,     *)
(* ownership transfer the current owner; every principal as sole authoriser.        *)
EXTENDS GasService, Json, SequencesExt, AuthShapes
VARIABLE st
People == {"owner0", "col0", "bob", "mallory", "carol"}
Auths == {{p} : p \in People} \cup {{}}
Acts(s) ==
    {[name |-> n, receiver |-> rc, token |-> "sac", amt |-> 1, auth |-> au] :
        n \in {"CollectFees", "Refund"}, rc \in {"carol", "bob"}, au \in Auths}
    \* aliased beneficiary: the collector itself, the owner, or the service's own address
    \cup {[name |-> n, receiver |-> rc, token |-> "sac", amt |-> 1, auth |-> au] :
        n \in {"CollectFees", "Refund"}, rc \in {"col0", "owner0", "gs"}, au \in {{}, {"col0"}, {"owner0"}, {"mallory"}}}
    \cup {[name |-> "TransferOwnership", new |-> n, auth |-> au] : n \in {"owner0", "bob", "col0"}, au \in Auths}
    \* the migration window of the Upgradable interface is open (hidden from this module): every role check must
    \* behave exactly as when it is closed
    \cup {[name |-> "HookOpenWindow"]}
    \* an entry that names the entry point but keeps only the arguments `keepArgs` (what require_auth_for_args with a subset of the
    \* arguments would ask for) is not an authorisation of this exact call
    \cup {[name |-> "Refund", receiver |-> "carol", token |-> "sac", amt |-> 1, auth |-> {}, scopedAuth |-> {s.collector}, keepArgs |-> ks] : ks \in ProperKeeps(3)}
    \cup {[name |-> "CollectFees", receiver |-> "carol", token |-> "sac", amt |-> 1, auth |-> {}, scopedAuth |-> {s.collector}, keepArgs |-> ks] : ks \in ProperKeeps(2)}
    \cup {[name |-> "TransferOwnership", new |-> "bob", auth |-> {}, scopedAuth |-> {s.owner}, keepArgs |-> <<>>]}
InitState == [bal |-> [t \in Tokens |-> [x \in Accts |-> IF x = "gs" THEN 3 ELSE 0]], collector |-> "col0", owner |-> "owner0"]
Init == st = InitState
Next == \E a \in Acts(st) : st' = Apply(st, a).post
Step(P(_, _, _)) == \A a \in Acts(st) : a.name # "HookOpenWindow" => P(st, a, Apply(st, a))
Holder(s, a) == IF a.name = "TransferOwnership" THEN s.owner ELSE s.collector
OnlyHolder(s, a, r) == r.ok => Holder(s, a) \in a.auth
Successor(s, a, r) == /\ r.post.collector = s.collector
                      /\ r.post.owner = IF a.name = "TransferOwnership" /\ r.ok THEN a.new ELSE s.owner
Frame(s, a, r) == ~r.ok => r.post = s /\ r.ev = <<>>
C06_OnlyHolder == Step(OnlyHolder)
C06_Successor == Step(Successor)
C06_Frame == Step(Frame)
Inst == [module |-> "GasService", Tokens |-> Tokens, Accts |-> Accts]
ASSUME PrintT(<<"INST", ToJson(Inst)>>)
Dump ==
    LET acts == SetToSeq(Acts(st)) IN
    PrintT(<<"NODE", ToJson([pre |-> st,
        edges |-> [i \in 1..Len(acts) |->
            LET r == Apply(st, acts[i]) IN
            [act |-> acts[i],
             exp |-> [ok |-> r.ok, why |-> r.why, fails |-> r.fails, free |-> r.free, ret |-> r.ret, ev |-> r.ev],
             post |-> IF r.post = st THEN "same" ELSE r.post]]])>>)
=============================================================================
