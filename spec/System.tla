------------------------------- MODULE System -------------------------------
(***************************************************************************)
(* Composition: the gateway (with its weighted-multisig auth module and    *)
(* rotating signer sets) and the interchain token service share ONE        *)
(* approval table.  In ITS.tla the approval of a delivery is an abstract    *)
(* step (`ApproveDelivery`); here it is the gateway's `approve_messages`    *)
(* with a real proof from a signer set, and the service's `execute`         *)
(* consumes the gateway's approval through `validate_message` inside the    *)
(* same transaction.  System state: [gw |-> Gateway state, its |-> ITS      *)
(* state]; `its.appr` is not used (the gateway's `status` is the table).     *)
(*                                                                         *)
(* The gateway message catalogue contains, for every delivery of the        *)
(* service catalogue, a message with the same name: key = the delivery's    *)
(* key, src = its source address ("hub" / "nothub"), dest = its destination  *)
(* ("its" or another contract), ph = its payload name.                       *)
(***************************************************************************)
EXTENDS Naturals, Integers, Sequences, FiniteSets, TLC

CONSTANTS
    \* gateway
    Sets, GKeys, Msgs, Cap, Retention, MinDelay,
    \* token service
    Chains, Accts, Ids, IdOf, IdCOf, Canon, Metas, Deliveries, Payloads, Keys, Deviations

G == INSTANCE Gateway WITH Keys <- GKeys
I == INSTANCE ITS

GatewayActions == {"ApproveMessages", "RotateSigners", "ValidateProof", "Tick", "TransferOperatorship"}

(* every delivery is also a gateway message with the same name *)
CatalogueConsistent ==
    \A d \in DOMAIN Deliveries :
        /\ d \in DOMAIN Msgs
        /\ Msgs[d].key = Deliveries[d].key /\ Msgs[d].src = Deliveries[d].srcAddr
        /\ Msgs[d].dest = Deliveries[d].dest /\ Msgs[d].ph = Deliveries[d].payload
        /\ GKeys[Msgs[d].key].chain = Deliveries[d].srcChain

Res(ok, why, fails, free, ret, ev, post, dev) ==
    [ok |-> ok, why |-> why, fails |-> fails, free |-> free, ret |-> ret, ev |-> ev, post |-> post, dev |-> dev]

(* execute(source_chain, message_id, source_address, payload) on the service: the gateway's
   validate_message (caller = the service itself) decides `approved` and marks the message executed *)
Execute(sys, a) ==
    LET D == Deliveries[a.d]
        vm == G!ValidateMessage(sys.gw, [caller |-> "its", key |-> D.key, src |-> D.srcAddr, ph |-> D.payload,
                                          via |-> "self", auth |-> {}])
        approved == vm.ok /\ vm.ret = "true"
        r == I!ExecuteCore(sys.its, D, approved, sys.its, D.key, Deviations)
    IN IF r.ok
       THEN Res(TRUE, "ok", {}, FALSE, r.ret, vm.ev \o SelectSeq(r.ev, LAMBDA e : e.k # "delivery_executed"),
                [gw |-> vm.post, its |-> r.post], r.dev)
       ELSE Res(FALSE, r.why, r.fails, FALSE, "none", <<>>, sys, "none")

Apply(sys, a) ==
    IF a.name \in GatewayActions
    THEN LET r == G!Apply(sys.gw, a) IN
         Res(r.ok, r.why, r.fails, r.free, r.ret, r.ev, [sys EXCEPT !.gw = r.post], "none")
    ELSE IF a.name = "Execute" THEN Execute(sys, a)
    ELSE LET r == I!Apply(sys.its, a) IN
         Res(r.ok, r.why, r.fails, r.free, r.ret, r.ev, [sys EXCEPT !.its = r.post], r.dev)

-----------------------------------------------------------------------------
(* system-level invariants *)
(* the service never acted on a message the gateway does not record as executed: every executed key
   was approved for the service with exactly the delivered content *)
ExecutedOnlyOnce(sys) == G!ExecOnce(sys.gw)
GatewaySound(sys) == G!LookupsInverse(sys.gw) /\ G!InstalledWellFormed(sys.gw)
ServiceSound(sys) == I!NonNegative(sys.its)
=============================================================================
