----------------------------- MODULE MC_C06_ops -----------------------------
(* C06 on the operators contract: the operator set changes and ownership moves    *)
(* only with the current owner's authorisation; every principal as sole authoriser. *)
EXTENDS Operators, Json, SequencesExt, AuthShapes
VARIABLE st
Auths == {{p} : p \in Accts} \cup {{}}
Acts(s) ==
    {[name |-> n, acct |-> x, auth |-> au] : n \in {"AddOperator", "RemoveOperator"}, x \in {"a", "owner0"}, au \in Auths}
    \cup {[name |-> "TransferOwnership", new |-> n, auth |-> au] : n \in {"owner0", "bob", "a"}, au \in Auths}
    \* the migration window of the Upgradable interface is open (hidden from this module): every role check must
    \* behave exactly as when it is closed
    \cup {[name |-> "HookOpenWindow"]}
    \* an entry that names the entry point but keeps only the arguments `keepArgs` (what require_auth_for_args with a subset of the
    \* arguments would ask for) is not an authorisation of this exact call
    \cup {[name |-> n, acct |-> "a", auth |-> {}, scopedAuth |-> {s.owner}, keepArgs |-> <<>>] : n \in {"AddOperator", "RemoveOperator"}}
    \cup {[name |-> "TransferOwnership", new |-> "bob", auth |-> {}, scopedAuth |-> {s.owner}, keepArgs |-> <<>>]}
Init == st = [ops |-> [x \in Accts |-> "never"], owner |-> "owner0"]
Next == \E a \in Acts(st) : st' = Apply(st, a).post
Step(P(_, _, _)) == \A a \in Acts(st) : a.name # "HookOpenWindow" => P(st, a, Apply(st, a))
OnlyHolder(s, a, r) == r.ok => s.owner \in a.auth
Successor(s, a, r) == r.post.owner = IF a.name = "TransferOwnership" /\ r.ok THEN a.new ELSE s.owner
Frame(s, a, r) == ~r.ok => r.post = s /\ r.ev = <<>>
C06_OnlyHolder == Step(OnlyHolder)
C06_Successor == Step(Successor)
C06_Frame == Step(Frame)
Inst == [module |-> "Operators", Accts |-> Accts, Probes |-> <<"p1">>]
ASSUME PrintT(<<"INST", ToJson(Inst)>>)
Dump ==
    LET acts == SetToSeq(Acts(st)) IN
    PrintT(<<"NODE", ToJson([pre |-> Obs(st),
        edges |-> [i \in 1..Len(acts) |->
            LET r == Apply(st, acts[i]) IN
            [act |-> acts[i],
             exp |-> [ok |-> r.ok, why |-> r.why, fails |-> r.fails, free |-> r.free, ret |-> r.ret, ev |-> r.ev],
             post |-> IF r.post = st THEN "same" ELSE Obs(r.post)]]])>>)
=============================================================================
