------------------------------- MODULE MC_C12 -------------------------------
(* C12: balances, allowances and supply of the interchain token follow the      *)
(* standard token rules.  Instance: three users plus the owner; amounts -1..3     *)
(* (0, balance, balance+1, allowance+1, negative); one allowance pair with         *)
(* expirations before / at / after the current ledger and at / beyond the host's   *)
(* lifetime ceiling; ledger advancing 1..3; minter and owner changes; every         *)
(* interleaving (finite state space).  A second cfg runs the same instance on the   *)
(* i128 lattice (2 units = i128::MAX - 1, so a balance overflows iff > 2 units).    *)
EXTENDS Token, Json, SequencesExt
CONSTANTS QScale, MaxSupply, MaxSeq, Mode
VARIABLE st

Users == {"alice", "bob", "carol"}
Amts == IF Cap > 0 THEN -1..Cap ELSE -1..(MaxSupply + 1)
Exps(s) == {s.seq - 1, s.seq, s.seq + 1, s.seq + MaxLive, s.seq + MaxLive + 1}

LedgerActs(s) ==
    {[name |-> "Mint", to |-> t, amt |-> x, auth |-> {s.owner}] : t \in Users, x \in Amts}
    \cup {[name |-> "Approve", from |-> "alice", spender |-> "bob", amt |-> x, exp |-> e, auth |-> {"alice"}] :
            x \in Amts, e \in Exps(s)}
    \cup {[name |-> "Transfer", from |-> f, to |-> t, amt |-> x, auth |-> {f}] : f \in Users, t \in Users, x \in Amts}
    \cup {[name |-> "TransferFrom", spender |-> sp, from |-> "alice", to |-> t, amt |-> x, auth |-> {sp}] :
            sp \in {"bob", "carol"}, t \in Users, x \in Amts}
    \cup {[name |-> "Burn", from |-> f, amt |-> x, auth |-> {f}] : f \in Users, x \in Amts}
    \cup {[name |-> "BurnFrom", spender |-> sp, from |-> "alice", amt |-> x, auth |-> {sp}] :
            sp \in {"bob", "carol"}, x \in Amts}
    \cup {[name |-> "AdvanceLedger", d |-> 1] : x \in {1}}

(* minter and owner changes, with mints by the owner and by a designated minter in between *)
RoleActs(s) ==
    {[name |-> "Mint", to |-> "alice", amt |-> x, auth |-> {s.owner}] : x \in {-1, 0, 1}}
    \cup {[name |-> "MintFrom", minter |-> m, to |-> "alice", amt |-> x, auth |-> {m}] : m \in {"bob", "carol"}, x \in {-1, 0, 1}}
    \cup {[name |-> n, minter |-> m, auth |-> {s.owner}] : n \in {"AddMinter", "RemoveMinter"}, m \in {"bob", "its0", "carol"}}
    \cup {[name |-> "TransferOwnership", new |-> n, auth |-> {s.owner}] : n \in {"carol", "its0"}}
    \cup {[name |-> "Burn", from |-> "alice", amt |-> 1, auth |-> {"alice"}]}
    \* declared but unimplemented administrator entries: never move a balance
    \cup {[name |-> "Clawback", from |-> "alice", amt |-> x, auth |-> au] : x \in {0, 1}, au \in {{s.owner}, {"alice"}, {s.owner, "alice"}}}
    \cup {[name |-> "SetAuthorized", id |-> "alice", flag |-> FALSE, auth |-> {s.owner}],
          [name |-> "Authorized", id |-> "alice", auth |-> {}]}

Acts(s) == IF Mode = "roles" THEN RoleActs(s) ELSE LedgerActs(s)

(* instance pruning only (never a guard of the specification) *)
Within(s) == Supply(s) <= MaxSupply /\ s.seq <= MaxSeq

Init == st = Blank("its0", "its0", 1)
Next == \E a \in Acts(st) : Within(Apply(st, a).post) /\ st' = Apply(st, a).post
EnabledActs(s) == {a \in Acts(s) : Within(Apply(s, a).post)}

-----------------------------------------------------------------------------
C12_StepRules == \A a \in EnabledActs(st) : StepRules(st, a, Apply(st, a))
C12_NonNegative == NonNegative(st)
C12_Expiry == \A a \in EnabledActs(st) :
    (a.name \in {"TransferFrom", "BurnFrom"} /\ Apply(st, a).ok /\ a.amt > 0) =>
        st.allow[a.from][a.spender].exp >= st.seq
C12_OnlyMinters == \A a \in EnabledActs(st) :
    (a.name = "MintFrom" /\ Apply(st, a).ok) => st.minters[a.minter]
C12_AdminEvent == \A a \in EnabledActs(st) :
    (a.name = "TransferOwnership" /\ Apply(st, a).ok) =>
        \E i \in 1..Len(Apply(st, a).ev) :
            Apply(st, a).ev[i] = [k |-> "set_admin", prev |-> st.owner, new |-> a.new]

-----------------------------------------------------------------------------
Inst == [module |-> "Token", Accts |-> Accts, Cap |-> Cap, MaxLive |-> MaxLive,
         scale |-> [Q |-> QScale]]
ASSUME PrintT(<<"INST", ToJson(Inst)>>)
Obs(s) == [bal |-> s.bal, allowance |-> EffMap(s), minters |-> s.minters, owner |-> s.owner,
           seq |-> s.seq, allow |-> s.allow]
Dump ==
    LET acts == SetToSeq(EnabledActs(st)) IN
    PrintT(<<"NODE", ToJson([pre |-> Obs(st),
        edges |-> [i \in 1..Len(acts) |->
            LET r == Apply(st, acts[i]) IN
            [act |-> acts[i],
             exp |-> [ok |-> r.ok, why |-> r.why, fails |-> r.fails, free |-> r.free, ret |-> r.ret, ev |-> r.ev],
             post |-> IF r.post = st THEN "same" ELSE Obs(r.post)]]])>>)
=============================================================================
