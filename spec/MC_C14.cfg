CONSTANTS
  Tokens = {"sac", "itk", "nv"}
  Accts = {"alice", "bob", "carol", "gs"}
INIT Init
NEXT Next
CHECK_DEADLOCK FALSE
INVARIANTS
  C14_StepRules
  C14_NonNegative
  Dump
