CONSTANTS
  Target = "gas"
INIT Init
NEXT Next
CHECK_DEADLOCK FALSE
INVARIANTS
  C15_UpgradeAuth
  C15_OpensWindow
  C15_MigrateRule
  C15_Atomic
  C15_Frame
  Dump
