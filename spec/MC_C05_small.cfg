CONSTANTS
  Chains <- MC_Chains
  Accts <- MC_Accts
  Ids <- MC_Ids
  IdOf <- MC_IdOf
  IdCOf <- MC_IdCOf
  Canon <- MC_Canon
  Metas <- MC_Metas
  Deliveries <- MC_Deliveries
  Payloads <- MC_Payloads
  Keys <- MC_Keys
  Deviations = {}
  CanonName = "sac"
  Donated = 0
  Small = TRUE
INIT Init
NEXT Next
CHECK_DEADLOCK FALSE
INVARIANTS
  C05_Custody
  C05_NativeSupply
  C05_Out
  C05_In
  C05_Frame
  C05_NonNegative
  Compose
  Dump
