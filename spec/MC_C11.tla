------------------------------- MODULE MC_C11 -------------------------------
(* C11: token ids are deterministic and write-once; tokens deployed through the    *)
(* service (locally with any combination of initial supply and minter, or by a       *)
(* remote deploy message) report their id and metadata, are owned by the service,     *)
(* stay mintable by the service, credit the initial supply to the deployer and give   *)
(* minting rights to the service and the designated minter only.                      *)
(* Instance: (alice,s1) with every supply x minter combination; (alice,s2) with       *)
(* boundary metadata; (bob,s1) (same salt, other deployer); canonical registration of  *)
(* two tokens; remote deploy messages for a fresh id and for ids colliding with a      *)
(* local id and with a canonical id (before and after those are taken); re-deploys;    *)
(* and after every deployment an inbound transfer to each service-deployed token;      *)
(* one outbound request (remote deployment of either kind, transfer) per history.       *)
EXTENDS ITSMC
CONSTANT Small     \* TRUE: the reduced instance of the quick tier
VARIABLE st

MC_Chains == {"ethereum"}
MC_Accts == {"alice", "bob", "carol", "its", "gs"}
MC_Ids == {"iA1", "iA2", "iB1", "cS", "cF", "r1"}
MC_IdOf == [alice |-> [s1 |-> "iA1", s2 |-> "iA2"], bob |-> [s1 |-> "iB1"]]
MC_IdCOf == [sac |-> "cS", fk |-> "cF"]
MC_Canon == {"sac", "fk"}
MC_Metas == [good      |-> [nameLen |-> 10, symLen |-> 4, decimals |-> 7,   utf8 |-> TRUE, style |-> "ascii"],
             dec255    |-> [nameLen |-> 33, symLen |-> 1, decimals |-> 255, utf8 |-> TRUE, style |-> "mb"],
             dec0      |-> [nameLen |-> 1,  symLen |-> 32, decimals |-> 0,  utf8 |-> TRUE, style |-> "ascii"],
             emptyName |-> [nameLen |-> 0,  symLen |-> 4, decimals |-> 7,   utf8 |-> TRUE, style |-> "ascii"],
             emptySym  |-> [nameLen |-> 5,  symLen |-> 0, decimals |-> 7,   utf8 |-> TRUE, style |-> "ascii"],
             dec256    |-> [nameLen |-> 5,  symLen |-> 4, decimals |-> 256, utf8 |-> TRUE, style |-> "ascii"],
             sacMeta   |-> [nameLen |-> 6,  symLen |-> 6, decimals |-> 7,   utf8 |-> TRUE, style |-> "sac"]]
MC_Keys == {"k0"}
MC_Deliveries == [d0 |-> [key |-> "k0", srcChain |-> "axelar", srcAddr |-> "hub", dest |-> "its", payload |-> "tx_iA1"]]

Tx(id) == [outer |-> "recv", origin |-> "ethereum", inner |-> "transfer", id |-> id, sender |-> "evm1",
           recipient |-> "bob", amt |-> 1, data |-> "none", mut |-> NoMut]
Dp(id, meta, minter) == [outer |-> "recv", origin |-> "ethereum", inner |-> "deploy", id |-> id, meta |-> meta,
                         minter |-> minter, mut |-> NoMut]
RawPayloads ==
    [tx_iA1 |-> Tx("iA1"), tx_iA2 |-> Tx("iA2"), tx_iB1 |-> Tx("iB1"), tx_r1 |-> Tx("r1"),
     dp_r1 |-> Dp("r1", "good", "none"), dp_r1m |-> Dp("r1", "dec0", "carol"),
     dp_iA1 |-> Dp("iA1", "good", "none"), dp_cS |-> Dp("cS", "good", "none"),
     dp_bad |-> Dp("r1", "emptySym", "none")]
MC_Payloads == WithDecodes(RawPayloads)

FullActs(s) ==
    {[name |-> "DeployInterchainToken", caller |-> "alice", salt |-> "s1", meta |-> "good", supply |-> sp,
      minter |-> m, auth |-> {"alice"}] : sp \in {-1, 0, 5}, m \in {"none", "carol", "alice", "its"}}
    \cup {[name |-> "DeployInterchainToken", caller |-> "alice", salt |-> "s2", meta |-> mt, supply |-> 0,
           minter |-> "none", auth |-> {"alice"}] : mt \in {"dec255", "dec0", "emptyName", "emptySym", "dec256"}}
    \cup {[name |-> "DeployInterchainToken", caller |-> "bob", salt |-> "s1", meta |-> "good", supply |-> 5,
           minter |-> "none", auth |-> {"bob"}]}
    \cup {[name |-> "RegisterCanonical", tok |-> t] : t \in Canon}
    \cup {[name |-> "Deliver", payload |-> p] : p \in DOMAIN RawPayloads}
    \* the outbound entry points look ids up; they must not write the registry (one gas unit: once per history)
    \cup {[name |-> "DeployRemoteCanonical", tok |-> "sac", dest |-> "ethereum", spender |-> "alice", gas |-> 1, auth |-> {"alice"}],
          [name |-> "DeployRemoteInterchainToken", caller |-> "alice", salt |-> "s1", dest |-> "ethereum", gas |-> 1, auth |-> {"alice"}],
          [name |-> "InterchainTransfer", caller |-> "alice", id |-> "cS", dest |-> "ethereum", destAddr |-> "0xdest", amt |-> 1,
           data |-> "none", gas |-> 1, auth |-> {"alice"}]}

Acts(s) ==
    IF ~Small THEN FullActs(s)
    ELSE {a \in FullActs(s) :
            /\ (a.name = "DeployInterchainToken" /\ a.salt = "s2" => a.meta \in {"dec255", "emptyName", "dec256"})
            /\ (a.name = "RegisterCanonical" => a.tok = "sac")
            /\ (a.name = "Deliver" => a.payload \notin {"tx_iB1", "tx_iA2", "dp_r1m"})}

(* instance pruning: every inbound probe at most once per token *)
Within(s) == \A t \in Ids : s.bal[t]["bob"] <= 1 \/ t = "iB1"
InitState == [Blank("owner0") EXCEPT !.trusted["ethereum"] = TRUE, !.gas["alice"] = 1]
Init == st = InitState
EnabledActs(s) == {a \in Acts(s) : Within(Apply(s, a).post) /\ (a.name = "Deliver" /\ Payloads[a.payload].inner = "transfer" /\ Payloads[a.payload].id = "iB1" => s.bal["iB1"]["bob"] <= 5)}
Next == \E a \in EnabledActs(st) : st' = Apply(st, a).post

-----------------------------------------------------------------------------
Step(P(_, _, _)) == \A a \in EnabledActs(st) : P(st, a, Apply(st, a))
C11_WriteOnce == Step(LAMBDA s, a, r : WriteOnce(s, r))
C11_ServiceCanMint == ServiceCanMint(st)
Roles(s, a, r) ==
    (a.name = "DeployInterchainToken" /\ r.ok) =>
        LET id == IdOf[a.caller][a.salt] IN
        /\ r.ret = id /\ s.reg[id] = "none" /\ r.post.reg[id] = "native"
        /\ r.post.minters[id] = [x \in Accts |-> x = "its" \/ (a.minter # "none" /\ x = a.minter)]
        /\ (a.supply > 0 => r.post.bal[id][a.caller] = a.supply)
        /\ r.post.tokMeta[id] = a.meta /\ MetaValid(a.meta)
Mintable(s, a, r) ==
    (a.name = "Deliver" /\ Payloads[a.payload].inner = "transfer" /\ s.reg[Payloads[a.payload].id] = "native") => r.ok
TakenIdsRefuse(s, a, r) ==
    /\ (a.name = "DeployInterchainToken" /\ s.reg[IdOf[a.caller][a.salt]] # "none") => ~r.ok
    /\ (a.name = "RegisterCanonical" /\ s.reg[IdCOf[a.tok]] # "none") => ~r.ok
    /\ (a.name = "Deliver" /\ Payloads[a.payload].inner = "deploy" /\ s.reg[Payloads[a.payload].id] # "none") => ~r.ok
Frame(s, a, r) == ~r.ok => r.post = s /\ r.ev = <<>>
C11_Roles == Step(Roles)
C11_Mintable == Step(Mintable)
C11_TakenIdsRefuse == Step(TakenIdsRefuse)
C11_Frame == Step(Frame)
Compose == Step(ComposeStep)
C11_IdsDistinct == \A d1, d2 \in DOMAIN IdOf : \A s1 \in DOMAIN IdOf[d1], s2 \in DOMAIN IdOf[d2] :
                      (<<d1, s1>> # <<d2, s2>>) => IdOf[d1][s1] # IdOf[d2][s2]

(* the same step properties in one pass over the enabled actions (quick tier) *)
C11_AllSteps == \A a \in EnabledActs(st) : LET r == Apply(st, a) IN Roles(st, a, r) /\ Mintable(st, a, r) /\ TakenIdsRefuse(st, a, r) /\ Frame(st, a, r) /\ WriteOnce(st, r)

ASSUME PrintT(<<"INST", ToJson(InstBase(RawPayloads, <<"r1">>))>>)
Dump == DumpNode(st, EnabledActs(st))
=============================================================================
