------------------------------- MODULE MC_C15 -------------------------------
(* C15: owner-only upgrades, one migration per upgrade, all-or-nothing Upgrader. *)
(* One cfg per target (five production contracts + the repository's dummy).       *)
(* Every sequence over upgrade / migrate / ownership transfer / Upgrader call with *)
(* authorisers owner, former owner, stranger, nobody; Upgrader: requested version  *)
(* same / correct / wrong x authorisation coverage (both steps, one step, none,     *)
(* wrong principal) x migration data well-typed / ill-typed.  Finite state space.   *)
EXTENDS Upgrade, Json, SequencesExt, AuthShapes
VARIABLE st

Auths == {{"owner0"}, {"bob"}, {"mallory"}, {}}
Fixtures == {"Ftriv", "Fdummy"}
\* argument lists handed to migrate: [()], [string], [] (nothing to forward), [(), ()]
DataKinds == {"unit", "str", "empty", "two"}
\* requested versions that are neighbours of the real ones in string order: below the current one, between the
\* current and the new one, a proper prefix and an extension of the new one (equality is what counts, not order)
OrderNeighbours == {"0.0.9", "0.1.5", "0.2", "0.2.0.1"}
Acts(s) ==
    {[name |-> "Upgrade", new |-> f, auth |-> au] : f \in Fixtures, au \in Auths}
    \cup {[name |-> "Migrate", data |-> d, auth |-> au] : d \in DataKinds, au \in Auths}
    \cup (IF s.code = "native" /\ Target # "dummy" THEN {[name |-> "HookOpenWindow"]} ELSE {})
    \* an entry naming the entry point without its argument is not an authorisation of this upgrade / migration
    \cup {[name |-> "Upgrade", new |-> "Ftriv", auth |-> {}, scopedAuth |-> {s.owner}, keepArgs |-> <<>>],
          [name |-> "Migrate", data |-> "unit", auth |-> {}, scopedAuth |-> {s.owner}, keepArgs |-> <<>>],
          [name |-> "Migrate", data |-> "str", auth |-> {}, scopedAuth |-> {s.owner}, keepArgs |-> <<>>]}
    \cup {[name |-> "TransferOwnership", new |-> n, auth |-> {s.owner}] : n \in {"owner0", "bob"}}
    \cup {[name |-> "UpgraderUpgrade", new |-> f, version |-> v, data |-> d, authUp |-> p[1], authMig |-> p[2]] :
            f \in Fixtures \cup {"Fnover"}, v \in {"0.1.0", "0.2.0", "9.9.9"} \cup OrderNeighbours, d \in DataKinds,
            p \in {<<{s.owner}, {s.owner}>>, <<{s.owner}, {}>>, <<{}, {s.owner}>>, <<{}, {}>>,
                   <<{"mallory"}, {"mallory"}>>, <<{s.owner}, {"mallory"}>>}}

Init == st = [code |-> "native", migrating |-> FALSE, owner |-> "owner0", data |-> "none"]
Next == \E a \in Acts(st) : st' = Apply(st, a).post

Step(P(_, _, _)) == \A a \in Acts(st) : P(st, a, Apply(st, a))
UpgradeAuth(s, a, r) == (a.name = "Upgrade" /\ r.ok) => s.owner \in a.auth /\ r.post.code = a.new
OpensWindow(s, a, r) == (a.name = "Upgrade" /\ r.ok /\ Derived(s.code)) => r.post.migrating
MigrateRule(s, a, r) ==
    (a.name = "Migrate" /\ r.ok /\ Derived(s.code)) =>
        /\ s.owner \in a.auth /\ s.migrating /\ ~r.post.migrating
        /\ r.ev = <<[k |-> "upgraded", version |-> VersionOf(s.code)]>>
        \* it cannot run twice: the same call is refused in the post-state
        /\ ~Apply(r.post, a).ok
Atomic(s, a, r) ==
    a.name = "UpgraderUpgrade" =>
        \/ (~r.ok /\ r.post = s /\ r.ev = <<>>)
        \/ (r.ok /\ r.post.code = a.new /\ VersionOf(a.new) = a.version /\ a.version # VersionOf(s.code)
                 /\ s.owner \in a.authUp /\ s.owner \in a.authMig
                 /\ (Derived(a.new) => ~r.post.migrating))
Frame(s, a, r) == ~r.ok => r.post = s /\ r.ev = <<>>

C15_UpgradeAuth == Step(UpgradeAuth)
C15_OpensWindow == Step(OpensWindow)
C15_MigrateRule == Step(MigrateRule)
C15_Atomic == Step(Atomic)
C15_Frame == Step(Frame)

Inst == [module |-> "Upgrade", Target |-> Target]
ASSUME PrintT(<<"INST", ToJson(Inst)>>)
Dump ==
    LET acts == SetToSeq(Acts(st)) IN
    PrintT(<<"NODE", ToJson([pre |-> Obs(st),
        edges |-> [i \in 1..Len(acts) |->
            LET r == Apply(st, acts[i]) IN
            [act |-> acts[i],
             exp |-> [ok |-> r.ok, why |-> r.why, fails |-> r.fails, free |-> r.free, ret |-> r.ret, ev |-> r.ev],
             post |-> IF r.post = st THEN "same" ELSE Obs(r.post)]]])>>)
=============================================================================
