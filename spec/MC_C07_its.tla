----------------------------- MODULE MC_C07_its -----------------------------
(* C07 on the token service and the example app: deploying under a deployer's name, *)
(* remote deployment (caller and gas payer), interchain transfer and example.send    *)
(* succeed only with the named address's authorisation; the owner, the recipient, a    *)
(* stranger or nobody cannot; with zero and positive initial supply.                    *)
EXTENDS ITSMC
VARIABLE st
MC_Chains == {"ethereum"}
MC_Accts == {"alice", "bob", "its", "gs"}
MC_Ids == {"iA1", "iA2", "cS"}
MC_IdOf == [alice |-> [s1 |-> "iA1", s2 |-> "iA2"]]
MC_IdCOf == [sac |-> "cS"]
MC_Canon == {"sac"}
MC_Metas == [good    |-> [nameLen |-> 10, symLen |-> 4, decimals |-> 7, utf8 |-> TRUE, style |-> "ascii"],
             sacMeta |-> [nameLen |-> 6,  symLen |-> 6, decimals |-> 7, utf8 |-> TRUE, style |-> "sac"]]
MC_Keys == {"k0"}
MC_Deliveries == [d0 |-> [key |-> "k0", srcChain |-> "axelar", srcAddr |-> "hub", dest |-> "its", payload |-> "p0"]]
RawPayloads == [p0 |-> [outer |-> "recv", origin |-> "ethereum", inner |-> "transfer", id |-> "iA1", sender |-> "evm1",
                        recipient |-> "bob", amt |-> 1, data |-> "none", mut |-> NoMut]]
MC_Payloads == WithDecodes(RawPayloads)
People == {"alice", "bob", "owner0", "mallory"}
Auths == {{p} : p \in People} \cup {{}}
Acts(s) ==
    {[name |-> "DeployInterchainToken", caller |-> "alice", salt |-> sl, meta |-> "good", supply |-> sp, minter |-> "none", auth |-> au] :
        sl \in {"s1"}, sp \in {0, 2}, au \in Auths}
    \cup {[name |-> "DeployInterchainToken", caller |-> "alice", salt |-> "s2", meta |-> "good", supply |-> 0, minter |-> "bob", auth |-> au] : au \in Auths}
    \cup {[name |-> "RegisterCanonical", tok |-> "sac"]}
    \cup {[name |-> "DeployRemoteInterchainToken", caller |-> "alice", salt |-> "s1", dest |-> "ethereum", gas |-> 1, auth |-> au] : au \in Auths}
    \cup {[name |-> "DeployRemoteCanonical", tok |-> "sac", dest |-> "ethereum", spender |-> "alice", gas |-> 1, auth |-> au] : au \in Auths}
    \cup {[name |-> "InterchainTransfer", caller |-> "alice", id |-> id, dest |-> "ethereum", destAddr |-> "0xdest", amt |-> 1,
           data |-> "none", gas |-> 1, auth |-> au] : id \in {"iA1", "cS"}, au \in Auths}
    \cup {[name |-> "ExampleSend", caller |-> "alice", gas |-> 1, auth |-> au] : au \in Auths}
    \* `scoped`: the named address signed only the sub-invocations (taking its tokens, paying its gas) as
    \* separate entries - not the service call made in its name
    \cup {[name |-> "InterchainTransfer", caller |-> "alice", id |-> id, dest |-> "ethereum", destAddr |-> "0xdest", amt |-> 1,
           data |-> "none", gas |-> 1, auth |-> {}, scoped |-> {"alice"}] : id \in {"iA1", "cS"}}
    \cup {[name |-> "DeployRemoteInterchainToken", caller |-> "alice", salt |-> "s1", dest |-> "ethereum", gas |-> 1, auth |-> {}, scoped |-> {"alice"}],
          [name |-> "ExampleSend", caller |-> "alice", gas |-> 1, auth |-> {}, scoped |-> {"alice"}]}
    \* the service's own address named as caller / payer by an outside caller
    \cup {[name |-> "InterchainTransfer", caller |-> "its", id |-> "cS", dest |-> "ethereum", destAddr |-> "0xdest", amt |-> 1,
           data |-> "none", gas |-> 1, auth |-> au] : au \in {{}, {"mallory"}}}
    \cup {[name |-> "DeployRemoteCanonical", tok |-> "sac", dest |-> "ethereum", spender |-> "its", gas |-> 1, auth |-> {}]}
InitState == [Blank("owner0") EXCEPT !.trusted["ethereum"] = TRUE, !.gas["alice"] = 3, !.bal["sac"]["alice"] = 2]
Init == st = InitState
Next == \E a \in Acts(st) : st' = Apply(st, a).post
Step(P(_, _, _)) == \A a \in Acts(st) : P(st, a, Apply(st, a))
NamedOf(a) == IF a.name = "DeployRemoteCanonical" THEN a.spender ELSE a.caller
Named(s, a, r) == (a.name # "RegisterCanonical" /\ r.ok) => NamedOf(a) \in a.auth
Frame(s, a, r) == ~r.ok => r.post = s /\ r.ev = <<>>
C07_Named == Step(Named)
C07_Frame == Step(Frame)
ASSUME PrintT(<<"INST", ToJson(InstBase(RawPayloads, <<>>))>>)
Dump == DumpNode(st, Acts(st))
=============================================================================
