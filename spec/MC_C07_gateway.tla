--------------------------- MODULE MC_C07_gateway ---------------------------
(* C07 on the gateway: call_contract and validate_message act for `caller` only   *)
(* with that address's authorisation, or when the caller is the calling contract.   *)
EXTENDS Gateway, Json, SequencesExt, AuthShapes
VARIABLE st
MC_Sets == [s1 |-> [keys |-> <<1, 2>>, weights |-> <<1, 1>>, threshold |-> 2, nonce |-> 0]]
MC_Keys == [k1 |-> [chain |-> "c", id |-> "1"], k2 |-> [chain |-> "c", id |-> "2"]]
MC_Msgs == [m1 |-> [key |-> "k1", src |-> "sA", dest |-> "app1", ph |-> "p1"],
            m2 |-> [key |-> "k2", src |-> "sA", dest |-> "pr1", ph |-> "p1"]]
People == {"app1", "alice", "owner0", "op0", "mallory"}
Auths == {{p} : p \in People} \cup {{}}
GoodProof == [set |-> "s1", sigs |-> <<"Valid", "Valid">>]
Acts(s) ==
    {[name |-> "ApproveMessages", msgs |-> <<m>>, proof |-> GoodProof, auth |-> {}] : m \in MsgNames}
    \cup {[name |-> "ValidateMessage", caller |-> "app1", key |-> "k1", src |-> "sA", ph |-> "p1", via |-> "direct", auth |-> au] : au \in Auths}
    \cup {[name |-> "ValidateMessage", caller |-> "pr1", key |-> "k2", src |-> "sA", ph |-> "p1", via |-> "self", auth |-> {}]}
    \cup {[name |-> "CallContract", caller |-> "alice", via |-> "direct", through |-> "none", auth |-> au,
           chain |-> "ethereum", addr |-> "0xabc", payload |-> "p1"] : au \in Auths}
    \cup {[name |-> "CallContract", caller |-> "alice", via |-> "other", through |-> "pr1", auth |-> au,
           chain |-> "ethereum", addr |-> "0xabc", payload |-> "p1"] : au \in Auths}
    \cup {[name |-> "CallContract", caller |-> "gateway", via |-> "direct", through |-> "none", auth |-> au,
           chain |-> "ethereum", addr |-> "0xabc", payload |-> "p1"] : au \in {{}, {"mallory"}}}
    \cup {[name |-> "ValidateMessage", caller |-> "gateway", key |-> "k1", src |-> "sA", ph |-> "p1", via |-> "direct", auth |-> au] : au \in {{}, {"mallory"}}}
    \* an entry that names the entry point but keeps only the arguments `keepArgs` (what require_auth_for_args with a subset of the
    \* arguments would ask for) is not an authorisation of this exact call
    \cup {[name |-> "CallContract", caller |-> "alice", via |-> "direct", through |-> "none", auth |-> {}, scopedAuth |-> {"alice"}, keepArgs |-> ks,
           chain |-> "ethereum", addr |-> "0xabc", payload |-> "p1"] : ks \in ProperKeeps(4)}
    \cup {[name |-> "ValidateMessage", caller |-> "app1", key |-> "k1", src |-> "sA", ph |-> "p1", via |-> "direct", auth |-> {},
           scopedAuth |-> {"app1"}, keepArgs |-> ks] : ks \in ProperKeeps(5)}
    \* degenerate argument values - an empty payload, an empty destination chain, an empty destination address: the
    \* sender's authorisation is needed whatever is sent (a check skipped "because there is nothing to send")
    \cup {[name |-> "CallContract", caller |-> "alice", via |-> "direct", through |-> "none", auth |-> au,
           chain |-> d[1], addr |-> d[2], payload |-> d[3]] :
            au \in {{}, {"mallory"}, {"alice"}}, d \in {<<"ethereum", "0xabc", "p0">>, <<"e0", "0xabc", "p1">>, <<"ethereum", "e0", "p1">>}}
    \cup {[name |-> "HookOpenWindow"]}
    \cup {[name |-> "CallContract", caller |-> "pr1", via |-> "self", through |-> "none", auth |-> {},
           chain |-> "ethereum", addr |-> "0xabc", payload |-> "p1"]}
InitState == [Install(Blank("owner0", "op0", 0), "s1") EXCEPT !.deployed = TRUE]
(* `win`: the Upgradable interface's migration window is open (instance-level ghost: not part of Gateway.tla's state,
   not observable; set by the verification hook).  Every action is explored with the window closed AND open. *)
WithWin(s, w) == [f \in DOMAIN s \cup {"win"} |-> IF f = "win" THEN w ELSE s[f]]
ApplyW(s, a) ==
    IF a.name = "HookOpenWindow"
    THEN [ok |-> TRUE, why |-> "ok", fails |-> {}, free |-> FALSE, ret |-> "unit", ev |-> <<>>, post |-> [s EXCEPT !.win = TRUE]]
    ELSE Apply(s, a)
Init == st = WithWin(InitState, FALSE)
Next == \E a \in Acts(st) : st' = ApplyW(st, a).post
Step(P(_, _, _)) == \A a \in Acts(st) : a.name # "HookOpenWindow" => P(st, a, ApplyW(st, a))
Named(s, a, r) == (a.name \in {"ValidateMessage", "CallContract"} /\ r.ok) => (a.caller \in a.auth \/ a.via = "self")
Frame(s, a, r) == ~r.ok => r.post = s /\ r.ev = <<>>
C07_Named == Step(Named)
C07_Frame == Step(Frame)
Inst == [module |-> "Gateway", Sets |-> Sets, Keys |-> Keys, Msgs |-> Msgs, Cap |-> Cap,
         Retention |-> Retention, MinDelay |-> MinDelay, Probes |-> <<"pr1">>,
         Payloads |-> [p0 |-> [len |-> 0, pat |-> "asc"]], Strings |-> [e0 |-> [len |-> 0, kind |-> "ascii"]],
         scale |-> [Q |-> "1", Qt |-> "1", t0 |-> 1000000]]
ASSUME PrintT(<<"INST", ToJson(Inst)>>)
Dump ==
    LET acts == SetToSeq(Acts(st)) IN
    PrintT(<<"NODE", ToJson([pre |-> st,
        edges |-> [i \in 1..Len(acts) |->
            LET r == ApplyW(st, acts[i]) IN
            [act |-> acts[i],
             exp |-> [ok |-> r.ok, why |-> r.why, fails |-> r.fails, free |-> r.free, ret |-> r.ret, ev |-> r.ev],
             post |-> IF r.post = st THEN "same" ELSE r.post]]])>>)
=============================================================================
