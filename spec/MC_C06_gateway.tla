--------------------------- MODULE MC_C06_gateway ---------------------------
(* C06 on the gateway: ownership / operatorship transfer and the rotation-delay   *)
(* bypass need the CURRENT holder's authorisation.  Every principal as sole         *)
(* authoriser (current holder, former holder, holder of the other role, the          *)
(* beneficiary named in the arguments, a stranger) and nobody, over every history     *)
(* of role transfers among three addresses (incl. transfer to self and back).         *)
EXTENDS Gateway, Json, SequencesExt, AuthShapes
CONSTANT Op0    \* the operator named at construction: "op0", or "owner0" (the SAME address as the owner)
VARIABLE st

MC_Sets == [a |-> [keys |-> <<1, 2>>, weights |-> <<1, 1>>, threshold |-> 2, nonce |-> 1],
            b |-> [keys |-> <<2, 3>>, weights |-> <<1, 2>>, threshold |-> 2, nonce |-> 2],
            c |-> [keys |-> <<1, 3>>, weights |-> <<1, 1>>, threshold |-> 2, nonce |-> 3]]
MC_Keys == [k1 |-> [chain |-> "c", id |-> "1"]]
MC_Msgs == [m1 |-> [key |-> "k1", src |-> "sA", dest |-> "app1", ph |-> "p1"]]
People == {"owner0", "op0", "bob", "mallory"}
Auths == {{p} : p \in People} \cup {{}}
Order == <<"a", "b", "c">>
Full(s) == [set |-> s, sigs |-> [i \in 1..Len(Sets[s].keys) |-> "Valid"]]

Acts(s) ==
    {[name |-> "TransferOwnership", new |-> n, auth |-> au] : n \in {"owner0", "bob"}, au \in Auths}
    \cup {[name |-> "TransferOperatorship", new |-> n, auth |-> au] : n \in {"op0", "bob", "owner0"}, au \in Auths}
    \* the migration window of the Upgradable interface is open (hidden from this module): every role check must
    \* behave exactly as when it is closed
    \cup {[name |-> "HookOpenWindow"]}
    \* an entry that names the entry point but keeps only the arguments `keepArgs` (what require_auth_for_args with a subset of the
    \* arguments would ask for) is not an authorisation of this exact call
    \cup {[name |-> "TransferOperatorship", new |-> "bob", auth |-> {}, scopedAuth |-> {s.operator}, keepArgs |-> <<>>],
          [name |-> "TransferOwnership", new |-> "bob", auth |-> {}, scopedAuth |-> {s.owner}, keepArgs |-> <<>>]}
    \cup (IF s.epoch < 3
          THEN {[name |-> "RotateSigners", new |-> Order[s.epoch + 1], proof |-> Full(s.hashByEpoch[s.epoch]), bypass |-> TRUE,
                 auth |-> {}, scopedAuth |-> {s.operator}, keepArgs |-> ks] : ks \in ProperKeeps(3)}
          ELSE {})
    \cup (IF s.epoch < 3
          THEN {[name |-> "RotateSigners", new |-> Order[s.epoch + 1], proof |-> Full(s.hashByEpoch[e]), bypass |-> TRUE, auth |-> au] :
                    e \in {x \in 1..s.epoch : s.epoch - x <= Retention}, au \in Auths}
          ELSE {})

PlainRotations(s) ==
    \* a rotation WITHOUT bypass right after deployment / the previous rotation (the clock never advances here, so it is
    \* always inside the minimum delay): skipping the delay is the operator's privilege, whoever signs
    IF s.epoch < 3
    THEN {[name |-> "RotateSigners", new |-> Order[s.epoch + 1], proof |-> Full(s.hashByEpoch[s.epoch]), bypass |-> FALSE, auth |-> au] :
            au \in {{}, {s.operator}, {s.owner}}}
    ELSE {}

InitState == [Install(Blank("owner0", Op0, 0), "a") EXCEPT !.deployed = TRUE]
Init == st = InitState
AllActs(s) == Acts(s) \cup PlainRotations(s)
Next == \E a \in AllActs(st) : st' = Apply(st, a).post

C06_NoBypassWithoutOperator == \A a \in PlainRotations(st) : LET r == Apply(st, a) IN ~r.ok /\ r.fails = {"delay"} /\ r.post = st
Step(P(_, _, _)) == \A a \in Acts(st) : a.name # "HookOpenWindow" => P(st, a, Apply(st, a))
Holder(s, a) == IF a.name = "TransferOwnership" THEN s.owner ELSE s.operator
OnlyHolder(s, a, r) == r.ok => Holder(s, a) \in a.auth
Complete(s, a, r) == Holder(s, a) \in a.auth => r.ok
Successor(s, a, r) ==
    /\ (a.name = "TransferOwnership" /\ r.ok) => r.post.owner = a.new /\ r.post.operator = s.operator
    /\ (a.name = "TransferOperatorship" /\ r.ok) => r.post.operator = a.new /\ r.post.owner = s.owner
    /\ (a.name = "RotateSigners") => r.post.owner = s.owner /\ r.post.operator = s.operator
Frame(s, a, r) == ~r.ok => r.post = s /\ r.ev = <<>>
C06_OnlyHolder == Step(OnlyHolder)
C06_Complete == Step(Complete)
C06_Successor == Step(Successor)
C06_Frame == Step(Frame)

Inst == [module |-> "Gateway", Sets |-> Sets, Keys |-> Keys, Msgs |-> Msgs, Cap |-> Cap,
         Retention |-> Retention, MinDelay |-> MinDelay, Probes |-> <<>>,
         scale |-> [Q |-> "1", Qt |-> "1", t0 |-> 1000000]]
ASSUME PrintT(<<"INST", ToJson(Inst)>>)
Dump ==
    LET acts == SetToSeq(AllActs(st)) IN
    PrintT(<<"NODE", ToJson([pre |-> st,
        edges |-> [i \in 1..Len(acts) |->
            LET r == Apply(st, acts[i]) IN
            [act |-> acts[i],
             exp |-> [ok |-> r.ok, why |-> r.why, fails |-> r.fails, free |-> r.free, ret |-> r.ret, ev |-> r.ev],
             post |-> IF r.post = st THEN "same" ELSE r.post]]])>>)
=============================================================================
