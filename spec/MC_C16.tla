------------------------------- MODULE MC_C16 -------------------------------
(* C16: an application using the executable interface (the shipped example and a  *)
(* minimal app built on the interface's validation helper) performs its effect     *)
(* only if the gateway holds an unexecuted approval naming that application, the    *)
(* same chain, id, source address and the hash of exactly the delivered payload;    *)
(* otherwise the delivery fails without effect; a delivered message cannot be        *)
(* delivered again.  Instance: every approval content that deviates from the         *)
(* conforming one in one respect, every delivery to both apps, all interleavings.    *)
EXTENDS Gateway, Json, SequencesExt
VARIABLE st

MC_Sets == [s1 |-> [keys |-> <<1, 2>>, weights |-> <<1, 1>>, threshold |-> 2, nonce |-> 0]]
MC_Keys == [k1 |-> [chain |-> "c", id |-> "1"], k2 |-> [chain |-> "c", id |-> "2"], k3 |-> [chain |-> "d", id |-> "1"]]
MC_Msgs == [good  |-> [key |-> "k1", src |-> "sA", dest |-> "ex",   ph |-> "p1"],
            mini  |-> [key |-> "k1", src |-> "sA", dest |-> "mini", ph |-> "p1"],
            pay2  |-> [key |-> "k1", src |-> "sA", dest |-> "ex",   ph |-> "p2"],
            srcB  |-> [key |-> "k1", src |-> "sB", dest |-> "ex",   ph |-> "p1"],
            id2   |-> [key |-> "k2", src |-> "sA", dest |-> "ex",   ph |-> "p1"],
            id2m  |-> [key |-> "k2", src |-> "sA", dest |-> "mini", ph |-> "p1"],
            id2e  |-> [key |-> "k2", src |-> "sA", dest |-> "ex",   ph |-> "p0"],     \* an EMPTY payload
            chd   |-> [key |-> "k3", src |-> "sA", dest |-> "mini", ph |-> "p2"],
            m32   |-> [key |-> "k3", src |-> "sA", dest |-> "ex",   ph |-> "p32"]]    \* a payload of exactly 32 bytes
GoodProof == [set |-> "s1", sigs |-> <<"Valid", "Valid">>]

Acts(s) ==
    {[name |-> "ApproveMessages", msgs |-> <<m>>, proof |-> GoodProof, auth |-> {}] : m \in MsgNames}
    \cup {[name |-> "AppExecute", app |-> ap, key |-> k, src |-> sa, payload |-> p] :
            ap \in {"ex", "mini"}, k \in KeyNames, sa \in {"sA", "sB"}, p \in {"p1", "p2", "p0", "p32", "ph1"}}

InitState == [Install(Blank("owner0", "op0", 0), "s1") EXCEPT !.deployed = TRUE]
Init == st = InitState
Next == \E a \in Acts(st) : st' = Apply(st, a).post

Step(P(_, _, _)) == \A a \in Acts(st) : P(st, a, Apply(st, a))
Gate(s, a, r) ==
    (a.name = "AppExecute" /\ r.ok) =>
        /\ s.status[a.key] \in MsgNames
        /\ Msgs[s.status[a.key]] = [key |-> a.key, src |-> a.src, dest |-> a.app, ph |-> a.payload]
        /\ r.post.status[a.key] = "executed"
Complete(s, a, r) ==
    (a.name = "AppExecute" /\ s.status[a.key] \in MsgNames
        /\ Msgs[s.status[a.key]] = [key |-> a.key, src |-> a.src, dest |-> a.app, ph |-> a.payload]) => r.ok
Once(s, a, r) == (a.name = "AppExecute" /\ r.ok) => ~Apply(r.post, a).ok
NoEffectOnFailure(s, a, r) == ~r.ok => r.post = s /\ r.ev = <<>>

C16_Gate == Step(Gate)
C16_Complete == Step(Complete)
C16_Once == Step(Once)
C16_NoEffectOnFailure == Step(NoEffectOnFailure)
C16_ExecOnce == ExecOnce(st)

Inst == [module |-> "Gateway", Sets |-> Sets, Keys |-> Keys, Msgs |-> Msgs, Cap |-> Cap,
         Retention |-> Retention, MinDelay |-> MinDelay, Probes |-> <<>>, Apps |-> <<"ex", "mini">>,
         \* p32: an ordinary payload that is as long as a hash; ph1: the 32 bytes of Keccak-256(p1) delivered AS payload -
         \* an approval of p1 must not let it through, and an approval of p32 must (the payload is hashed whatever its length)
         Payloads |-> [p0 |-> [len |-> 0, pat |-> "asc"], p32 |-> [len |-> 32, pat |-> "asc"], ph1 |-> [len |-> 32, pat |-> "hashof:p1"]],
         scale |-> [Q |-> "1", Qt |-> "1", t0 |-> 1000000]]
ASSUME PrintT(<<"INST", ToJson(Inst)>>)
Dump ==
    LET acts == SetToSeq(Acts(st)) IN
    PrintT(<<"NODE", ToJson([pre |-> st,
        edges |-> [i \in 1..Len(acts) |->
            LET r == Apply(st, acts[i]) IN
            [act |-> acts[i],
             exp |-> [ok |-> r.ok, why |-> r.why, fails |-> r.fails, free |-> r.free, ret |-> r.ret, ev |-> r.ev],
             post |-> IF r.post = st THEN "same" ELSE r.post]]])>>)
=============================================================================
