CONSTANTS
  Sets <- MC_Sets
  Keys <- MC_Keys
  Msgs <- MC_Msgs
  Cap = 1000
  Retention = 1
  MinDelay = 10
  Op0 = "owner0"
INIT Init
NEXT Next
CHECK_DEADLOCK FALSE
INVARIANTS
  C06_OnlyHolder
  C06_Complete
  C06_Successor
  C06_Frame
  C06_NoBypassWithoutOperator
  Dump
