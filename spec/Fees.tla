-------------------------------- MODULE Fees --------------------------------
(***************************************************************************)
(* Composition: the operators contract IS the gas service's collector (the  *)
(* deployment the two contracts are written for).  Fees leave the gas        *)
(* service only through `operators.execute(op, gas_service, collect_fees |   *)
(* refund, args)`: the gas service sees its collector as the direct caller,   *)
(* so the only human gate on a pay-out is the operators contract's own        *)
(* "current operator, who authorised this call".                              *)
(*                                                                           *)
(* State: the gas service's record (bal, collector = "ops", owner) plus the    *)
(* operators contract's (ops: three-valued membership, opsOwner).              *)
(* A forwarded call is ONE action whose guards are the operators contract's     *)
(* followed by the gas service's: a refusal of the inner call refuses the        *)
(* whole call and nothing of either contract changes.                            *)
(*                                                                           *)
(* Authorisation of a forwarded call has two layers: `auth` = principals whose   *)
(* entry is rooted at operators.execute(...) and `inner_auth` = principals whose  *)
(* entry is rooted at the gas service's entry point (what the gas service's own   *)
(* require_auth of a third party would consume).  The operators contract itself    *)
(* authorises the inner call by being its direct caller.                           *)
(***************************************************************************)
EXTENDS Naturals, Integers, Sequences, FiniteSets, TLC

CONSTANTS Tokens, Accts,     \* of the gas service; Accts includes "gs" and "ops"
          OpAccts            \* candidates for membership in the operators contract

G == INSTANCE GasService
O == INSTANCE Operators WITH Accts <- OpAccts

Res(ok, why, fails, free, ret, ev, post) ==
    [ok |-> ok, why |-> why, fails |-> fails, free |-> free, ret |-> ret, ev |-> ev, post |-> post]
First(order, fails) ==
    LET i == CHOOSE j \in 1..Len(order) : order[j] \in fails /\ \A k \in 1..(j-1) : order[k] \notin fails
    IN order[i]
Order == O!Order \o <<"role_auth2">> \o G!Order

GasOf(sys) == [bal |-> sys.bal, collector |-> sys.collector, owner |-> sys.owner]
OpsOf(sys) == [ops |-> sys.ops, owner |-> sys.opsOwner]
WithGas(sys, g) == [sys EXCEPT !.bal = g.bal, !.collector = g.collector, !.owner = g.owner]
WithOps(sys, o) == [sys EXCEPT !.ops = o.ops, !.opsOwner = o.owner]

GasActions == {"PayGas", "AddGas", "CollectFees", "Refund", "TransferOwnership"}
OpsActions == {"AddOperator", "RemoveOperator"}

(* the gas-service call a forwarded call turns into; its authorisers are the operators contract (direct caller)
   and whoever signed an entry rooted at the gas service's entry point *)
Inner(a) ==
    LET au == a.inner_auth \cup {"ops"} IN
    CASE a.fn = "collect_fees" -> [name |-> "CollectFees", receiver |-> a.receiver, token |-> a.token, amt |-> a.amt, auth |-> au]
      [] a.fn = "refund"       -> [name |-> "Refund", receiver |-> a.receiver, token |-> a.token, amt |-> a.amt, auth |-> au]
      [] a.fn = "transfer_ownership" -> [name |-> "TransferOwnership", new |-> a.new, auth |-> au]

(* operators.execute(op, gas_service, fn, args) *)
OpExecute(sys, a) ==
    LET ofails == (IF a.op \notin a.auth THEN {"named_auth"} ELSE {})
                  \cup (IF ~O!IsOp(OpsOf(sys), a.op) THEN {"is_operator"} ELSE {})
        inner == G!Apply(GasOf(sys), Inner(a))
        \* the gas service's owner check is called role_auth there as in the operators contract: renamed so that the
        \* two layers stay apart
        ifails == {IF f = "role_auth" THEN "role_auth2" ELSE f : f \in inner.fails}
        fails == ofails \cup ifails
    IN IF fails # {} THEN Res(FALSE, First(Order, fails), fails, ofails = {} /\ inner.free, "none", <<>>, sys)
       ELSE Res(TRUE, "ok", {}, inner.free, "unit", inner.ev, WithGas(sys, inner.post))

Apply(sys, a) ==
    IF a.name \in GasActions
    THEN LET r == G!Apply(GasOf(sys), a) IN Res(r.ok, r.why, r.fails, r.free, r.ret, r.ev, WithGas(sys, r.post))
    ELSE IF a.name \in OpsActions
    THEN LET r == O!Apply(OpsOf(sys), a) IN Res(r.ok, r.why, r.fails, r.free, r.ret, r.ev, WithOps(sys, r.post))
    ELSE IF a.name = "OpsTransferOwnership"
    THEN LET r == O!Apply(OpsOf(sys), [a EXCEPT !.name = "TransferOwnership"]) IN
         Res(r.ok, r.why, r.fails, r.free, r.ret, r.ev, WithOps(sys, r.post))
    ELSE OpExecute(sys, a)

Obs(sys) == [bal |-> sys.bal, collector |-> sys.collector, owner |-> sys.owner,
             operators |-> [x \in OpAccts |-> sys.ops[x] = "yes"], opsOwner |-> sys.opsOwner, ops |-> sys.ops]

-----------------------------------------------------------------------------
(* what the composition promises *)

(* the service's holding of a token shrinks only in a step a current operator authorised through the operators
   contract (no external principal can stand in for the collector, and no former operator can) *)
PayOutsByOperatorsOnly(sys, a, r) ==
    \A t \in Tokens :
        r.post.bal[t]["gs"] < sys.bal[t]["gs"] =>
            /\ a.name = "OpExecute" /\ a.fn \in {"collect_fees", "refund"}
            /\ a.op \in a.auth /\ sys.ops[a.op] = "yes"

(* each layer keeps to its own record; a refused call changes nothing and says nothing *)
Layers(sys, a, r) ==
    /\ (a.name \in GasActions \cup {"OpExecute"} => OpsOf(r.post) = OpsOf(sys))
    /\ (a.name \in OpsActions \cup {"OpsTransferOwnership"} => GasOf(r.post) = GasOf(sys))
    /\ (~r.ok => r.post = sys /\ r.ev = <<>>)
    /\ r.post.collector = "ops"

(* refinement: the gas service's part of every step is a step of GasService.tla under its own step rules (the
   collector's authorisation being "the operators contract called"), and a forwarded call is a step of
   Operators.tla's execute with a target that answers / fails *)
GasRefines(sys, a, r) ==
    LET ga == IF a.name = "OpExecute" THEN Inner(a) ELSE a IN
    a.name \in GasActions \cup {"OpExecute"} =>
        LET gr == G!Apply(GasOf(sys), ga) IN
        /\ IF ga.name = "TransferOwnership" THEN gr.post.bal = sys.bal ELSE G!StepRules(GasOf(sys), ga, gr)
        /\ (r.ok => gr.ok /\ GasOf(r.post) = gr.post /\ r.ev = gr.ev)
        /\ G!NonNegative(GasOf(r.post))
OpsRefines(sys, a, r) ==
    a.name = "OpExecute" =>
        LET inner == G!Apply(GasOf(sys), Inner(a))
            oa == [name |-> "Execute", op |-> a.op, target |-> "gs", fn |-> IF inner.ok THEN "echo" ELSE "boom",
                   arg |-> "unit", auth |-> a.auth]
        IN r.ok = O!Apply(OpsOf(sys), oa).ok
=============================================================================
