----------------------------- MODULE AuthShapes -----------------------------
(* Shapes of authorisation entries that do NOT authorise a call although they name   *)
(* its entry point: the entry keeps only some of the arguments, in order (what        *)
(* `require_auth_for_args` with a subset of the arguments would be satisfied by).      *)
(* ProperKeeps(n) = all strictly increasing index sequences over 0..n-1 except the     *)
(* full one (so <<>> is the entry that carries no argument at all).                    *)
EXTENDS Naturals, Sequences
ProperKeeps(n) ==
    UNION {{s \in [1..k -> 0..(n - 1)] : \A i \in 1..(k - 1) : s[i] < s[i + 1]} : k \in 0..(n - 1)}
=============================================================================
