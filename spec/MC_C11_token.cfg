CONSTANTS
  Accts = {"its0", "alice", "bob", "carol"}
  Cap = 0
  MaxLive = 6311999
INIT Init
NEXT Next
CHECK_DEADLOCK FALSE
INVARIANTS
  C11_StepRules
  C11_OwnerIsService
  C11_ServiceMintsIffMinter
  Dump
