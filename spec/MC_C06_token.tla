---------------------------- MODULE MC_C06_token ----------------------------
(* C06 on the interchain token: minter changes, owner minting and ownership        *)
(* transfer need the current owner; every principal as sole authoriser, over role     *)
(* transfer histories (the former owner keeps nothing).                               *)
EXTENDS Token, Json, SequencesExt, AuthShapes
VARIABLE st
Auths == {{p} : p \in Accts} \cup {{}}
Acts(s) ==
    {[name |-> n, minter |-> m, auth |-> au] : n \in {"AddMinter", "RemoveMinter"}, m \in {"bob", "its0"}, au \in Auths}
    \cup {[name |-> "Mint", to |-> "bob", amt |-> 1, auth |-> au] : au \in Auths}
    \cup {[name |-> "AddMinter", minter |-> "carol", auth |-> {s.owner}]}
    \cup {[name |-> "TransferOwnership", new |-> n, auth |-> au] : n \in {"its0", "carol", "bob"}, au \in Auths}
    \* the migration window of the Upgradable interface is open (hidden from this module): every role check must
    \* behave exactly as when it is closed
    \cup {[name |-> "HookOpenWindow"]}
    \* an entry that names the entry point but keeps only the arguments `keepArgs` (what require_auth_for_args with a subset of the
    \* arguments would ask for) is not an authorisation of this exact call
    \cup {[name |-> n, minter |-> "bob", auth |-> {}, scopedAuth |-> {s.owner}, keepArgs |-> <<>>] : n \in {"AddMinter", "RemoveMinter"}}
    \cup {[name |-> "TransferOwnership", new |-> "bob", auth |-> {}, scopedAuth |-> {s.owner}, keepArgs |-> <<>>]}
Within(s) == s.bal["bob"] <= 2
Init == st = Blank("its0", "its0", 1)
EnabledActs(s) == {a \in Acts(s) : Within(Apply(s, a).post)}
Next == \E a \in EnabledActs(st) : st' = Apply(st, a).post
Step(P(_, _, _)) == \A a \in EnabledActs(st) : a.name # "HookOpenWindow" => P(st, a, Apply(st, a))
OnlyHolder(s, a, r) == r.ok => s.owner \in a.auth
Successor(s, a, r) == r.post.owner = IF a.name = "TransferOwnership" /\ r.ok THEN a.new ELSE s.owner
Frame(s, a, r) == ~r.ok => r.post = s /\ r.ev = <<>>
C06_OnlyHolder == Step(OnlyHolder)
C06_Successor == Step(Successor)
C06_Frame == Step(Frame)
Inst == [module |-> "Token", Accts |-> Accts, Cap |-> Cap, MaxLive |-> MaxLive, scale |-> [Q |-> "1"]]
ASSUME PrintT(<<"INST", ToJson(Inst)>>)
Obs(s) == [bal |-> s.bal, allowance |-> EffMap(s), minters |-> s.minters, owner |-> s.owner, seq |-> s.seq, allow |-> s.allow]
Dump ==
    LET acts == SetToSeq(EnabledActs(st)) IN
    PrintT(<<"NODE", ToJson([pre |-> Obs(st),
        edges |-> [i \in 1..Len(acts) |->
            LET r == Apply(st, acts[i]) IN
            [act |-> acts[i],
             exp |-> [ok |-> r.ok, why |-> r.why, fails |-> r.fails, free |-> r.free, ret |-> r.ret, ev |-> r.ev],
             post |-> IF r.post = st THEN "same" ELSE Obs(r.post)]]])>>)
=============================================================================
