------------------------------- MODULE Upgrade -------------------------------
(***************************************************************************)
(* Upgradable / Migratable (packages/axelar-soroban-std, derive macro) and  *)
(* contracts/upgrader.  One target contract: st = [code, migrating, owner,  *)
(* data].  `code` is what currently runs at the target's address:           *)
(*   "native"  the contract built from /repo's source (production contracts  *)
(*             derive Upgradable; the repository's dummy target does not)    *)
(*   "Ftriv"   packages/.../testdata/contract_trivial_migration.wasm         *)
(*   "Fdummy"  contracts/upgrader/tests/testdata/dummy.wasm                  *)
(*   "Fnover"  harness fixture: code with a `migrate(x)` (any one argument,   *)
(*             nobody's authorisation) and NO `version` entry point; only     *)
(*             ever offered as the destination of an Upgrader call, which     *)
(*             must fail because the final version query cannot succeed       *)
(* (no wasm32 target offline: upgrade destinations are the pinned fixtures). *)
(* The behaviour of upgrade/migrate depends on the running code, which is   *)
(* what the tables below say.  `migrating` is not observable through the    *)
(* API; it is decided by the accept/reject outcome of later migrations.     *)
(***************************************************************************)
EXTENDS Naturals, Sequences, FiniteSets, TLC

CONSTANTS Target     \* "gateway" | "gas" | "operators" | "its" | "token" | "dummy"

Rej(st, why, fails) ==
    [ok |-> FALSE, why |-> why, fails |-> fails, free |-> FALSE, ret |-> "none", ev |-> <<>>, post |-> st]
Acc(st2, ret, ev) ==
    [ok |-> TRUE, why |-> "ok", fails |-> {}, free |-> FALSE, ret |-> ret, ev |-> ev, post |-> st2]
First(order, fails) ==
    LET i == CHOOSE j \in 1..Len(order) : order[j] \in fails /\ \A k \in 1..(j-1) : order[k] \notin fails
    IN order[i]
Order == <<"version_differs", "no_migrate", "migrate_typed", "role_auth", "upgrade_auth", "migrate_auth",
           "window", "version_matches_after">>

Derived(code) == (code = "native" /\ Target # "dummy") \/ code = "Ftriv"   \* std upgrade/migrate protocol
VersionOf(code) == IF code = "Fdummy" THEN "0.2.0" ELSE IF code = "Fnover" THEN "none" ELSE "0.1.0"
HasMigrate(code) == ~(code = "native" /\ Target = "dummy")
DataType(code) == IF code = "Fdummy" THEN "str" ELSE "unit"
DataOK(code, data) == IF code = "Fnover" THEN data \in {"unit", "str"} ELSE data = DataType(code)
DataAfter(code, old) == IF code = "Ftriv" THEN "migrated" ELSE IF code = "Fdummy" THEN "str" ELSE old

(* upgrade(new_wasm_hash) *)
UpgradeCore(st, new, auth) ==
    [st EXCEPT !.code = new, !.migrating = IF Derived(st.code) THEN TRUE ELSE @]
Upgrade(st, a) ==
    IF st.owner \notin a.auth THEN Rej(st, "role_auth", {"role_auth"})
    ELSE Acc(UpgradeCore(st, a.new, a.auth), "unit", <<>>)

(* migrate(migration_data) *)
MigrateFails(st, data, auth, guard) ==
    (IF ~HasMigrate(st.code) THEN {"no_migrate"} ELSE {})
    \cup (IF HasMigrate(st.code) /\ ~DataOK(st.code, data) THEN {"migrate_typed"} ELSE {})
    \cup (IF st.code # "Fnover" /\ st.owner \notin auth THEN {guard} ELSE {})
    \cup (IF Derived(st.code) /\ ~st.migrating THEN {"window"} ELSE {})
MigrateCore(st) ==
    [st EXCEPT !.data = DataAfter(st.code, @), !.migrating = IF Derived(st.code) THEN FALSE ELSE @]
MigrateEv(st) == IF Derived(st.code) THEN <<[k |-> "upgraded", version |-> VersionOf(st.code)]>> ELSE <<>>
Migrate(st, a) ==
    LET fails == MigrateFails(st, a.data, a.auth, "role_auth") IN
    IF fails # {} THEN Rej(st, First(Order, fails), fails)
    ELSE Acc(MigrateCore(st), "unit", MigrateEv(st))

(* verification hook (harness only, never a contract entry point): open the window without swapping code *)
HookOpenWindow(st, a) == Acc([st EXCEPT !.migrating = TRUE], "unit", <<>>)

TransferOwnership(st, a) ==
    IF st.owner \notin a.auth THEN Rej(st, "role_auth", {"role_auth"})
    ELSE Acc([st EXCEPT !.owner = a.new], "unit",
             <<[k |-> "ownership_transferred", prev |-> st.owner, new |-> a.new]>>)

(* Upgrader.upgrade(target, new_version, new_wasm_hash, migration_data): one atomic transaction *)
UpgraderUpgrade(st, a) ==
    LET mid == UpgradeCore(st, a.new, a.authUp)
        fails == (IF VersionOf(st.code) = a.version THEN {"version_differs"} ELSE {})
                 \cup (IF st.owner \notin a.authUp THEN {"upgrade_auth"} ELSE {})
                 \cup MigrateFails(mid, a.data, a.authMig, "migrate_auth")
                 \cup (IF VersionOf(a.new) # a.version THEN {"version_matches_after"} ELSE {})
    IN IF fails # {} THEN Rej(st, First(Order, fails), fails)
       ELSE Acc(MigrateCore(mid), "unit", MigrateEv(mid))

Apply(st, a) ==
    CASE a.name = "Upgrade"           -> Upgrade(st, a)
      [] a.name = "Migrate"           -> Migrate(st, a)
      [] a.name = "HookOpenWindow"    -> HookOpenWindow(st, a)
      [] a.name = "TransferOwnership" -> TransferOwnership(st, a)
      [] a.name = "UpgraderUpgrade"   -> UpgraderUpgrade(st, a)

Obs(st) == [version |-> VersionOf(st.code), data |-> st.data, owner |-> st.owner,
            code |-> st.code, migrating |-> st.migrating,
            \* the holder of the target's other role (gateway operator, gas collector; "someone" in the binding), visible
            \* while the native code runs: neither upgrade nor migration touches it
            aux |-> IF st.code = "native" /\ Target \in {"gateway", "gas"} THEN "someone" ELSE "n/a"]
=============================================================================
