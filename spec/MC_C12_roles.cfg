CONSTANTS
  Accts = {"alice", "bob", "carol", "its0"}
  Cap = 0
  MaxLive = 6311999
  QScale = "1"
  MaxSupply = 2
  MaxSeq = 3
  Mode = "roles"
INIT Init
NEXT Next
CHECK_DEADLOCK FALSE
INVARIANTS
  C12_StepRules
  C12_NonNegative
  C12_Expiry
  C12_OnlyMinters
  C12_AdminEvent
  Dump
