------------------------------- MODULE MC_Fees -------------------------------
(* The operators contract as the gas service's collector (C14 + C17 composed).   *)
(* Instance: one payer (2 units of each of two tokens), two candidate operators   *)
(* (every membership history never / member / former / re-added), pay-outs of     *)
(* -1 .. 3 units forwarded by a member / a former member / a never-member, with    *)
(* and without the operator's authorisation, with the authorisation given for the   *)
(* inner call only; direct pay-out attempts by operators, both owners and nobody;   *)
(* a forwarded change of the gas service's owner with and without that owner's own   *)
(* authorisation; every interleaving (finite: 2 units per token).                    *)
EXTENDS Fees, Json, SequencesExt
VARIABLE st

OpsSet == {"op1", "op2"}
Pay(n, t, x) == [name |-> n, sender |-> "app", spender |-> "alice", token |-> t, amt |-> x, auth |-> {"alice"}]
Fwd(o, f, t, x, au, iau) ==
    [name |-> "OpExecute", op |-> o, fn |-> f, receiver |-> "carol", token |-> t, amt |-> x, auth |-> au, inner_auth |-> iau]
Acts(s) ==
    {Pay(n, t, x) : n \in {"PayGas", "AddGas"}, t \in Tokens, x \in {1, 2}}
    \cup {[name |-> n, acct |-> x, auth |-> au] : n \in {"AddOperator", "RemoveOperator"}, x \in OpsSet,
            au \in {{s.opsOwner}, {s.owner}, {}}}
    \* forwarded pay-outs
    \cup {Fwd(o, f, t, x, {o}, {}) : o \in OpsSet, f \in {"collect_fees", "refund"}, t \in Tokens, x \in -1..3}
    \cup UNION {{Fwd(o, f, t, 1, au, {}) : f \in {"collect_fees", "refund"}, t \in Tokens,
                    au \in {{}, OpsSet \ {o}, {s.opsOwner}, {s.owner}}} : o \in OpsSet}
    \* the operator signed the gas service's entry point, not the forwarding call
    \cup {Fwd(o, f, t, 1, {}, {o}) : o \in OpsSet, f \in {"collect_fees", "refund"}, t \in Tokens}
    \* direct attempts: nobody outside can stand in for the collector
    \cup {[name |-> n, receiver |-> "carol", token |-> t, amt |-> 1, auth |-> au] :
            n \in {"CollectFees", "Refund"}, t \in Tokens, au \in {{"op1"}, {s.opsOwner}, {s.owner}, {}}}
    \* a forwarded change of the gas service's owner: being the collector gives no say in ownership
    \cup {[name |-> "OpExecute", op |-> o, fn |-> "transfer_ownership", new |-> "carol", auth |-> {o}, inner_auth |-> iau] :
            o \in OpsSet, iau \in {{}, {s.owner}}}
    \cup {[name |-> "OpsTransferOwnership", new |-> n, auth |-> {s.opsOwner}] : n \in {"oowner", "carol"}}

InitState ==
    [bal |-> [t \in Tokens |-> [x \in Accts |-> IF x = "alice" THEN 2 ELSE 0]],
     collector |-> "ops", owner |-> "owner0", ops |-> [x \in OpAccts |-> "never"], opsOwner |-> "oowner"]
Init == st = InitState
Next == \E a \in Acts(st) : st' = Apply(st, a).post

Step(P(_, _, _)) == \A a \in Acts(st) : P(st, a, Apply(st, a))
Fees_PayOuts == Step(PayOutsByOperatorsOnly)
Fees_Layers == Step(Layers)
Fees_GasRefines == Step(GasRefines)
Fees_OpsRefines == Step(OpsRefines)

Inst == [module |-> "Fees", Tokens |-> Tokens, Accts |-> Accts, OpAccts |-> OpAccts]
ASSUME PrintT(<<"INST", ToJson(Inst)>>)
Dump ==
    LET acts == SetToSeq(Acts(st)) IN
    PrintT(<<"NODE", ToJson([pre |-> Obs(st),
        edges |-> [i \in 1..Len(acts) |->
            LET r == Apply(st, acts[i]) IN
            [act |-> acts[i],
             exp |-> [ok |-> r.ok, why |-> r.why, fails |-> r.fails, free |-> r.free, ret |-> r.ret, ev |-> r.ev],
             post |-> IF r.post = st THEN "same" ELSE Obs(r.post)]]])>>)
=============================================================================
