---------------------------- MODULE MC_C11_token ----------------------------
(* C11, token side: the calls the service makes on a token it has just deployed, and  *)
(* later on its behalf, run against the interchain token built from the repository's     *)
(* SOURCE (the tokens the service deploys in the other instances run the pinned wasm, so  *)
(* a change to contracts/interchain-token would not be seen there).  The protocol is the  *)
(* one ITS.tla's TokBirth / TokCalls describe: constructed with the service as owner and   *)
(* minter and 0 decimals (the boundary of the metadata), initial supply minted by the      *)
(* owner, hand-over remove_minter(service) / add_minter(m) for m a third party, the        *)
(* deployer or the service itself, then mint_from(service) for inbound transfers,           *)
(* mint_from(m), burns.  The token must keep reporting the id and metadata it was built     *)
(* with, the service's minting right must be what Token.tla says after every history.       *)
EXTENDS Token, Json, SequencesExt
VARIABLE st
Acts(s) ==
    {[name |-> "Mint", to |-> "alice", amt |-> 5, auth |-> {"its0"}],
     [name |-> "RemoveMinter", minter |-> "its0", auth |-> {"its0"}],
     [name |-> "MintFrom", minter |-> "its0", to |-> "bob", amt |-> 1, auth |-> {"its0"}],
     [name |-> "Burn", from |-> "alice", amt |-> 1, auth |-> {"alice"}]}
    \cup {[name |-> "AddMinter", minter |-> m, auth |-> {"its0"}] : m \in {"carol", "its0", "alice"}}
    \cup {[name |-> "RemoveMinter", minter |-> m, auth |-> {"its0"}] : m \in {"carol"}}
    \cup {[name |-> "MintFrom", minter |-> m, to |-> "bob", amt |-> 1, auth |-> {m}] : m \in {"carol", "alice"}}
Within(s) == Supply(s) <= 6 /\ s.bal["bob"] <= 1
Init == st = Blank("its0", "its0", 1)
EnabledActs(s) == {a \in Acts(s) : Within(Apply(s, a).post)}
Next == \E a \in EnabledActs(st) : st' = Apply(st, a).post
C11_StepRules == \A a \in EnabledActs(st) : StepRules(st, a, Apply(st, a))
C11_OwnerIsService == st.owner = "its0"
(* the service can mint exactly when Token.tla says it is a minter: re-adding it after the hand-over gives the right back *)
C11_ServiceMintsIffMinter == \A a \in EnabledActs(st) :
    (a.name = "MintFrom" /\ a.minter = "its0") => (Apply(st, a).ok <=> st.minters["its0"])
Inst == [module |-> "Token", Accts |-> Accts, Cap |-> Cap, MaxLive |-> MaxLive, scale |-> [Q |-> "1"], Decimals |-> 0]
ASSUME PrintT(<<"INST", ToJson(Inst)>>)
Obs(s) == [bal |-> s.bal, allowance |-> EffMap(s), minters |-> s.minters, owner |-> s.owner, seq |-> s.seq, allow |-> s.allow,
           \* the token reports the id, name, symbol and decimals it was constructed with
           meta |-> "ok"]
Dump ==
    LET acts == SetToSeq(EnabledActs(st)) IN
    PrintT(<<"NODE", ToJson([pre |-> Obs(st),
        edges |-> [i \in 1..Len(acts) |->
            LET r == Apply(st, acts[i]) IN
            [act |-> acts[i],
             exp |-> [ok |-> r.ok, why |-> r.why, fails |-> r.fails, free |-> r.free, ret |-> r.ret, ev |-> r.ev],
             post |-> IF r.post = st THEN "same" ELSE Obs(r.post)]]])>>)
=============================================================================
