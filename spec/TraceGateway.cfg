CONSTANTS
  Sets <- TSets
  Keys <- TKeys
  Msgs <- TMsgs
  Cap <- TCap
  Retention <- TRetention
  MinDelay <- TMinDelay
INIT Init
NEXT Next
CHECK_DEADLOCK FALSE
POSTCONDITION Accepted
