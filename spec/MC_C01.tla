------------------------------- MODULE MC_C01 -------------------------------
(* C01: approvals (and standalone proof checks) need valid Ed25519 signatures,  *)
(* over a digest binding domain, signer set, command and batch, from members of  *)
(* a registered and retained set whose combined weight reaches the threshold;    *)
(* every honest sufficient subset is accepted; rejections change nothing.        *)
(* Instance: four live sets (1..3 signers; weights on the u128 lattice with       *)
(* exact-threshold and total = u128::MAX cases); EVERY vector over the 8          *)
(* signature tags for every installed set (all signing subsets, every corruption  *)
(* before/after the threshold is reached); ten single tamperings of the declared  *)
(* set; histories of 0..3 rotations with retention 1 (claimed sets latest /        *)
(* retained / expired / never installed); both entry points.                      *)
EXTENDS Gateway, Json
CONSTANTS QScale, Deep
VARIABLE st

MC_Sets ==
  [A1 |-> [keys |-> <<1>>,       weights |-> <<Cap>>,        threshold |-> Cap, nonce |-> 1],
   A2 |-> [keys |-> <<1, 2>>,    weights |-> <<1, Cap - 1>>, threshold |-> Cap, nonce |-> 2],
   A3 |-> [keys |-> <<1, 2, 3>>, weights |-> <<1, 2, 1>>,    threshold |-> 3,   nonce |-> 3],
   A4 |-> [keys |-> <<2, 3, 4>>, weights |-> <<2, 1, 2>>,    threshold |-> 2,   nonce |-> 4],
   A5 |-> [keys |-> <<1, 2, 3, 4>>, weights |-> <<1, 2, 3, 4>>, threshold |-> 6, nonce |-> 5],
   \* single tamperings of A3, never installed
   Tdrop   |-> [keys |-> <<1, 2>>,       weights |-> <<1, 2>>,       threshold |-> 3, nonce |-> 3],
   Tadd    |-> [keys |-> <<1, 2, 3, 4>>, weights |-> <<1, 2, 1, 1>>, threshold |-> 3, nonce |-> 3],
   Tdup    |-> [keys |-> <<1, 2, 2>>,    weights |-> <<1, 2, 2>>,    threshold |-> 3, nonce |-> 3],
   \* A3 with its heaviest member listed twice: if repeated entries are merged when the set is hashed but counted
   \* one by one when weights are added, that member alone (weight 2 of 3) would pass
   Tdup2   |-> [keys |-> <<1, 2, 2, 3>>, weights |-> <<1, 2, 2, 1>>, threshold |-> 3, nonce |-> 3],
   Tswap   |-> [keys |-> <<2, 1, 3>>,    weights |-> <<2, 1, 1>>,    threshold |-> 3, nonce |-> 3],
   Twplus  |-> [keys |-> <<1, 2, 3>>,    weights |-> <<1, 3, 1>>,    threshold |-> 3, nonce |-> 3],
   Twminus |-> [keys |-> <<1, 2, 3>>,    weights |-> <<1, 1, 1>>,    threshold |-> 3, nonce |-> 3],
   Ttminus |-> [keys |-> <<1, 2, 3>>,    weights |-> <<1, 2, 1>>,    threshold |-> 2, nonce |-> 3],
   Ttplus  |-> [keys |-> <<1, 2, 3>>,    weights |-> <<1, 2, 1>>,    threshold |-> 4, nonce |-> 3],
   Tnonce  |-> [keys |-> <<1, 2, 3>>,    weights |-> <<1, 2, 1>>,    threshold |-> 3, nonce |-> 33]]
MC_Keys == [k1 |-> [chain |-> "c", id |-> "1"], k2 |-> [chain |-> "c", id |-> "2"]]
MC_Msgs == [m1 |-> [key |-> "k1", src |-> "sA", dest |-> "app1", ph |-> "p1"],
            m2 |-> [key |-> "k2", src |-> "sA", dest |-> "app1", ph |-> "p2"]]

Order == IF Deep THEN <<"A1", "A2", "A3", "A4", "A5">> ELSE <<"A1", "A2", "A3", "A4">>
Live == {Order[i] : i \in 1..Len(Order)}
Full(s) == [set |-> s, sigs |-> [i \in 1..Len(Sets[s].keys) |-> "Valid"]]
Tagged(s, t) == [set |-> s, sigs |-> [i \in 1..Len(Sets[s].keys) |-> t]]
Vectors(s) == [1..Len(Sets[s].keys) -> SigTags]

ProofSet(s) ==
    UNION {{[set |-> x, sigs |-> v] : v \in Vectors(x)} : x \in {y \in Live : s.epochOf[y] # 0}}
    \cup {Full(x) : x \in SetNames} \cup {Tagged(x, "WrongSet") : x \in SetNames \ Live}
    \* every tampered list carrying the genuine signatures its members made for A3
    \cup {[set |-> x, sigs |-> Full(x).sigs, signedFor |-> "A3"] : x \in SetNames \ Live}
    \* genuine signatures of A3's members (made for A3's digest) arranged in the repeated list, and made for the list itself
    \cup {[set |-> "Tdup2", sigs |-> sg, signedFor |-> f] :
            sg \in {<<"Unsigned", "Valid", "Valid", "Unsigned">>, <<"Valid", "Valid", "Valid", "Unsigned">>}, f \in {"A3", "Tdup2"}}

Acts(s) ==
    {[name |-> "ApproveMessages", msgs |-> <<"m1">>, proof |-> p, auth |-> {}] : p \in ProofSet(s)}
    \cup {[name |-> "ValidateProof", data |-> [kind |-> "approve", msgs |-> <<"m1">>], proof |-> p, auth |-> {}] :
            p \in ProofSet(s)}
    \cup {[name |-> "ApproveMessages", msgs |-> b, proof |-> Full(s.hashByEpoch[s.epoch]), auth |-> {}] :
            b \in {<<"m1", "m2">>, <<>>}}
    \cup (IF s.epoch < Len(Order)
          THEN {[name |-> "RotateSigners", new |-> Order[s.epoch + 1], proof |-> Full(s.hashByEpoch[s.epoch]),
                 bypass |-> FALSE, auth |-> {}]}
          ELSE {})

InitState == [Install(Blank("owner0", "op0", 0), "A1") EXCEPT !.deployed = TRUE]
Init == st = InitState
Next == \E a \in Acts(st) : st' = Apply(st, a).post

-----------------------------------------------------------------------------
Step(P(_, _, _)) == \A a \in Acts(st) : P(st, a, Apply(st, a))
UsesProof(a) == a.name \in {"ApproveMessages", "ValidateProof"}
Retained(s, x) == s.epochOf[x] # 0 /\ s.epoch - s.epochOf[x] <= Retention

Sound(s, a, r) ==
    (UsesProof(a) /\ r.ok) =>
        /\ Retained(s, a.proof.set)
        /\ ValidWeight(Sets[a.proof.set], a.proof.sigs) >= Sets[a.proof.set].threshold
CompleteVP(s, a, r) ==
    (a.name = "ValidateProof" /\ ~HasCorrupt(a.proof.sigs) /\ Retained(s, a.proof.set)
        /\ ValidWeight(Sets[a.proof.set], a.proof.sigs) >= Sets[a.proof.set].threshold) => r.ok
CompleteAM(s, a, r) ==
    (a.name = "ApproveMessages" /\ a.msgs # <<>> /\ ~HasCorrupt(a.proof.sigs) /\ Retained(s, a.proof.set)
        /\ ValidWeight(Sets[a.proof.set], a.proof.sigs) >= Sets[a.proof.set].threshold) => r.ok
OpenOnlyWhenSufficient(s, a, r) ==
    (UsesProof(a) /\ r.free /\ a.name = "ValidateProof") =>
        ValidWeight(Sets[a.proof.set], a.proof.sigs) >= Sets[a.proof.set].threshold /\ HasCorrupt(a.proof.sigs)
Frame(s, a, r) == ~r.ok => r.post = s /\ r.ev = <<>>

C01_Sound == Step(Sound)
C01_CompleteVP == Step(CompleteVP)
C01_CompleteAM == Step(CompleteAM)
C01_OpenOnlyWhenSufficient == Step(OpenOnlyWhenSufficient)
C01_Frame == Step(Frame)
Types == TypeOK(st) /\ LookupsInverse(st) /\ InstalledWellFormed(st)

-----------------------------------------------------------------------------
Inst == [module |-> "Gateway", Sets |-> Sets, Keys |-> Keys, Msgs |-> Msgs, Cap |-> Cap,
         Retention |-> Retention, MinDelay |-> MinDelay, Probes |-> <<>>,
         scale |-> [Q |-> QScale, Qt |-> "1", t0 |-> 1000000]]
ASSUME PrintT(<<"INST", ToJson(Inst)>>)
Dump == \A a \in Acts(st) :
    LET r == Apply(st, a) IN
    PrintT(<<"EDGE", ToJson([pre |-> st, act |-> a,
                             exp |-> [ok |-> r.ok, why |-> r.why, fails |-> r.fails, free |-> r.free,
                                      ret |-> r.ret, ev |-> r.ev],
                             post |-> r.post])>>)
=============================================================================
