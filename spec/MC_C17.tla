------------------------------- MODULE MC_C17 -------------------------------
(* C17: only current operators act via the operators contract; calls forward    *)
(* intact.  Instance: three addresses (every membership history: never / member   *)
(* / former / re-added), ownership transfer, callers x authorisers, two probe     *)
(* targets, return values u32 / string / vector / unit, and a target that traps.  *)
EXTENDS Operators, Json, SequencesExt, AuthShapes
VARIABLE st

Ops == {"a", "b", "c"}   \* three, so that every removal order of a set with an element before and after it occurs
Acts(s) ==
    {[name |-> n, acct |-> x, auth |-> au] : n \in {"AddOperator", "RemoveOperator"}, x \in Ops,
        au \in {{s.owner}, {"a"}, {}}}
    \cup UNION {{[name |-> "Execute", op |-> o, target |-> t, fn |-> f, arg |-> g, auth |-> au] :
            t \in {"p1", "p2"}, f \in {"echo", "boom"}, g \in {"u32", "str", "vec", "unit"},
            au \in {{o}, {s.owner}, {}}} : o \in Ops}
    \* a target that fails with a contract error instead of trapping (code 2 is also one of the operators contract's
    \* own error codes, code 7 is not)
    \cup UNION {{[name |-> "Execute", op |-> o, target |-> "p1", fn |-> f, arg |-> "unit", auth |-> au] :
            f \in {"fail2", "fail7"}, au \in {{o}, {}}} : o \in Ops}
    \* the operator's authorisation entry carries only the forwarded argument list (not the target or the
    \* function): that is not an authorisation of THIS call
    \cup {[name |-> "Execute", op |-> o, target |-> t, fn |-> "echo", arg |-> g, auth |-> {}, scoped |-> {o}] :
            o \in Ops, t \in {"p1", "p2"}, g \in {"u32", "unit"}}
    \* ... or omits one of operator / contract / function / argument list
    \cup {[name |-> "Execute", op |-> o, target |-> "p1", fn |-> "echo", arg |-> "u32", auth |-> {}, scopedAuth |-> {o}, keepArgs |-> ks] :
            o \in Ops, ks \in ProperKeeps(4)}
    \* a target function that takes NO argument (an implementation that forwards with an empty argument list is
    \* indistinguishable from "refuses everything" unless some accepted call has none)
    \cup UNION {{[name |-> "Execute", op |-> o, target |-> t, fn |-> "ping", arg |-> "unit", auth |-> au] :
            t \in {"p1", "p2"}, au \in {{o}, {}}} : o \in Ops}
    \cup {[name |-> "TransferOwnership", new |-> n, auth |-> {s.owner}] : n \in {"owner0", "carol"}}

Init == st = [ops |-> [x \in Accts |-> "never"], owner |-> "owner0"]
Next == \E a \in Acts(st) : st' = Apply(st, a).post

Step(P(_, _, _)) == \A a \in Acts(st) : P(st, a, Apply(st, a))
Member(s, a, r) == (a.name = "Execute" /\ r.ok) => IsOp(s, a.op) /\ a.op \in a.auth
SetChange(s, a, r) ==
    r.post.ops # s.ops =>
        /\ s.owner \in a.auth
        /\ \/ (a.name = "AddOperator" /\ ~IsOp(s, a.acct) /\ r.post.ops = [s.ops EXCEPT ![a.acct] = "yes"])
           \/ (a.name = "RemoveOperator" /\ IsOp(s, a.acct) /\ r.post.ops = [s.ops EXCEPT ![a.acct] = "former"])
Forward(s, a, r) ==
    a.name = "Execute" =>
        IF r.ok THEN /\ r.ev = <<[k |-> "probe_call", target |-> a.target, fn |-> a.fn, arg |-> a.arg]>>
                     /\ r.ret = a.arg /\ r.post = s
        ELSE r.ev = <<>> /\ r.post = s
Frame(s, a, r) == ~r.ok => r.post = s /\ r.ev = <<>>

C17_Member == Step(Member)
C17_SetChange == Step(SetChange)
C17_Forward == Step(Forward)
C17_Frame == Step(Frame)

Inst == [module |-> "Operators", Accts |-> Accts, Probes |-> <<"p1", "p2">>]
ASSUME PrintT(<<"INST", ToJson(Inst)>>)
Dump ==
    LET acts == SetToSeq(Acts(st)) IN
    PrintT(<<"NODE", ToJson([pre |-> Obs(st),
        edges |-> [i \in 1..Len(acts) |->
            LET r == Apply(st, acts[i]) IN
            [act |-> acts[i],
             exp |-> [ok |-> r.ok, why |-> r.why, fails |-> r.fails, free |-> r.free, ret |-> r.ret, ev |-> r.ev],
             post |-> IF r.post = st THEN "same" ELSE Obs(r.post)]]])>>)
=============================================================================
