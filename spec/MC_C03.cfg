CONSTANTS
  Sets <- MC_Sets
  Keys <- MC_Keys
  Msgs <- MC_Msgs
  Cap = 15
  Retention = 1
  MinDelay = 0
INIT Init
NEXT Next
CHECK_DEADLOCK FALSE
INVARIANTS
  Types
  C03_Advance
  C03_OnlyIf
  C03_ConstructOnlyIf
  C03_Frame
  C03_Inverse
  C03_InstalledWellFormed
  Dump
