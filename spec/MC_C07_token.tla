---------------------------- MODULE MC_C07_token ----------------------------
(* C07 on the token: approve / transfer / transfer_from / burn / burn_from /        *)
(* mint_from succeed only with the authorisation of the address they debit or act   *)
(* for; the recipient, the counterparty, the owner, a stranger or nobody cannot;      *)
(* in states with and without an allowance.                                           *)
EXTENDS Token, Json, SequencesExt, AuthShapes
VARIABLE st
Auths == {{p} : p \in Accts \ {"token"}} \cup {{}}
Acts(s) ==
    {[name |-> "HookOpenWindow"],
     [name |-> "Mint", to |-> "alice", amt |-> 2, auth |-> {s.owner}],
     [name |-> "AddMinter", minter |-> "bob", auth |-> {s.owner}]}
    \cup {[name |-> "Approve", from |-> "alice", spender |-> "bob", amt |-> 1, exp |-> s.seq + 5, auth |-> au] : au \in Auths}
    \cup {[name |-> "Transfer", from |-> "alice", to |-> "bob", amt |-> 1, auth |-> au] : au \in Auths}
    \cup {[name |-> "TransferFrom", spender |-> "bob", from |-> "alice", to |-> "carol", amt |-> 1, auth |-> au] : au \in Auths}
    \cup {[name |-> "Burn", from |-> "alice", amt |-> 1, auth |-> au] : au \in Auths}
    \cup {[name |-> "BurnFrom", spender |-> "bob", from |-> "alice", amt |-> 1, auth |-> au] : au \in Auths}
    \cup {[name |-> "MintFrom", minter |-> "bob", to |-> "carol", amt |-> 1, auth |-> au] : au \in Auths}
    \* the owner named as minter through the public mint_from
    \cup {[name |-> "MintFrom", minter |-> s.owner, to |-> "carol", amt |-> 1, auth |-> au] : au \in Auths}
    \* the declared administrator claw-back: debits an account without its authorisation, so it must not succeed
    \cup {[name |-> "Clawback", from |-> "alice", amt |-> m, auth |-> au] : m \in {0, 1}, au \in {{}, {s.owner}, {"bob"}}}
    \* an entry that names the entry point but keeps only the arguments `keepArgs` (what require_auth_for_args with a subset of the
    \* arguments would ask for) is not an authorisation of this exact call
    \cup {[name |-> "Transfer", from |-> "alice", to |-> "bob", amt |-> 1, auth |-> {}, scopedAuth |-> {"alice"}, keepArgs |-> ks] : ks \in ProperKeeps(3)}
    \cup {[name |-> "Approve", from |-> "alice", spender |-> "bob", amt |-> 1, exp |-> s.seq + 5, auth |-> {}, scopedAuth |-> {"alice"}, keepArgs |-> ks] : ks \in ProperKeeps(4)}
    \cup {[name |-> "Burn", from |-> "alice", amt |-> 1, auth |-> {}, scopedAuth |-> {"alice"}, keepArgs |-> ks] : ks \in ProperKeeps(2)}
    \cup {[name |-> "TransferFrom", spender |-> "bob", from |-> "alice", to |-> "carol", amt |-> 1, auth |-> {}, scopedAuth |-> {"bob"}, keepArgs |-> ks] : ks \in ProperKeeps(4)}
    \cup {[name |-> "MintFrom", minter |-> "bob", to |-> "carol", amt |-> 1, auth |-> {}, scopedAuth |-> {"bob"}, keepArgs |-> ks] : ks \in ProperKeeps(3)}
    \* a negative amount turns a credit into a debit of the account that was to be credited - which authorised nothing
    \cup {[name |-> "MintFrom", minter |-> "bob", to |-> "alice", amt |-> -1, auth |-> {"bob"}],
          [name |-> "Mint", to |-> "alice", amt |-> -1, auth |-> {s.owner}],
          [name |-> "Transfer", from |-> "bob", to |-> "alice", amt |-> -1, auth |-> {"bob"}],
          [name |-> "TransferFrom", spender |-> "bob", from |-> "carol", to |-> "alice", amt |-> -1, auth |-> {"bob"}]}
    \* aliased parties: the spender is the debited account itself, or the recipient
    \cup {[name |-> "TransferFrom", spender |-> "alice", from |-> "alice", to |-> "bob", amt |-> m, auth |-> au] : m \in {0, 1}, au \in {{}, {"alice"}, {"bob"}}}
    \cup {[name |-> "BurnFrom", spender |-> "alice", from |-> "alice", amt |-> m, auth |-> au] : m \in {0, 1}, au \in {{}, {"alice"}}}
    \cup {[name |-> "TransferFrom", spender |-> "carol", from |-> "alice", to |-> "carol", amt |-> 0, auth |-> au] : au \in {{}, {"alice"}, {"carol"}}}
    \cup {[name |-> "Approve", from |-> "alice", spender |-> "alice", amt |-> 1, exp |-> s.seq + 5, auth |-> au] : au \in {{}, {"alice"}, {"bob"}}}
    \* the token contract's own address named as the debited party by an outside caller
    \cup {[name |-> "Transfer", from |-> "token", to |-> "bob", amt |-> 0, auth |-> au] : au \in {{}, {"mallory"}}}
    \cup {[name |-> "Approve", from |-> "token", spender |-> "bob", amt |-> 1, exp |-> s.seq + 5, auth |-> au] : au \in {{}, {"mallory"}}}
    \cup {[name |-> "Burn", from |-> "token", amt |-> 0, auth |-> {}]}
Within(s) == Supply(s) <= 3
(* `win`: the Upgradable interface's migration window is open (instance-level ghost, not observable; set by the
   verification hook).  Every action is explored with the window closed AND open. *)
WithWin(s, w) == [f \in DOMAIN s \cup {"win"} |-> IF f = "win" THEN w ELSE s[f]]
ApplyW(s, a) ==
    IF a.name = "HookOpenWindow"
    THEN [ok |-> TRUE, why |-> "ok", fails |-> {}, free |-> FALSE, ret |-> "unit", ev |-> <<>>, post |-> [s EXCEPT !.win = TRUE]]
    ELSE Apply(s, a)
Init == st = WithWin(Blank("its0", "its0", 1), FALSE)
EnabledActs(s) == {a \in Acts(s) : Within(ApplyW(s, a).post)}
Next == \E a \in EnabledActs(st) : st' = ApplyW(st, a).post
Step(P(_, _, _)) == \A a \in EnabledActs(st) : a.name # "HookOpenWindow" => P(st, a, ApplyW(st, a))
NamedOf(a) == CASE a.name \in {"Approve", "Transfer", "Burn", "Clawback"} -> a.from
                [] a.name \in {"TransferFrom", "BurnFrom"} -> a.spender
                [] a.name = "MintFrom" -> a.minter
                [] OTHER -> "nobody"
Spending(a) == a.name \in {"Clawback", "Approve", "Transfer", "Burn", "TransferFrom", "BurnFrom", "MintFrom"}
Named(s, a, r) == (Spending(a) /\ r.ok) => NamedOf(a) \in a.auth
Frame(s, a, r) == ~r.ok => r.post = s /\ r.ev = <<>>
C07_Named == Step(Named)
C07_Frame == Step(Frame)
Inst == [module |-> "Token", Accts |-> Accts, Cap |-> Cap, MaxLive |-> MaxLive, scale |-> [Q |-> "1"]]
ASSUME PrintT(<<"INST", ToJson(Inst)>>)
Obs(s) == [bal |-> s.bal, allowance |-> EffMap(s), minters |-> s.minters, owner |-> s.owner, seq |-> s.seq, allow |-> s.allow]
Dump ==
    LET acts == SetToSeq(EnabledActs(st)) IN
    PrintT(<<"NODE", ToJson([pre |-> Obs(st),
        edges |-> [i \in 1..Len(acts) |->
            LET r == ApplyW(st, acts[i]) IN
            [act |-> acts[i],
             exp |-> [ok |-> r.ok, why |-> r.why, fails |-> r.fails, free |-> r.free, ret |-> r.ret, ev |-> r.ev],
             post |-> IF r.post = st THEN "same" ELSE Obs(r.post)]]])>>)
=============================================================================
