CONSTANTS
  Chains <- MC_Chains
  Accts <- MC_Accts
  Ids <- MC_Ids
  IdOf <- MC_IdOf
  IdCOf <- MC_IdCOf
  Canon <- MC_Canon
  Metas <- MC_Metas
  Deliveries <- MC_Deliveries
  Payloads <- MC_Payloads
  Keys <- MC_Keys
  Deviations = {}
  Small = TRUE
INIT Init
NEXT Next
CHECK_DEADLOCK FALSE
INVARIANTS
  C04_AllSteps
  C04_NonNegative
  Compose
