CONSTANTS
  Tokens = {"sac"}
  Accts = {"carol", "bob", "gs"}
INIT Init
NEXT Next
CHECK_DEADLOCK FALSE
INVARIANTS
  C06_OnlyHolder
  C06_Successor
  C06_Frame
  Dump
