CONSTANTS
  Accts = {"alice", "bob", "carol", "its0"}
  Cap = 2
  MaxLive = 6311999
  QScale = "I2"
  MaxSupply = 3
  MaxSeq = 3
  Mode = "ledger"
INIT Init
NEXT Next
CHECK_DEADLOCK FALSE
INVARIANTS
  C12_StepRules
  C12_NonNegative
  C12_Expiry
  C12_OnlyMinters
  C12_AdminEvent
  Dump
