CONSTANTS
  Sets <- MC_Sets
  Keys <- MC_Keys
  Msgs <- MC_Msgs
  Cap = 1000
  Retention = 1
  MinDelay = 0
INIT Init
NEXT Next
CHECK_DEADLOCK FALSE
INVARIANTS
  C07_Named
  C07_Frame
  Dump
