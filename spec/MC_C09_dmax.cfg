CONSTANTS
  Sets <- MC_Sets
  Keys <- MC_Keys
  Msgs <- MC_Msgs
  Cap = 1000
  Retention = 1
  MinDelay = 2147483647
  QtScale = "1"
  T0 = 1000000
  MaxNow = 23
INIT Init
NEXT Next
CHECK_DEADLOCK FALSE
INVARIANTS
  Types
  C09_Limit
  C09_PlainComplete
  C09_Clock
  C09_BypassNeedsOperator
  C09_BypassIgnoresDelay
  C09_Frame
  Dump
