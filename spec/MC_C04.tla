------------------------------- MODULE MC_C04 -------------------------------
(* C04: the service mints, releases or deploys for a delivered payload only if the *)
(* gateway holds an unexecuted approval of exactly that payload for the service,     *)
(* the message comes from the hub chain and the hub address, is a receive-from-hub    *)
(* wrapper around a supported message, names a trusted origin chain and (transfers)   *)
(* a registered token; once; everything else is rejected without effect.              *)
(* Instance: one conforming delivery of each kind (transfer to a service-deployed      *)
(* token, to a canonical token, with data, remote deploy with and without minter) and   *)
(* EVERY single deviation the statement lists, over trusted-chain histories.            *)
(* Approval-table deviations use tracked message ids; payload / chain / address          *)
(* deviations are fed under fresh ids (approved for the service, then executed).         *)
EXTENDS ITSMC
CONSTANT Small     \* TRUE: the reduced instance of the quick tier
VARIABLE st

MC_Chains == {"ethereum", "avalanche"}
MC_Accts == {"alice", "bob", "carol", "its", "gs", "app", "trap", "errapp"}
MC_Ids == {"iA1", "cS", "r1", "r2", "r3", "r9"}
MC_IdOf == [alice |-> [s1 |-> "iA1"]]
MC_IdCOf == [sac |-> "cS"]
MC_Canon == {"sac"}
MC_Metas == [good     |-> [nameLen |-> 10, symLen |-> 4, decimals |-> 7, utf8 |-> TRUE, style |-> "ascii"],
             emptySym |-> [nameLen |-> 5,  symLen |-> 0, decimals |-> 7, utf8 |-> TRUE, style |-> "ascii"],
             sacMeta  |-> [nameLen |-> 6,  symLen |-> 6, decimals |-> 7, utf8 |-> TRUE, style |-> "sac"]]
MC_Keys == {"k1", "k1b", "k1_e"}

Tx(id, to, amt, data) == [outer |-> "recv", origin |-> "ethereum", inner |-> "transfer", id |-> id, sender |-> "evm1",
                          recipient |-> to, amt |-> amt, data |-> data, mut |-> NoMut]
Dp(id, meta, minter) == [outer |-> "recv", origin |-> "ethereum", inner |-> "deploy", id |-> id, meta |-> meta,
                         minter |-> minter, mut |-> NoMut]
Mut(p, m) == [p EXCEPT !.mut = m]
W(n) == A!Word(n)
RawPayloads ==
    [p_tx   |-> Tx("iA1", "bob", 1, "none"),      p_tx2  |-> Tx("iA1", "bob", 2, "none"),
     p_txc  |-> Tx("cS", "bob", 1, "none"),       p_txd  |-> Tx("iA1", "app", 1, "d1"),
     p_txe  |-> Tx("iA1", "errapp", 1, "d1"),     \* a receiver that fails with a contract error instead of trapping
     p_txt  |-> Tx("iA1", "trap", 1, "d1"),       p_txu  |-> Tx("iA1", "bob", 1, "d1"),
     p_dp   |-> Dp("r1", "good", "none"),         p_dpm  |-> Dp("r2", "good", "carol"),
     p_send |-> [Tx("iA1", "bob", 1, "none") EXCEPT !.outer = "send"],
     p_it2  |-> Mut(Tx("iA1", "bob", 1, "none"), [kind |-> "setinner", off |-> 0, bytes |-> W(2)]),
     p_it3  |-> Mut(Tx("iA1", "bob", 1, "none"), [kind |-> "setinner", off |-> 0, bytes |-> W(3)]),
     p_it4  |-> Mut(Tx("iA1", "bob", 1, "none"), [kind |-> "setinner", off |-> 0, bytes |-> W(4)]),
     p_it5  |-> Mut(Tx("iA1", "bob", 1, "none"), [kind |-> "setinner", off |-> 0, bytes |-> W(5)]),
     p_ot5  |-> Mut(Tx("iA1", "bob", 1, "none"), [kind |-> "setouter", off |-> 0, bytes |-> W(5)]),
     \* type words whose LOW byte is a supported tag but whose upper bytes are not zero (260 = 0x0104, 256 = 0x0100)
     p_o260 |-> Mut(Tx("iA1", "bob", 1, "none"), [kind |-> "setouter", off |-> 0, bytes |-> W(260)]),
     p_i256 |-> Mut(Tx("iA1", "bob", 1, "none"), [kind |-> "setinner", off |-> 0, bytes |-> W(256)]),
     p_ihi  |-> Mut(Tx("iA1", "bob", 1, "none"), [kind |-> "setinner", off |-> 0, bytes |-> <<128>> \o A!Zeros(31)]),
     p_ont  |-> [Tx("iA1", "bob", 1, "none") EXCEPT !.origin = "avalanche"],
     p_unk  |-> Tx("r9", "bob", 1, "none"),
     p_rcp  |-> Tx("iA1", "garbage", 1, "none"),  p_rcpr |-> Tx("iA1", "garbageRaw", 1, "none"),
     p_min  |-> Dp("r3", "good", "garbage"),      p_minr |-> Dp("r3", "good", "garbageRaw"),
     p_dpe  |-> Dp("r3", "emptySym", "none"),     p_dpx  |-> Dp("iA1", "good", "none"),
     p_a127 |-> Mut(Tx("iA1", "bob", 1, "none"), [kind |-> "setinner", off |-> 128, bytes |-> A!Zeros(16) \o <<128>> \o A!Zeros(15)]),
     p_a128 |-> Mut(Tx("iA1", "bob", 1, "none"), [kind |-> "setinner", off |-> 128, bytes |-> A!Zeros(15) \o <<1>> \o A!Zeros(16)]),
     \* amount words whose UPPER half is not zero while the lower half is a plain 1: the top bit of the word (2^255 + 1),
     \* the top bit of the upper half's last byte (2^135 + 1), all ones (what a 256-bit negative number looks like)
     p_a255 |-> Mut(Tx("iA1", "bob", 1, "none"), [kind |-> "setinner", off |-> 128, bytes |-> <<128>> \o A!Zeros(30) \o <<1>>]),
     p_a135 |-> Mut(Tx("iA1", "bob", 1, "none"), [kind |-> "setinner", off |-> 128, bytes |-> A!Zeros(15) \o <<128>> \o A!Zeros(15) \o <<1>>]),
     p_aff  |-> Mut(Tx("iA1", "bob", 1, "none"), [kind |-> "setinner", off |-> 128, bytes |-> [k \in 1..16 |-> 255] \o A!Zeros(15) \o <<1>>]),
     p_t1   |-> Mut(Tx("iA1", "bob", 1, "none"), [kind |-> "trunc", n |-> 1]),
     p_t32  |-> Mut(Tx("iA1", "bob", 1, "none"), [kind |-> "trunc", n |-> 32]),
     p_p1   |-> Mut(Tx("iA1", "bob", 1, "none"), [kind |-> "extend", n |-> 1]),
     p_p32  |-> Mut(Tx("iA1", "bob", 1, "none"), [kind |-> "extend", n |-> 32]),
     p_short |-> [outer |-> "short", origin |-> "ethereum", inner |-> "none", id |-> "iA1", mut |-> NoMut]]
MC_Payloads == WithDecodes(RawPayloads)

MC_Deliveries ==
    [d_tx  |-> [key |-> "k1",  srcChain |-> "axelar", srcAddr |-> "hub",    dest |-> "its",   payload |-> "p_tx"],
     a_pay |-> [key |-> "k1",  srcChain |-> "axelar", srcAddr |-> "hub",    dest |-> "its",   payload |-> "p_tx2"],
     a_src |-> [key |-> "k1",  srcChain |-> "axelar", srcAddr |-> "nothub", dest |-> "its",   payload |-> "p_tx"],
     a_dst |-> [key |-> "k1",  srcChain |-> "axelar", srcAddr |-> "hub",    dest |-> "carol", payload |-> "p_tx"],
     a_id  |-> [key |-> "k1b", srcChain |-> "axelar", srcAddr |-> "hub",    dest |-> "its",   payload |-> "p_tx"],
     \* the id of k1 claimed from another chain (key names "<id>_<tag>" share the message id "<id>"); never approved
     a_chn |-> [key |-> "k1_e", srcChain |-> "ethereum", srcAddr |-> "hub", dest |-> "its",   payload |-> "p_tx"]]

Setup(s) ==
    IF s.reg["iA1"] = "none"
    THEN {[name |-> "DeployInterchainToken", caller |-> "alice", salt |-> "s1", meta |-> "good", supply |-> 3,
           minter |-> "none", auth |-> {"alice"}]}
    ELSE IF s.reg["cS"] = "none" THEN {[name |-> "RegisterCanonical", tok |-> "sac"]}
    ELSE IF s.bal["sac"]["alice"] = 5
    THEN {[name |-> "InterchainTransfer", caller |-> "alice", id |-> "cS", dest |-> "ethereum", destAddr |-> "0xdest",
           amt |-> 2, data |-> "none", gas |-> 1, auth |-> {"alice"}]}
    ELSE {}

Main(s) ==
    {[name |-> "ApproveDelivery", d |-> d] : d \in DOMAIN Deliveries \ {"a_chn"}}
    \cup {[name |-> "Execute", d |-> d] : d \in DOMAIN Deliveries}
    \cup {[name |-> "Deliver", payload |-> p, srcChain |-> "axelar", srcAddr |-> "hub"] : p \in DOMAIN RawPayloads}
    \cup {[name |-> "Deliver", payload |-> p, srcChain |-> c, srcAddr |-> x] :
            p \in {"p_tx", "p_dp"}, c \in {"axelar", "ethereum"}, x \in {"hub", "nothub"}}
    \* source chains that are neighbours of the hub's name in string order: sorting before it, after it, a proper
    \* prefix, an extension, another case, the empty name (the hub chain is recognised by equality, nothing else)
    \cup {[name |-> "Deliver", payload |-> "p_tx", srcChain |-> c, srcAddr |-> "hub"] :
            c \in {"avalanche", "axela", "axelar2", "Axelar", "AXELAR", ""}}
    \cup {[name |-> n, chain |-> "ethereum", auth |-> {"owner0"}] : n \in {"SetTrusted", "RemoveTrusted"}}

Acts(s) == IF Setup(s) # {} THEN Setup(s) ELSE Main(s)

Within(s) == s.bal["iA1"]["bob"] <= (IF Small THEN 1 ELSE 3) /\ s.bal["iA1"]["app"] <= 1
             /\ (Small => s.reg["r2"] = "none" \/ s.reg["r1"] = "none")
InitState == [Blank("owner0") EXCEPT !.trusted["ethereum"] = TRUE,
                                     !.bal["sac"]["alice"] = 5, !.gas["alice"] = 3]
Init == st = InitState
EnabledActs(s) == {a \in Acts(s) : Within(Apply(s, a).post)}
Next == \E a \in EnabledActs(st) : st' = Apply(st, a).post

-----------------------------------------------------------------------------
Step(P(_, _, _)) == \A a \in EnabledActs(st) : P(st, a, Apply(st, a))
Inbound(a) == a.name \in {"Execute", "Deliver"}
PayloadOf(a) == Payloads[IF a.name = "Execute" THEN Deliveries[a.d].payload ELSE a.payload]
Gate(s, a, r) ==
    (Inbound(a) /\ r.ok) =>
        LET P == PayloadOf(a)
            chain == IF a.name = "Execute" THEN Deliveries[a.d].srcChain ELSE a.srcChain
            addr == IF a.name = "Execute" THEN Deliveries[a.d].srcAddr ELSE a.srcAddr IN
        /\ chain = HubChain /\ addr = HubAddr
        /\ P.outer = "recv" /\ P.decodes /\ s.trusted[P.origin]
        /\ (P.inner = "transfer" => s.reg[P.id] # "none")
        /\ (a.name = "Execute" =>
               /\ s.appr[Deliveries[a.d].key] \in DOMAIN Deliveries
               /\ Deliveries[s.appr[Deliveries[a.d].key]].payload = Deliveries[a.d].payload
               /\ Deliveries[s.appr[Deliveries[a.d].key]].dest = "its"
               /\ r.post.appr[Deliveries[a.d].key] = "executed")
Once(s, a, r) == (a.name = "Execute" /\ r.ok) => ~Apply(r.post, a).ok
Untouched(s, a, r) == (Inbound(a) /\ ~r.ok) => r.post = s /\ r.ev = <<>>
Conforming(s, a, r) ==
    (a.name = "Deliver" /\ a.srcChain = HubChain /\ a.srcAddr = HubAddr /\ s.trusted["ethereum"]
        /\ a.payload \in {"p_tx", "p_tx2", "p_txd"}) => r.ok
C04_Gate == Step(Gate)
C04_Once == Step(Once)
C04_Untouched == Step(Untouched)
C04_Conforming == Step(Conforming)
C04_NonNegative == NonNegative(st)
Compose == Step(ComposeStep)

(* the same step properties in one pass over the enabled actions (quick tier) *)
C04_AllSteps == \A a \in EnabledActs(st) : LET r == Apply(st, a) IN Gate(st, a, r) /\ Once(st, a, r) /\ Untouched(st, a, r) /\ Conforming(st, a, r)

ASSUME PrintT(<<"INST", ToJson(InstBase(RawPayloads, <<"r1", "r2", "r3", "r9">>))>>)
Dump == DumpNode(st, EnabledActs(st))
=============================================================================
