------------------------------- MODULE MC_C08 -------------------------------
(* C08: a proof from the set installed at epoch e is honoured while at most   *)
(* Retention newer sets have been installed, for approvals, standalone proof   *)
(* checks and operator-bypass rotations alike; without bypass only the newest  *)
(* set can authorise a rotation.                                               *)
(* Instance: six well-formed sets; 1..3 initial sets at construction; then up   *)
(* to 6 epochs by plain and bypass rotations; in EVERY reachable state a full   *)
(* proof from EVERY installed epoch through all four entry points.  One cfg per *)
(* retention setting (0, 1, 2, 9 > history).                                    *)
EXTENDS Gateway, Json
CONSTANT MaxEpoch
VARIABLE st

MC_Sets ==
  [a |-> [keys |-> <<1, 2>>,    weights |-> <<1, 1>>,    threshold |-> 2, nonce |-> 1],
   b |-> [keys |-> <<2, 3>>,    weights |-> <<1, 2>>,    threshold |-> 2, nonce |-> 2],
   c |-> [keys |-> <<1, 2, 3>>, weights |-> <<1, 1, 1>>, threshold |-> 2, nonce |-> 3],
   d |-> [keys |-> <<4>>,       weights |-> <<3>>,       threshold |-> 3, nonce |-> 4],
   e |-> [keys |-> <<1, 2>>,    weights |-> <<1, 1>>,    threshold |-> 2, nonce |-> 5],
   f |-> [keys |-> <<3, 5>>,    weights |-> <<2, 2>>,    threshold |-> 3, nonce |-> 6],
   g |-> [keys |-> <<1, 5>>,    weights |-> <<1, 1>>,    threshold |-> 1, nonce |-> 7],
   h |-> [keys |-> <<2, 4, 6>>, weights |-> <<1, 1, 1>>, threshold |-> 3, nonce |-> 8]]
MC_Keys == [k1 |-> [chain |-> "c", id |-> "1"]]
MC_Msgs == [m1 |-> [key |-> "k1", src |-> "sA", dest |-> "app1", ph |-> "p1"]]

Order == <<"a", "b", "c", "d", "e", "f", "g", "h">>
Full(s) == [set |-> s, sigs |-> [i \in 1..Len(Sets[s].keys) |-> "Valid"]]
NextSet(s) == Order[s.epoch + 1]

Acts(s) ==
    IF ~s.deployed
    THEN {[name |-> "Construct", sets |-> SubSeq(Order, 1, n)] : n \in 1..3}
    ELSE UNION {
        {[name |-> "ApproveMessages", msgs |-> <<"m1">>, proof |-> Full(s.hashByEpoch[ep]), auth |-> {}],
         [name |-> "ValidateProof", data |-> [kind |-> "approve", msgs |-> <<"m1">>],
          proof |-> Full(s.hashByEpoch[ep]), auth |-> {}]}
        \cup (IF s.epoch < MaxEpoch
              THEN {[name |-> "RotateSigners", new |-> NextSet(s), proof |-> Full(s.hashByEpoch[ep]),
                     bypass |-> TRUE, auth |-> {"op0"}],
                    [name |-> "RotateSigners", new |-> NextSet(s), proof |-> Full(s.hashByEpoch[ep]),
                     bypass |-> FALSE, auth |-> {}]}
              ELSE {})
        : ep \in 1..s.epoch}

(* the route (how many initial sets, which kind of rotation at each epoch) is part of the
   instance's state, so that every installed epoch is probed after EVERY history *)
Label(a) == IF a.name = "Construct" THEN Len(a.sets) ELSE IF a.bypass THEN "B" ELSE "P"
Post(s, a) ==
    LET r == Apply(s, a) IN
    IF r.ok /\ a.name \in {"Construct", "RotateSigners"}
    THEN [r.post EXCEPT !.hist = Append(s.hist, Label(a))] ELSE r.post

Init == st = Blank("owner0", "op0", 0)
Next == \E a \in Acts(st) : st' = Post(st, a)

-----------------------------------------------------------------------------
Step(P(_, _, _)) == \A a \in Acts(st) : P(st, a, Apply(st, a))
EpochOfProof(s, a) == s.epochOf[a.proof.set]

Window(s, a, r) ==
    (a.name \in {"ApproveMessages", "ValidateProof"}) =>
        (r.ok <=> s.epoch - EpochOfProof(s, a) <= Retention)
BypassWindow(s, a, r) ==
    (a.name = "RotateSigners" /\ a.bypass) =>
        (r.ok <=> s.epoch - EpochOfProof(s, a) <= Retention)
PlainOnlyNewest(s, a, r) ==
    \* (with a minimum delay configured - cfg r1d, where the clock stands still - a plain rotation additionally waits)
    (a.name = "RotateSigners" /\ ~a.bypass) => (r.ok <=> (EpochOfProof(s, a) = s.epoch /\ s.now - s.lastRot >= MinDelay))
LatestFlag(s, a, r) ==
    (a.name = "ValidateProof" /\ r.ok) => ((r.ret = "true") <=> EpochOfProof(s, a) = s.epoch)
Frame(s, a, r) == ~r.ok => r.post = s /\ r.ev = <<>> /\ Post(s, a) = s

C08_Window == Step(Window)
C08_BypassWindow == Step(BypassWindow)
C08_PlainOnlyNewest == Step(PlainOnlyNewest)
C08_LatestFlag == Step(LatestFlag)
C08_Frame == Step(Frame)
Types == TypeOK(st) /\ LookupsInverse(st)

-----------------------------------------------------------------------------
Inst == [module |-> "Gateway", Sets |-> Sets, Keys |-> Keys, Msgs |-> Msgs, Cap |-> Cap,
         Retention |-> Retention, MinDelay |-> MinDelay, Probes |-> <<>>,
         scale |-> [Q |-> "1", Qt |-> 1, t0 |-> 1000000]]
ASSUME PrintT(<<"INST", ToJson(Inst)>>)
Dump == \A a \in Acts(st) :
    LET r == Apply(st, a) IN
    PrintT(<<"EDGE", ToJson([pre |-> st, act |-> a,
                             exp |-> [ok |-> r.ok, why |-> r.why, fails |-> r.fails, free |-> r.free,
                                      ret |-> r.ret, ev |-> r.ev],
                             post |-> Post(st, a)])>>)
=============================================================================
