------------------------------- MODULE MC_C14R -------------------------------
(* C14, roles: "only the gas collector can move funds out".  A deployment whose    *)
(* owner and collector are the SAME address; ownership then moves on and back.      *)
(* The collector role must stay with the configured address through every such      *)
(* history (a collector that is derived from the owner when both coincide at         *)
(* construction would follow the ownership instead).                                 *)
EXTENDS GasService, Json, SequencesExt
VARIABLE st

Acts(s) ==
    {[name |-> "PayGas", sender |-> "app", spender |-> "alice", token |-> "sac", amt |-> 1, auth |-> {"alice"}]}
    \cup {[name |-> "TransferOwnership", new |-> n, auth |-> {s.owner}] : n \in {"boss", "newo"}}
    \cup {[name |-> n, receiver |-> "carol", token |-> "sac", amt |-> 1, auth |-> au] :
            n \in {"CollectFees", "Refund"}, au \in {{"boss"}, {"newo"}, {}}}

InitState ==
    [bal |-> [t \in Tokens |-> [x \in Accts |-> IF x = "alice" THEN 2 ELSE 0]], collector |-> "boss", owner |-> "boss"]
Init == st = InitState
Next == \E a \in Acts(st) : st' = Apply(st, a).post

C14_StepRules == \A a \in Acts(st) : a.name # "TransferOwnership" => StepRules(st, a, Apply(st, a))
C14_CollectorFixed == st.collector = "boss"
C14_NonNegative == NonNegative(st)

Inst == [module |-> "GasService", Tokens |-> Tokens, Accts |-> Accts]
ASSUME PrintT(<<"INST", ToJson(Inst)>>)
Dump ==
    LET acts == SetToSeq(Acts(st)) IN
    PrintT(<<"NODE", ToJson([pre |-> st,
        edges |-> [i \in 1..Len(acts) |->
            LET r == Apply(st, acts[i]) IN
            [act |-> acts[i],
             exp |-> [ok |-> r.ok, why |-> r.why, fails |-> r.fails, free |-> r.free, ret |-> r.ret, ev |-> r.ev],
             post |-> IF r.post = st THEN "same" ELSE r.post]]])>>)
=============================================================================
