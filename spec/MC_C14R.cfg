CONSTANTS
  Tokens = {"sac"}
  Accts = {"alice", "carol", "gs", "boss", "newo", "app"}
INIT Init
NEXT Next
CHECK_DEADLOCK FALSE
INVARIANTS
  C14_StepRules
  C14_CollectorFixed
  C14_NonNegative
  Dump
