CONSTANTS
  Tokens = {"sac", "itk"}
  Accts = {"alice", "bob", "gs"}
INIT Init
NEXT Next
CHECK_DEADLOCK FALSE
INVARIANTS
  C07_Named
  C07_Frame
  Dump
