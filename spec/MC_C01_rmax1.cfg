CONSTANTS
  Sets <- MC_Sets
  Keys <- MC_Keys
  Msgs <- MC_Msgs
  Cap = 15
  Retention = 2147483646
  MinDelay = 0
  QScale = "1"
  Deep = FALSE
INIT Init
NEXT Next
CHECK_DEADLOCK FALSE
INVARIANTS
  Types
  C01_Sound
  C01_CompleteVP
  C01_CompleteAM
  C01_OpenOnlyWhenSufficient
  C01_Frame
  Dump
