CONSTANTS
  Accts = {"its0", "alice", "bob", "carol", "mallory", "token"}
  Cap = 0
  MaxLive = 6311999
INIT Init
NEXT Next
CHECK_DEADLOCK FALSE
INVARIANTS
  C07_Named
  C07_Frame
  Dump
