------------------------------- MODULE MC_C09 -------------------------------
(* C09: a rotation without bypass succeeds only if at least MinDelay has       *)
(* elapsed since the previous successful rotation of any kind (deployment       *)
(* counts); a bypass rotation needs the current operator's authorisation,       *)
(* ignores the delay and restarts the clock.                                    *)
(* Instance: ledger time advances by 1, MinDelay-1, MinDelay, MinDelay+1;       *)
(* interleavings of plain / bypass rotations that succeed or fail (wrong proof, *)
(* malformed candidate, missing or wrong operator authorisation, bypass with a   *)
(* retained older set) up to 4 epochs.  One cfg per delay (0, 1, 10, and 10      *)
(* with the absolute clock at 0 / near the top of u64 at deployment, and 10       *)
(* units of 2^40 seconds).  lastRot is not observable through the API: it is     *)
(* checked through the accept/reject behaviour of every later rotation.          *)
EXTENDS Gateway, Json
CONSTANTS QtScale, MaxNow,
          T0   \* absolute ledger time of the deployment: a number of seconds, or "top" = u64::MAX - 1000
VARIABLE st

MC_Sets ==
  [a |-> [keys |-> <<1, 2>>,    weights |-> <<1, 1>>,    threshold |-> 2, nonce |-> 1],
   b |-> [keys |-> <<2, 3>>,    weights |-> <<1, 2>>,    threshold |-> 2, nonce |-> 2],
   c |-> [keys |-> <<1, 2, 3>>, weights |-> <<1, 1, 1>>, threshold |-> 2, nonce |-> 3],
   d |-> [keys |-> <<4>>,       weights |-> <<3>>,       threshold |-> 3, nonce |-> 4],
   bad |-> [keys |-> <<2, 1>>,  weights |-> <<1, 1>>,    threshold |-> 1, nonce |-> 9]]
MC_Keys == [k1 |-> [chain |-> "c", id |-> "1"]]
MC_Msgs == [m1 |-> [key |-> "k1", src |-> "sA", dest |-> "app1", ph |-> "p1"]]

Order == <<"a", "b", "c", "d">>
MaxEpoch == 4
Full(s) == [set |-> s, sigs |-> [i \in 1..Len(Sets[s].keys) |-> "Valid"]]
Tagged(s, t) == [set |-> s, sigs |-> [i \in 1..Len(Sets[s].keys) |-> t]]
Latest(s) == s.hashByEpoch[s.epoch]
\* (a delay at the top of the range stands for u64::MAX: no boundary ticks, time just passes)
Ticks == IF MinDelay >= 2147483646 THEN {1} ELSE {x \in {1, MinDelay - 1, MinDelay, MinDelay + 1} : x > 0}

Rot(new, proof, bypass, auth) ==
    [name |-> "RotateSigners", new |-> new, proof |-> proof, bypass |-> bypass, auth |-> auth]

Acts(s) ==
    {[name |-> "Tick", dt |-> dt] : dt \in {x \in Ticks : s.now + x <= MaxNow}}
    \cup (IF s.epoch >= MaxEpoch THEN {} ELSE
          LET nx == Order[s.epoch + 1] IN
          {Rot(nx, Full(Latest(s)), FALSE, {}),
           Rot(nx, Full(Latest(s)), TRUE, {"op0"}),
           Rot(nx, Full(Latest(s)), TRUE, {}),
           Rot(nx, Full(Latest(s)), TRUE, {"owner0"}),
           Rot(nx, Tagged(Latest(s), "WrongData"), FALSE, {}),
           Rot(nx, Tagged(Latest(s), "WrongData"), TRUE, {"op0"}),
           Rot("bad", Full(Latest(s)), FALSE, {}),
           Rot("bad", Full(Latest(s)), TRUE, {"op0"})}
          \cup (IF s.epoch >= 2
                THEN {Rot(nx, Full(s.hashByEpoch[s.epoch - 1]), TRUE, {"op0"}),
                      Rot(nx, Full(s.hashByEpoch[s.epoch - 1]), TRUE, {}),
                      Rot(nx, Full(s.hashByEpoch[s.epoch - 1]), FALSE, {})}
                ELSE {}))

InitState == [Install(Blank("owner0", "op0", 0), "a") EXCEPT !.deployed = TRUE]
Init == st = InitState
Next == \E a \in Acts(st) : st' = Apply(st, a).post

-----------------------------------------------------------------------------
Step(P(_, _, _)) == \A a \in Acts(st) : P(st, a, Apply(st, a))
IsRot(a) == a.name = "RotateSigners"
Honest(s, a) == a.new # "bad" /\ a.proof.sigs = Full(a.proof.set).sigs

Limit(s, a, r) == (IsRot(a) /\ ~a.bypass /\ r.ok) => s.now - s.lastRot >= MinDelay
PlainComplete(s, a, r) ==
    (IsRot(a) /\ ~a.bypass /\ Honest(s, a) /\ a.proof.set = Latest(s)) =>
        (r.ok <=> s.now - s.lastRot >= MinDelay)
Clock(s, a, r) ==
    IsRot(a) => IF r.ok THEN r.post.lastRot = s.now ELSE r.post.lastRot = s.lastRot
BypassNeedsOperator(s, a, r) == (IsRot(a) /\ a.bypass /\ r.ok) => s.operator \in a.auth
BypassIgnoresDelay(s, a, r) ==
    (IsRot(a) /\ a.bypass /\ Honest(s, a) /\ s.operator \in a.auth) => r.ok
Frame(s, a, r) == ~r.ok => r.post = s /\ r.ev = <<>>

C09_Limit == Step(Limit)
C09_PlainComplete == Step(PlainComplete)
C09_Clock == Step(Clock)
C09_BypassNeedsOperator == Step(BypassNeedsOperator)
C09_BypassIgnoresDelay == Step(BypassIgnoresDelay)
C09_Frame == Step(Frame)
Types == TypeOK(st) /\ LookupsInverse(st)

-----------------------------------------------------------------------------
Inst == [module |-> "Gateway", Sets |-> Sets, Keys |-> Keys, Msgs |-> Msgs, Cap |-> Cap,
         Retention |-> Retention, MinDelay |-> MinDelay, Probes |-> <<>>,
         scale |-> [Q |-> "1", Qt |-> QtScale, t0 |-> T0]]
ASSUME PrintT(<<"INST", ToJson(Inst)>>)
Dump == \A a \in Acts(st) :
    LET r == Apply(st, a) IN
    PrintT(<<"EDGE", ToJson([pre |-> st, act |-> a,
                             exp |-> [ok |-> r.ok, why |-> r.why, fails |-> r.fails, free |-> r.free,
                                      ret |-> r.ret, ev |-> r.ev],
                             post |-> r.post])>>)
=============================================================================
