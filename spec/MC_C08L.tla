------------------------------- MODULE MC_C08L -------------------------------
(* C08 over LONG histories: one initial set, then 23 plain rotations by the      *)
(* newest set; in every state a full proof from EVERY installed epoch through     *)
(* approve_messages, validate_proof and an operator-bypass rotation.  A linear     *)
(* chain of 24 epochs (x message approved or not), so retention settings in the tens (16, 20) and "larger      *)
(* than any history" (the top of u64) are exercised against histories longer        *)
(* than the setting: a configured retention that is silently capped, truncated or   *)
(* stored in a narrower type shows here and nowhere in the short instances.         *)
EXTENDS Gateway, Json, SequencesExt
CONSTANT MaxEpoch
VARIABLE st

MC_Sets ==
  [n01 |-> [keys |-> <<1, 4>>, weights |-> <<1, 1>>, threshold |-> 2, nonce |-> 1],
   n02 |-> [keys |-> <<2, 5>>, weights |-> <<1, 1>>, threshold |-> 2, nonce |-> 2],
   n03 |-> [keys |-> <<3, 4>>, weights |-> <<1, 1>>, threshold |-> 2, nonce |-> 3],
   n04 |-> [keys |-> <<1, 5>>, weights |-> <<1, 1>>, threshold |-> 2, nonce |-> 4],
   n05 |-> [keys |-> <<2, 4>>, weights |-> <<1, 1>>, threshold |-> 2, nonce |-> 5],
   n06 |-> [keys |-> <<3, 5>>, weights |-> <<1, 1>>, threshold |-> 2, nonce |-> 6],
   n07 |-> [keys |-> <<1, 4>>, weights |-> <<1, 1>>, threshold |-> 2, nonce |-> 7],
   n08 |-> [keys |-> <<2, 5>>, weights |-> <<1, 1>>, threshold |-> 2, nonce |-> 8],
   n09 |-> [keys |-> <<3, 4>>, weights |-> <<1, 1>>, threshold |-> 2, nonce |-> 9],
   n10 |-> [keys |-> <<1, 5>>, weights |-> <<1, 1>>, threshold |-> 2, nonce |-> 10],
   n11 |-> [keys |-> <<2, 4>>, weights |-> <<1, 1>>, threshold |-> 2, nonce |-> 11],
   n12 |-> [keys |-> <<3, 5>>, weights |-> <<1, 1>>, threshold |-> 2, nonce |-> 12],
   n13 |-> [keys |-> <<1, 4>>, weights |-> <<1, 1>>, threshold |-> 2, nonce |-> 13],
   n14 |-> [keys |-> <<2, 5>>, weights |-> <<1, 1>>, threshold |-> 2, nonce |-> 14],
   n15 |-> [keys |-> <<3, 4>>, weights |-> <<1, 1>>, threshold |-> 2, nonce |-> 15],
   n16 |-> [keys |-> <<1, 5>>, weights |-> <<1, 1>>, threshold |-> 2, nonce |-> 16],
   n17 |-> [keys |-> <<2, 4>>, weights |-> <<1, 1>>, threshold |-> 2, nonce |-> 17],
   n18 |-> [keys |-> <<3, 5>>, weights |-> <<1, 1>>, threshold |-> 2, nonce |-> 18],
   n19 |-> [keys |-> <<1, 4>>, weights |-> <<1, 1>>, threshold |-> 2, nonce |-> 19],
   n20 |-> [keys |-> <<2, 5>>, weights |-> <<1, 1>>, threshold |-> 2, nonce |-> 20],
   n21 |-> [keys |-> <<3, 4>>, weights |-> <<1, 1>>, threshold |-> 2, nonce |-> 21],
   n22 |-> [keys |-> <<1, 5>>, weights |-> <<1, 1>>, threshold |-> 2, nonce |-> 22],
   n23 |-> [keys |-> <<2, 4>>, weights |-> <<1, 1>>, threshold |-> 2, nonce |-> 23],
   n24 |-> [keys |-> <<3, 5>>, weights |-> <<1, 1>>, threshold |-> 2, nonce |-> 24]]
MC_Keys == [k1 |-> [chain |-> "c", id |-> "1"]]
MC_Msgs == [m1 |-> [key |-> "k1", src |-> "sA", dest |-> "app1", ph |-> "p1"]]

Order == <<"n01", "n02", "n03", "n04", "n05", "n06", "n07", "n08", "n09", "n10", "n11", "n12", "n13", "n14", "n15", "n16", "n17", "n18", "n19", "n20", "n21", "n22", "n23", "n24">>
Full(s) == [set |-> s, sigs |-> [i \in 1..Len(Sets[s].keys) |-> "Valid"]]

Acts(s) ==
    UNION {
        {[name |-> "ApproveMessages", msgs |-> <<"m1">>, proof |-> Full(s.hashByEpoch[ep]), auth |-> {}],
         [name |-> "ValidateProof", data |-> [kind |-> "approve", msgs |-> <<"m1">>],
          proof |-> Full(s.hashByEpoch[ep]), auth |-> {}]}
        : ep \in 1..s.epoch}
    \cup (IF s.epoch < MaxEpoch
          THEN {[name |-> "RotateSigners", new |-> Order[s.epoch + 1], proof |-> Full(s.hashByEpoch[s.epoch]),
                 bypass |-> FALSE, auth |-> {}]}
          ELSE {})

InitState == [Install(Blank("owner0", "op0", 0), "n01") EXCEPT !.deployed = TRUE]
Init == st = InitState
Next == \E a \in Acts(st) : st' = Apply(st, a).post

-----------------------------------------------------------------------------
Step(P(_, _, _)) == \A a \in Acts(st) : P(st, a, Apply(st, a))
Window(s, a, r) ==
    (a.name \in {"ApproveMessages", "ValidateProof"}) =>
        (r.ok <=> s.epoch - s.epochOf[a.proof.set] <= Retention)
C08_Window == Step(Window)
Types == TypeOK(st) /\ LookupsInverse(st)

Inst == [module |-> "Gateway", Sets |-> Sets, Keys |-> Keys, Msgs |-> Msgs, Cap |-> Cap,
         Retention |-> Retention, MinDelay |-> MinDelay, Probes |-> <<>>,
         scale |-> [Q |-> "1", Qt |-> 1, t0 |-> 1000000]]
ASSUME PrintT(<<"INST", ToJson(Inst)>>)
Dump ==
    LET acts == SetToSeq(Acts(st)) IN
    PrintT(<<"NODE", ToJson([pre |-> st,
        edges |-> [i \in 1..Len(acts) |->
            LET r == Apply(st, acts[i]) IN
            [act |-> acts[i],
             exp |-> [ok |-> r.ok, why |-> r.why, fails |-> r.fails, free |-> r.free, ret |-> r.ret, ev |-> r.ev],
             post |-> IF r.post = st THEN "same" ELSE r.post]]])>>)
=============================================================================
