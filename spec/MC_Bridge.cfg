CONSTANTS
  Chains <- MC_Chains
  Accts <- MC_Accts
  Ids <- MC_Ids
  IdOf <- MC_IdOf
  IdCOf <- MC_IdCOf
  Canon <- MC_Canon
  Metas <- MC_Metas
  Deliveries <- MC_Deliveries
  Payloads <- MC_Payloads
  Keys <- MC_Keys
  Deviations = {}
  ChainA = "stellar"
  ChainB = "stellar-2"
INIT Init
NEXT Next
CHECK_DEADLOCK FALSE
INVARIANTS
  Bridge_ConservedNative
  Bridge_ConservedCanonical
  Bridge_RemoteMeta
  Bridge_NoOrphans
  Bridge_NonNegative
  Bridge_Compose
  Bridge_Flight
  Dump
