------------------------------- MODULE MC_C14 -------------------------------
(* C14: the gas service holds exactly what was paid in minus what its collector *)
(* paid out.  Instance: two tokens (a Stellar asset contract and a natively       *)
(* registered interchain token), two spenders, two receivers, amounts -1..3        *)
(* (0, negative, exact balance, balance+1), collector / owner / nobody as          *)
(* authoriser of the pay-out paths; every interleaving (finite: 3 units per token). *)
(* The ghost totals paidIn/paidOut are not needed: conservation per token plus      *)
(* "the service's holding moves only by these four calls" is the step rule.         *)
EXTENDS GasService, Json, SequencesExt
VARIABLE st

Amts == -1..3
Spenders == {"alice", "bob"}
Receivers == {"carol", "alice"}

Real == Tokens \ {"nv"}
Acts(s) ==
    {[name |-> n, sender |-> "app", spender |-> sp, token |-> t, amt |-> x, auth |-> {sp}] :
        n \in {"PayGas", "AddGas"}, sp \in Spenders, t \in Real, x \in Amts}
    \cup {[name |-> n, receiver |-> rc, token |-> t, amt |-> x, auth |-> au] :
        n \in {"CollectFees", "Refund"}, rc \in Receivers, t \in Real, x \in Amts,
        au \in {{"col0"}, {"owner0"}, {}}}
    \* the sender of the message holds funds too (and, like the spender, a standing allowance toward the service):
    \* the payment is taken from the named spender all the same
    \cup {[name |-> n, sender |-> "bob", spender |-> "alice", token |-> t, amt |-> 1, auth |-> au] :
            n \in {"PayGas", "AddGas"}, t \in Real, au \in {{"alice"}, {"bob"}}}
    \* "nv": a token that does not check the sign of an amount - the service itself must insist on a
    \* positive payment and on a non-negative collection
    \cup (IF "nv" \in Tokens
          THEN {[name |-> n, sender |-> "app", spender |-> "alice", token |-> "nv", amt |-> x, auth |-> {"alice"}] :
                    n \in {"PayGas", "AddGas"}, x \in {-1, 0, 1}}
               \cup {[name |-> "CollectFees", receiver |-> "carol", token |-> "nv", amt |-> x, auth |-> {"col0"}] : x \in {-1, 0, 1}}
          ELSE {})

InitState ==
    [bal |-> [t \in Tokens |-> [x \in Accts |-> IF x = "alice" THEN 2 ELSE IF x = "bob" THEN 1 ELSE 0]],
     collector |-> "col0", owner |-> "owner0"]
Init == st = InitState
Next == \E a \in Acts(st) : st' = Apply(st, a).post

C14_StepRules == \A a \in Acts(st) : StepRules(st, a, Apply(st, a))
C14_NonNegative == NonNegative(st)

Inst == [module |-> "GasService", Tokens |-> Tokens, Accts |-> Accts, Allowances |-> <<"alice", "bob">>]
ASSUME PrintT(<<"INST", ToJson(Inst)>>)
Dump ==
    LET acts == SetToSeq(Acts(st)) IN
    PrintT(<<"NODE", ToJson([pre |-> st,
        edges |-> [i \in 1..Len(acts) |->
            LET r == Apply(st, acts[i]) IN
            [act |-> acts[i],
             exp |-> [ok |-> r.ok, why |-> r.why, fails |-> r.fails, free |-> r.free, ret |-> r.ret, ev |-> r.ev],
             post |-> IF r.post = st THEN "same" ELSE r.post]]])>>)
=============================================================================
