------------------------------- MODULE ITSMC -------------------------------
(* Shared by the bounded ITS instances: representative byte-level payloads (so that Abi!Decode
   decides whether a possibly mutated payload decodes), the observable projection, the dump. *)
EXTENDS ITS, Json, SequencesExt

A == INSTANCE Abi

Asc(n) == [k \in 1..n |-> (k * 7 + 3) % 256]
Txt(n) == [k \in 1..n |-> 97 + (k % 26)]
NoMut == [kind |-> "none"]

RepText(len, utf8) == IF len > 0 /\ ~utf8 THEN <<255>> \o Txt(len - 1) ELSE Txt(len)
Rep(p) ==
    IF p.inner = "transfer"
    THEN [outer |-> p.outer, chain |-> Txt(8), inner |-> "transfer", tokenId |-> Asc(32), src |-> Asc(20),
          dst |-> Asc(40), amount |-> A!Zeros(15) \o <<p.amt>>, data |-> IF p.data = "none" THEN <<>> ELSE Asc(4)]
    ELSE [outer |-> p.outer, chain |-> Txt(8), inner |-> "deploy", tokenId |-> Asc(32),
          name |-> RepText(Metas[p.meta].nameLen, Metas[p.meta].utf8), symbol |-> Txt(Metas[p.meta].symLen),
          decimals |-> Metas[p.meta].decimals, minter |-> IF p.minter = "none" THEN <<>> ELSE Asc(40)]

ApplyPMut(b, m) ==
    LET S == A!WordVal(b, 64) + 32 IN
    CASE m.kind = "none" -> b
      [] m.kind = "trunc" -> SubSeq(b, 1, Len(b) - m.n)
      [] m.kind = "extend" -> b \o A!Zeros(m.n)
      [] m.kind = "setinner" -> [k \in 1..Len(b) |-> IF k > S + m.off /\ k <= S + m.off + Len(m.bytes) THEN m.bytes[k - S - m.off] ELSE b[k]]
      [] m.kind = "setouter" -> [k \in 1..Len(b) |-> IF k > m.off /\ k <= m.off + Len(m.bytes) THEN m.bytes[k - m.off] ELSE b[k]]

(* does the (mutated) payload decode to a supported ReceiveFromHub / SendToHub message? *)
DecodesOK(p) ==
    IF p.outer = "short" THEN FALSE
    ELSE ~A!IsErr(A!Decode(ApplyPMut(A!Encode(Rep(p)), p.mut)))
(* the wrapper type the service looks at first: the first word after the mutation *)
OuterAfter(p) ==
    IF p.outer = "short" THEN "short"
    ELSE LET b == ApplyPMut(A!Encode(Rep(p)), p.mut) IN
         IF Len(b) < 32 THEN "short"
         ELSE IF A!IsSmallWord(b, 0) /\ A!WordVal(b, 0) = 4 THEN "recv"
         ELSE IF A!IsSmallWord(b, 0) /\ A!WordVal(b, 0) = 3 THEN "send" ELSE "other"

WithDecodes(raw) ==
    [n \in DOMAIN raw |->
        [f \in DOMAIN raw[n] \cup {"decodes"} |->
            IF f = "decodes" THEN DecodesOK(raw[n])
            ELSE IF f = "outer" THEN OuterAfter(raw[n]) ELSE raw[n][f]]]

(* the service's folded token and gas ledgers agree with Token.tla and GasService.tla (see ITS.tla) *)
ComposeStep(s, a, r) == TokenRefines(s, a, r, Deviations) /\ GasRefines(s, a, r)

Obs(s) ==
    [trusted |-> s.trusted, reg |-> s.reg, regTok |-> s.regTok, tokMeta |-> s.tokMeta, bal |-> s.bal,
     minters |-> s.minters, gas |-> s.gas, appr |-> s.appr, fkMeta |-> s.fkMeta, owner |-> s.owner,
     \* every service-deployed token is owned by the service and reports its own id
     tokOwner |-> [i \in Ids |-> IF s.reg[i] = "native" THEN "its" ELSE "none"],
     tokSelfId |-> [i \in Ids |-> IF s.reg[i] = "native" THEN "ok" ELSE "none"],
     \* ids are deterministic, collision-free over the catalogue and depend on the chain name
     idcheck |-> "ok",
     \* gateway, gas service, chain name, hub chain / address and token code hash are fixed at construction
     wiring |-> "ok"]

InstBase(rawPayloads, remoteIds) ==
    [module |-> "ITS", Chains |-> Chains, Accts |-> Accts, Ids |-> Ids, IdOf |-> IdOf, IdCOf |-> IdCOf,
     Canon |-> Canon, Metas |-> Metas, Deliveries |-> Deliveries, Payloads |-> rawPayloads, Keys |-> Keys,
     RemoteIds |-> remoteIds]

DumpNode(s, actset) ==
    LET acts == SetToSeq(actset) IN
    PrintT(<<"NODE", ToJson([pre |-> Obs(s),
        edges |-> [i \in 1..Len(acts) |->
            LET r == Apply(s, acts[i]) IN
            IF r.dev = "none"
            THEN [act |-> acts[i],
                  exp |-> [ok |-> r.ok, why |-> r.why, fails |-> r.fails, free |-> r.free, ret |-> r.ret, ev |-> r.ev],
                  post |-> IF r.post = s THEN "same" ELSE Obs(r.post)]
            ELSE \* a recorded deviation: what the code does, labelled, plus what the design says (alt)
                 LET ri == ApplyIntended(s, acts[i]) IN
                 [act |-> acts[i],
                  exp |-> [ok |-> r.ok, why |-> r.why, fails |-> r.fails, free |-> r.free, ret |-> r.ret, ev |-> r.ev, dev |-> r.dev],
                  post |-> IF r.post = s THEN "same" ELSE Obs(r.post),
                  alt |-> [exp |-> [ok |-> ri.ok, why |-> ri.why, fails |-> ri.fails, free |-> ri.free, ret |-> ri.ret, ev |-> ri.ev],
                           post |-> Obs(ri.post)]]]])>>)
=============================================================================
