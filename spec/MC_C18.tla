------------------------------- MODULE MC_C18 -------------------------------
(* C18: a remote deployment request succeeds only for a token already registered   *)
(* under the id derived from the caller's own (deployer, salt) pair or from the       *)
(* canonical token's address, only toward a currently trusted destination chain and    *)
(* only with the stated gas payment from the payer; it announces a deploy message       *)
(* with exactly that id and the token's actual name, symbol and decimals, no minter;     *)
(* refuses unrepresentable metadata; moves no funds other than the gas.                   *)
(* Instance: registered / unregistered ids, a foreign caller reusing the deployer's       *)
(* salt, destinations trusted / never trusted / removed / the hub itself, a canonical      *)
(* token that reports arbitrary metadata (multi-byte, 0 / 255 / 256 decimals, empty name    *)
(* or symbol, asset-style, non-UTF-8) next to a real Stellar asset contract, gas 0 / -1 /    *)
(* affordable / unaffordable, payer authorised or not.  Gas is finite => finite space.       *)
EXTENDS ITSMC
CONSTANTS Small,
          Variant   \* "std": canonical tokens = a Stellar asset contract and a metadata-forging token;
                    \* "itk": the canonical token is an interchain token built from the repository's SOURCE with 0 decimals
VARIABLE st

MC_Chains == {"ethereum", "avalanche", "polygon", "axelar"}
MC_Accts == {"alice", "bob", "its", "gs"}
MC_Ids == IF Variant = "itk" THEN {"iA1", "iA2", "iB1", "cS"} ELSE {"iA1", "iA2", "iB1", "cS", "cF"}
MC_IdOf == [alice |-> [s1 |-> "iA1", s2 |-> "iA2"], bob |-> [s1 |-> "iB1"]]
MC_IdCOf == IF Variant = "itk" THEN [x \in {"itk"} |-> "cS"] ELSE [sac |-> "cS", fk |-> "cF"]
MC_Canon == IF Variant = "itk" THEN {"itk"} ELSE {"sac", "fk"}
MC_Metas == [good      |-> [nameLen |-> 10, symLen |-> 4,  decimals |-> 7,   utf8 |-> TRUE,  style |-> "ascii"],
             mb255     |-> [nameLen |-> 33, symLen |-> 3,  decimals |-> 255, utf8 |-> TRUE,  style |-> "mb"],
             dec0      |-> [nameLen |-> 1,  symLen |-> 32, decimals |-> 0,   utf8 |-> TRUE,  style |-> "ascii"],
             asset     |-> [nameLen |-> 61, symLen |-> 4,  decimals |-> 7,   utf8 |-> TRUE,  style |-> "asset"],
             dec256    |-> [nameLen |-> 5,  symLen |-> 4,  decimals |-> 256, utf8 |-> TRUE,  style |-> "ascii"],
             dec263    |-> [nameLen |-> 5,  symLen |-> 4,  decimals |-> 263, utf8 |-> TRUE,  style |-> "ascii"],
             emptyName |-> [nameLen |-> 0,  symLen |-> 4,  decimals |-> 7,   utf8 |-> TRUE,  style |-> "ascii"],
             emptySym  |-> [nameLen |-> 5,  symLen |-> 0,  decimals |-> 7,   utf8 |-> TRUE,  style |-> "ascii"],
             badutf8   |-> [nameLen |-> 6,  symLen |-> 4,  decimals |-> 7,   utf8 |-> FALSE, style |-> "ascii"],
             \* names that end in NUL bytes (zero-padded asset codes) and a symbol of NUL bytes only: announced as they are
             nulpad    |-> [nameLen |-> 12, symLen |-> 4,  decimals |-> 7,   utf8 |-> TRUE,  style |-> "nulpad"],
             nulsym    |-> [nameLen |-> 8,  symLen |-> 2,  decimals |-> 7,   utf8 |-> TRUE,  style |-> "nulsym"],
             itkMeta   |-> [nameLen |-> 12, symLen |-> 3,  decimals |-> 0,   utf8 |-> TRUE,  style |-> "ascii"],
             sacMeta   |-> [nameLen |-> 6,  symLen |-> 6,  decimals |-> 7,   utf8 |-> TRUE,  style |-> "sac"]]
MC_Keys == {"k0"}
MC_Deliveries == [d0 |-> [key |-> "k0", srcChain |-> "axelar", srcAddr |-> "hub", dest |-> "its", payload |-> "p0"]]
RawPayloads == [p0 |-> [outer |-> "recv", origin |-> "ethereum", inner |-> "transfer", id |-> "iA1", sender |-> "evm1",
                        recipient |-> "bob", amt |-> 1, data |-> "none", mut |-> NoMut]]
MC_Payloads == WithDecodes(RawPayloads)

FakeMetas == IF Small THEN {"good", "dec256", "emptyName", "mb255", "nulpad", "nulsym"}
             ELSE {"good", "mb255", "dec0", "asset", "dec256", "dec263", "emptyName", "emptySym", "badutf8", "nulpad", "nulsym"}
Dests == {"ethereum", "avalanche", "polygon", "axelar"}
Gases == {-1, 0, 1, 9}
Acts(s) ==
    {[name |-> "DeployInterchainToken", caller |-> "alice", salt |-> "s1", meta |-> m, supply |-> 0, minter |-> "none",
      auth |-> {"alice"}] : m \in IF Small THEN {"mb255"} ELSE {"good", "mb255", "dec0"}}
    \cup {[name |-> "RegisterCanonical", tok |-> t] : t \in Canon}
    \cup (IF Variant = "itk" THEN {} ELSE {[name |-> "SetFakeMeta", meta |-> m] : m \in FakeMetas})
    \cup {[name |-> "DeployRemoteInterchainToken", caller |-> c, salt |-> sl, dest |-> d, gas |-> 1, auth |-> {c}] :
            c \in {"alice", "bob"}, sl \in {"s1"}, d \in Dests}
    \cup {[name |-> "DeployRemoteInterchainToken", caller |-> "alice", salt |-> "s2", dest |-> "ethereum", gas |-> 1, auth |-> {"alice"}]}
    \cup {[name |-> "DeployRemoteInterchainToken", caller |-> "alice", salt |-> "s1", dest |-> "ethereum", gas |-> g, auth |-> au] :
            g \in Gases, au \in {{"alice"}, {"bob"}, {}}}
    \cup {[name |-> "DeployRemoteCanonical", tok |-> t, dest |-> d, spender |-> "alice", gas |-> 1, auth |-> {"alice"}] :
            t \in Canon, d \in Dests}
    \cup {[name |-> "DeployRemoteCanonical", tok |-> t, dest |-> "ethereum", spender |-> sp, gas |-> g, auth |-> au] :
            t \in Canon, sp \in {"alice", "bob"}, g \in Gases, au \in {{"alice"}, {}}}
    \cup {[name |-> n, chain |-> c, auth |-> {"owner0"}] : n \in {"SetTrusted", "RemoveTrusted"},
            c \in IF Small THEN {"polygon"} ELSE {"polygon", "axelar"}}

InitState ==
    LET base == [Blank("owner0") EXCEPT !.trusted["ethereum"] = TRUE, !.gas["alice"] = IF Small THEN 2 ELSE 3] IN
    IF Variant = "itk" THEN [base EXCEPT !.bal["itk"]["alice"] = 2]
    ELSE [base EXCEPT !.bal["sac"]["alice"] = 2, !.bal["fk"]["alice"] = 2]
Init == st = InitState
EnabledActs(s) == Acts(s)
Next == \E a \in EnabledActs(st) : st' = Apply(st, a).post

-----------------------------------------------------------------------------
Step(P(_, _, _)) == \A a \in EnabledActs(st) : P(st, a, Apply(st, a))
Remote(a) == a.name \in {"DeployRemoteInterchainToken", "DeployRemoteCanonical"}
IdFor(a) == IF a.name = "DeployRemoteInterchainToken" THEN IdOf[a.caller][a.salt] ELSE IdCOf[a.tok]
Payer(a) == IF a.name = "DeployRemoteInterchainToken" THEN a.caller ELSE a.spender
Announce(s, a, r) ==
    (Remote(a) /\ r.ok) =>
        LET id == IdFor(a)  meta == MetaOfToken(s, id) IN
        /\ s.reg[id] # "none" /\ s.trusted[a.dest] /\ MetaValid(meta) /\ Metas[meta].utf8
        /\ a.gas > 0 /\ Payer(a) \in a.auth /\ s.gas[Payer(a)] >= a.gas
        /\ r.ret = id
        /\ r.ev = <<[k |-> "gas_paid", spender |-> Payer(a), amt |-> a.gas],
                    [k |-> "contract_called", dest |-> a.dest,
                     msg |-> [inner |-> "deploy", id |-> id, meta |-> meta, minter |-> "none"]]>>
OnlyGas(s, a, r) ==
    (Remote(a) /\ r.ok) =>
        /\ r.post.bal = s.bal /\ r.post.reg = s.reg /\ r.post.minters = s.minters
        /\ r.post.gas = [[s.gas EXCEPT ![Payer(a)] = @ - a.gas] EXCEPT !["gs"] = @ + a.gas]
Frame(s, a, r) == ~r.ok => r.post = s /\ r.ev = <<>>
C18_Announce == Step(Announce)
C18_OnlyGas == Step(OnlyGas)
C18_Frame == Step(Frame)
C18_NonNegative == NonNegative(st)

ASSUME PrintT(<<"INST", ToJson(InstBase(RawPayloads, <<>>))>>)
Dump == DumpNode(st, EnabledActs(st))
=============================================================================
