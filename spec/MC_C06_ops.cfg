CONSTANTS
  Accts = {"a", "owner0", "bob", "mallory"}
INIT Init
NEXT Next
CHECK_DEADLOCK FALSE
INVARIANTS
  C06_OnlyHolder
  C06_Successor
  C06_Frame
  Dump
