CONSTANTS
  Chains <- TChains
  Accts <- TAccts
  Ids <- TIds
  IdOf <- TIdOf
  IdCOf <- TIdCOf
  Canon <- TCanon
  Metas <- TMetas
  Deliveries <- TDeliveries
  Payloads <- TPayloads
  Keys <- TKeys
  Deviations = {"its_minter_revoked", "its_hub_address_unchecked"}
INIT Init
NEXT Next
CHECK_DEADLOCK FALSE
POSTCONDITION Accepted
