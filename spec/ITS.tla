-------------------------------- MODULE ITS --------------------------------
(***************************************************************************)
(* contracts/interchain-token-service together with the contracts it       *)
(* drives inside one transaction: the tokens (service-deployed = "native", *)
(* registered canonical = "lock"), the gas service and the gateway's       *)
(* approval table / outbound announcement.                                  *)
(*                                                                         *)
(* Token ids are injective constructors: Id(deployer, salt) and IdC(token) *)
(* are names from the catalogue `Ids`; the binding learns the bytes the     *)
(* contract derives and checks that the learned map is a function,          *)
(* injective, sensitive to every input and stable.  The native token of id  *)
(* X is the token named X.                                                  *)
(*                                                                         *)
(* Hub payloads are abstract messages (plus a mutation for malformed ones); *)
(* whether a mutated payload decodes is decided by Abi!Decode on a          *)
(* representative concretisation (canonicity does not depend on the field   *)
(* contents).  The binding checks announced bytes against its own encoder,  *)
(* which the C10 check cross-validates against Abi.tla.                     *)
(***************************************************************************)
EXTENDS Naturals, Integers, Sequences, FiniteSets, TLC

CONSTANTS
    Chains,      \* chain names that can be trusted (strings); the hub is HubChain
    Accts,       \* accounts and contracts holding balances: users, "its", "gs", receiver contracts
    Ids,         \* token id names
    IdOf,        \* [deployer -> [salt -> id]]
    IdCOf,       \* [canonical token -> id]
    Canon,       \* canonical token names (Stellar asset contract "sac", metadata-forging token "fk")
    Metas,       \* [name -> [nameLen, symLen, decimals, utf8]]   token metadata catalogue
    Deliveries,  \* [name -> [key, srcChain, srcAddr, dest, payload]]
    Payloads,    \* [name -> abstract hub payload, see PayloadOK below]
    Keys,        \* message keys of the gateway approval table
    Deviations   \* recorded defects of the code, modelled as named branches ("model what the code does, name
                 \* the deviation"): {} = the intended design, checked by TLC; the replay graph and the
                 \* trace specification run with the recorded ones switched on

HubChain == "axelar"
HubAddr == "hub"
Tokens == Ids \cup Canon

Rej(st, why, fails) ==
    [ok |-> FALSE, why |-> why, fails |-> fails, free |-> FALSE, ret |-> "none", ev |-> <<>>, post |-> st, dev |-> "none"]
Acc(st2, ret, ev) ==
    [ok |-> TRUE, why |-> "ok", fails |-> {}, free |-> FALSE, ret |-> ret, ev |-> ev, post |-> st2, dev |-> "none"]
Order == <<"role_auth", "positive_amount", "named_auth", "invalid_minter", "already_set", "not_set",
           "approved", "is_receive_from_hub", "hub_chain", "hub_address", "decodes", "origin_trusted",
           "recipient_decodes", "registered", "already_registered", "already_deployed", "metadata",
           "minter_decodes", "balance", "its_can_mint", "custody", "receiver_ok",
           "destination_trusted", "encodable", "gas_auth", "gas_positive", "gas_balance">>
First(fails) ==
    LET i == CHOOSE j \in 1..Len(Order) : Order[j] \in fails /\ \A k \in 1..(j-1) : Order[k] \notin fails
    IN Order[i]
Guarded(st, fails, okres) == IF fails = {} THEN okres ELSE Rej(st, First(fails), fails)

MetaValid(m) == Metas[m].nameLen > 0 /\ Metas[m].symLen > 0 /\ Metas[m].decimals <= 255
TokenOf(st, id) == IF st.reg[id] = "native" THEN id ELSE st.regTok[id]
MetaOfToken(st, id) ==
    IF st.reg[id] = "native" THEN st.tokMeta[id]
    ELSE IF st.regTok[id] = "fk" THEN st.fkMeta ELSE IF st.regTok[id] = "itk" THEN "itkMeta" ELSE "sacMeta"

Blank(owner) ==
    [trusted |-> [c \in Chains |-> FALSE],
     reg |-> [i \in Ids |-> "none"], regTok |-> [i \in Ids |-> "none"], tokMeta |-> [i \in Ids |-> "none"],
     bal |-> [t \in Tokens |-> [a \in Accts |-> 0]],
     minters |-> [i \in Ids |-> [a \in Accts |-> FALSE]],
     gas |-> [a \in Accts |-> 0],
     appr |-> [k \in Keys |-> "none"],
     fkMeta |-> "good", owner |-> owner]

-----------------------------------------------------------------------------
(* trusted chains *)
SetTrusted(st, a) ==
    LET fails == (IF st.owner \notin a.auth THEN {"role_auth"} ELSE {})
                 \cup (IF st.trusted[a.chain] THEN {"already_set"} ELSE {})
        res == Guarded(st, fails, Acc([st EXCEPT !.trusted[a.chain] = TRUE], "unit",
                                      <<[k |-> "trusted_chain_set", chain |-> a.chain]>>))
    IN [res EXCEPT !.free = fails = {"already_set"}]
RemoveTrusted(st, a) ==
    LET fails == (IF st.owner \notin a.auth THEN {"role_auth"} ELSE {})
                 \cup (IF ~st.trusted[a.chain] THEN {"not_set"} ELSE {})
        res == Guarded(st, fails, Acc([st EXCEPT !.trusted[a.chain] = FALSE], "unit",
                                      <<[k |-> "trusted_chain_removed", chain |-> a.chain]>>))
    IN [res EXCEPT !.free = fails = {"not_set"}]

TransferOwnership(st, a) ==
    IF st.owner \notin a.auth THEN Rej(st, "role_auth", {"role_auth"})
    ELSE Acc([st EXCEPT !.owner = a.new], "unit", <<[k |-> "ownership_transferred", prev |-> st.owner, new |-> a.new]>>)

-----------------------------------------------------------------------------
(* deploy_interchain_token(caller, salt, metadata, initial_supply, minter) *)
DeployInterchainToken(st, a, devs) ==
    LET id == IdOf[a.caller][a.salt]
        fails == (IF a.caller \notin a.auth THEN {"named_auth"} ELSE {})
                 \cup (IF a.supply <= 0 /\ a.minter = "its" THEN {"invalid_minter"} ELSE {})
                 \cup (IF st.reg[id] # "none" THEN {"already_deployed"} ELSE {})
                 \cup (IF ~MetaValid(a.meta) THEN {"metadata"} ELSE {})
        \* roles of a deployed token: owned by the service; the service and the designated minter may mint
        \* recorded deviation: with a positive supply and a third-party minter the code revokes the service
        revoked == "its_minter_revoked" \in devs /\ a.supply > 0 /\ a.minter \notin {"none", "its"}
        mint == IF revoked THEN [x \in Accts |-> x = a.minter]
                ELSE [x \in Accts |-> x = "its" \/ (a.minter # "none" /\ x = a.minter)]
        st2 == [st EXCEPT !.reg[id] = "native", !.regTok[id] = id, !.tokMeta[id] = a.meta,
                          !.minters[id] = mint,
                          !.bal[id][a.caller] = IF a.supply > 0 THEN a.supply ELSE 0]
        res0 == Guarded(st, fails, Acc(st2, id, <<>>))
        res == [res0 EXCEPT !.dev = IF res0.ok /\ revoked THEN "its_minter_revoked" ELSE "none"]
    IN \* open by the statement: a negative supply (treated as none today) and naming the service itself
       \* as minter without supply (refused today)
       [res EXCEPT !.free = (fails = {} /\ a.supply < 0) \/ fails = {"invalid_minter"}]

(* register_canonical_token(token_address): permissionless *)
RegisterCanonical(st, a) ==
    LET id == IdCOf[a.tok]
        fails == IF st.reg[id] # "none" THEN {"already_registered"} ELSE {}
    IN Guarded(st, fails, Acc([st EXCEPT !.reg[id] = "lock", !.regTok[id] = a.tok], id,
                              <<[k |-> "token_id_claimed", id |-> id]>>))

-----------------------------------------------------------------------------
(* pay_gas_and_call_contract: trusted destination, gas payment by the payer, announcement to the hub *)
OutFails(st, dest, payer, g, auth) ==
    (IF ~st.trusted[dest] THEN {"destination_trusted"} ELSE {})
    \cup (IF payer \notin auth THEN {"gas_auth"} ELSE {})
    \cup (IF g <= 0 THEN {"gas_positive"} ELSE {})
    \cup (IF g > 0 /\ st.gas[payer] < g THEN {"gas_balance"} ELSE {})
PayGas(st, payer, g) == [st EXCEPT !.gas[payer] = @ - g, !.gas["gs"] = @ + g]
OutEv(payer, g, dest, msg) ==
    <<[k |-> "gas_paid", spender |-> payer, amt |-> g],
      [k |-> "contract_called", dest |-> dest, msg |-> msg]>>

DeployRemote(st, a, payer, id, preFails) ==
    LET known == st.reg[id] # "none"
        meta == IF known THEN MetaOfToken(st, id) ELSE "none"
        fails == preFails
                 \cup (IF ~known THEN {"registered"} ELSE {})
                 \cup (IF known /\ ~MetaValid(meta) THEN {"metadata"} ELSE {})
                 \cup (IF known /\ MetaValid(meta) /\ ~Metas[meta].utf8 THEN {"encodable"} ELSE {})
                 \cup OutFails(st, a.dest, payer, a.gas, a.auth)
        msg == [inner |-> "deploy", id |-> id, meta |-> meta, minter |-> "none"]
    IN Guarded(st, fails, Acc(PayGas(st, payer, a.gas), id, OutEv(payer, a.gas, a.dest, msg)))

DeployRemoteInterchainToken(st, a) ==
    DeployRemote(st, a, a.caller, IdOf[a.caller][a.salt],
                 IF a.caller \notin a.auth THEN {"named_auth"} ELSE {})
DeployRemoteCanonical(st, a) == DeployRemote(st, a, a.spender, IdCOf[a.tok], {})

(* interchain_transfer(caller, token_id, destination_chain, destination_address, amount, data, gas_token) *)
InterchainTransfer(st, a) ==
    LET known == st.reg[a.id] # "none"
        T == IF known THEN TokenOf(st, a.id) ELSE "none"
        fails == (IF a.amt <= 0 THEN {"positive_amount"} ELSE {})
                 \cup (IF a.caller \notin a.auth THEN {"named_auth"} ELSE {})
                 \cup (IF ~known THEN {"registered"} ELSE {})
                 \cup (IF known /\ a.amt > 0 /\ st.bal[T][a.caller] < a.amt THEN {"balance"} ELSE {})
                 \cup OutFails(st, a.dest, a.caller, a.gas, a.auth)
        st1 == IF st.reg[a.id] = "native"
               THEN [st EXCEPT !.bal[T][a.caller] = @ - a.amt]                                 \* burned
               ELSE [st EXCEPT !.bal[T] = [[@ EXCEPT ![a.caller] = @ - a.amt] EXCEPT !["its"] = @ + a.amt]]  \* locked
        msg == [inner |-> "transfer", id |-> a.id, sender |-> a.caller, destAddr |-> a.destAddr,
                amt |-> a.amt, data |-> a.data]
    IN Guarded(st, fails, Acc(PayGas(st1, a.caller, a.gas), "unit", OutEv(a.caller, a.gas, a.dest, msg)))

-----------------------------------------------------------------------------
(* gateway side of an inbound delivery: approval of a message for a destination contract *)
ApproveDelivery(st, a) ==
    LET k == Deliveries[a.d].key IN
    IF st.appr[k] = "none" THEN Acc([st EXCEPT !.appr[k] = a.d], "unit", <<>>) ELSE Acc(st, "unit", <<>>)

(* payload catalogue entries:
   [outer, origin, inner = "transfer", id, sender, recipient, amt, data, decodes]
   [outer, origin, inner = "deploy", id, meta, minter, decodes]
   [outer = "short"]                      fewer than 32 bytes
   `decodes` is computed by the instance with Abi!Decode (mutated payloads);
   recipient / minter = "garbage" means bytes that are not an address. *)
IsRecv(p) == p.outer = "recv"

(* execute(source_chain, message_id, source_address, payload): D = the submitted fields, `approved` =
   the gateway holds a matching unexecuted approval for the service, `done` = state with it consumed *)
ExecuteCore(st, D, approved, done, key, devs) ==
    LET P == Payloads[D.payload]
        wrapOK == IsRecv(P)
        decoded == wrapOK /\ P.decodes
        xfer == decoded /\ P.inner = "transfer"
        depl == decoded /\ P.inner = "deploy"
        known == xfer /\ st.reg[P.id] # "none"
        T == IF known THEN TokenOf(st, P.id) ELSE "none"
        toOK == xfer /\ P.recipient \notin {"garbage", "garbageRaw"}
        fails ==
            (IF ~approved THEN {"approved"} ELSE {})
            \cup (IF ~wrapOK THEN {"is_receive_from_hub"} ELSE {})
            \cup (IF D.srcChain # HubChain THEN {"hub_chain"} ELSE {})
            \* recorded deviation: the code never compares the source address with the hub address
            \cup (IF D.srcAddr # HubAddr /\ "its_hub_address_unchecked" \notin devs THEN {"hub_address"} ELSE {})
            \cup (IF wrapOK /\ ~P.decodes THEN {"decodes"} ELSE {})
            \cup (IF decoded /\ ~st.trusted[P.origin] THEN {"origin_trusted"} ELSE {})
            \cup (IF xfer /\ ~toOK THEN {"recipient_decodes"} ELSE {})
            \cup (IF xfer /\ ~known THEN {"registered"} ELSE {})
            \cup (IF known /\ st.reg[P.id] = "native" /\ ~st.minters[T]["its"] THEN {"its_can_mint"} ELSE {})
            \cup (IF known /\ st.reg[P.id] = "lock" /\ st.bal[T]["its"] < P.amt THEN {"custody"} ELSE {})
            \cup (IF xfer /\ toOK /\ P.data # "none" /\ P.recipient # "app" THEN {"receiver_ok"} ELSE {})
            \cup (IF depl /\ st.reg[P.id] # "none" THEN {"already_deployed"} ELSE {})
            \cup (IF depl /\ ~MetaValid(P.meta) THEN {"metadata"} ELSE {})
            \cup (IF depl /\ P.minter \in {"garbage", "garbageRaw"} THEN {"minter_decodes"} ELSE {})
        give == IF st.reg[P.id] = "native"
                THEN [done EXCEPT !.bal[T][P.recipient] = @ + P.amt]                          \* minted
                ELSE [done EXCEPT !.bal[T] = [[@ EXCEPT !["its"] = @ - P.amt] EXCEPT ![P.recipient] = @ + P.amt]]  \* released
        deployed == [done EXCEPT !.reg[P.id] = "native", !.regTok[P.id] = P.id, !.tokMeta[P.id] = P.meta,
                                 !.minters[P.id] = [x \in Accts |-> x = "its" \/ (P.minter # "none" /\ x = P.minter)]]
        label == IF D.srcAddr # HubAddr THEN "its_hub_address_unchecked" ELSE "none"
    IN IF fails # {} THEN Rej(st, First(fails), fails)
       ELSE IF P.inner = "transfer"
            THEN [Acc(give, "unit",
                     <<[k |-> "delivery_executed", key |-> key],
                       [k |-> "transfer_received", origin |-> P.origin, id |-> P.id, recipient |-> P.recipient, amt |-> P.amt]>>
                     \o (IF P.data # "none"
                         THEN <<[k |-> "token_executed", app |-> P.recipient, id |-> P.id, amt |-> P.amt]>> ELSE <<>>))
                  EXCEPT !.dev = label]
            ELSE [Acc(deployed, "unit", <<[k |-> "delivery_executed", key |-> key]>>) EXCEPT !.dev = label]

(* a relayer submits the fields of catalogue delivery a.d *)
Execute(st, a, devs) ==
    LET D == Deliveries[a.d]
        cur == st.appr[D.key]
        approved == /\ cur \in DOMAIN Deliveries
                    /\ Deliveries[cur].srcChain = D.srcChain /\ Deliveries[cur].srcAddr = D.srcAddr
                    /\ Deliveries[cur].payload = D.payload /\ Deliveries[cur].dest = "its"
    IN ExecuteCore(st, D, approved, [st EXCEPT !.appr[D.key] = "executed"], D.key, devs)

(* a hub delivery under a fresh message id, approved for the service and executed at once (instances
   whose subject is not the approval table use it to feed inbound messages without tracking ids) *)
Deliver(st, a, devs) ==
    ExecuteCore(st, [srcChain |-> IF "srcChain" \in DOMAIN a THEN a.srcChain ELSE HubChain,
                     srcAddr |-> IF "srcAddr" \in DOMAIN a THEN a.srcAddr ELSE HubAddr,
                     payload |-> a.payload], TRUE, st, "fresh", devs)

-----------------------------------------------------------------------------
(* contracts/example: send(caller, destination_chain, destination_address, message, gas_token):
   pays gas from the caller and announces the call in its own name *)
ExampleSend(st, a) ==
    LET fails == (IF a.caller \notin a.auth THEN {"named_auth"} ELSE {})
                 \cup (IF a.gas <= 0 THEN {"gas_positive"} ELSE {})
                 \cup (IF a.gas > 0 /\ st.gas[a.caller] < a.gas THEN {"gas_balance"} ELSE {})
    IN Guarded(st, fails, Acc(PayGas(st, a.caller, a.gas), "unit",
                              <<[k |-> "gas_paid", spender |-> a.caller, amt |-> a.gas], [k |-> "app_called", app |-> "ex"]>>))

(* actions of other parties on the tokens (instances use them to build histories) *)
MinterMint(st, a) ==       \* token.mint_from(minter, to, amount) by a designated minter of a native token
    LET fails == (IF a.minter \notin a.auth THEN {"named_auth"} ELSE {})
                 \cup (IF ~st.minters[a.id][a.minter] THEN {"is_minter"} ELSE {})
    IN IF fails # {} THEN Rej(st, IF "named_auth" \in fails THEN "named_auth" ELSE "is_minter", fails)
       ELSE Acc([st EXCEPT !.bal[a.id][a.to] = @ + a.amt], "unit", <<>>)
SetFakeMeta(st, a) == Acc([st EXCEPT !.fkMeta = a.meta], "unit", <<>>)

ApplyD(st, a, devs) ==
    CASE a.name = "SetTrusted"                   -> SetTrusted(st, a)
      [] a.name = "RemoveTrusted"                -> RemoveTrusted(st, a)
      [] a.name = "TransferOwnership"            -> TransferOwnership(st, a)
      [] a.name = "DeployInterchainToken"        -> DeployInterchainToken(st, a, devs)
      [] a.name = "RegisterCanonical"            -> RegisterCanonical(st, a)
      [] a.name = "DeployRemoteInterchainToken"  -> DeployRemoteInterchainToken(st, a)
      [] a.name = "DeployRemoteCanonical"        -> DeployRemoteCanonical(st, a)
      [] a.name = "InterchainTransfer"           -> InterchainTransfer(st, a)
      [] a.name = "ApproveDelivery"              -> ApproveDelivery(st, a)
      [] a.name = "Execute"                      -> Execute(st, a, devs)
      [] a.name = "Deliver"                      -> Deliver(st, a, devs)
      [] a.name = "MinterMint"                   -> MinterMint(st, a)
      [] a.name = "ExampleSend"                  -> ExampleSend(st, a)
      [] a.name = "SetFakeMeta"                  -> SetFakeMeta(st, a)
      \* verification hook (harness only): the Upgradable interface's migration window is opened without swapping
      \* code; nothing else in this module may depend on it
      [] a.name = "HookOpenWindow"               -> Acc(st, "unit", <<>>)

Apply(st, a) == ApplyD(st, a, Deviations)        \* what the code does (with the recorded deviations)
ApplyIntended(st, a) == ApplyD(st, a, {})        \* the design

-----------------------------------------------------------------------------
RECURSIVE SumOver(_, _)
SumOver(f, S) == IF S = {} THEN 0 ELSE LET x == CHOOSE y \in S : TRUE IN f[x] + SumOver(f, S \ {x})
Supply(st, t) == SumOver(st.bal[t], Accts)

(* C11: once an id is registered, its token and manager type never change *)
WriteOnce(st, r) == \A i \in Ids : st.reg[i] # "none" => (r.post.reg[i] = st.reg[i] /\ r.post.regTok[i] = st.regTok[i])
(* every registered native token is owned by the service, which can mint for inbound transfers *)
ServiceCanMint(st) == \A i \in Ids : st.reg[i] = "native" => st.minters[i]["its"]
NonNegative(st) == (\A t \in Tokens, x \in Accts : st.bal[t][x] >= 0) /\ (\A x \in Accts : st.gas[x] >= 0)

-----------------------------------------------------------------------------
(* Composition with Token.tla and GasService.tla.  This module folds the ledgers of the tokens it deploys
   and of the gas service into its own state.  The two step properties below say that this folding is
   faithful: every successful step of the service moves each service-deployed token exactly as the listed
   calls of Token.tla do (all of which Token.tla accepts), and moves the gas ledger exactly as
   GasService!PayGas does.  TLC checks them on the ITS instances, so a change to Token.tla or
   GasService.tla that the service's model does not follow is a specification error, not a silent drift. *)
Tok == INSTANCE Token WITH Cap <- 0, MaxLive <- 6311999
GS == INSTANCE GasService WITH Tokens <- {"gas"}

TokState(st, T) ==
    [bal |-> st.bal[T], allow |-> [f \in Accts |-> [x \in Accts |-> [amt |-> 0, exp |-> 0]]],
     minters |-> st.minters[T], owner |-> "its", seq |-> 1]
RECURSIVE TokRun(_, _)
TokRun(ts, acts) ==
    IF acts = <<>> THEN [ok |-> TRUE, st |-> ts]
    ELSE LET r == Tok!Apply(ts, Head(acts)) IN
         IF ~r.ok THEN [ok |-> FALSE, st |-> ts] ELSE TokRun(r.post, Tail(acts))
InboundPayload(a) ==
    IF a.name = "Execute" THEN Payloads[Deliveries[a.d].payload]
    ELSE IF a.name = "Deliver" THEN Payloads[a.payload] ELSE [inner |-> "none", id |-> "none"]
(* the calls the service makes on the EXISTING service-deployed token T during action a *)
TokCalls(st, a, T) ==
    LET P == InboundPayload(a) IN
    CASE a.name = "InterchainTransfer" /\ a.id = T ->
            <<[name |-> "Burn", from |-> a.caller, amt |-> a.amt, auth |-> {a.caller}]>>
      [] a.name \in {"Execute", "Deliver"} /\ P.inner = "transfer" /\ P.id = T ->
            <<[name |-> "MintFrom", minter |-> "its", to |-> P.recipient, amt |-> P.amt, auth |-> {"its"}]>>
      [] a.name = "MinterMint" /\ a.id = T ->
            <<[name |-> "MintFrom", minter |-> a.minter, to |-> a.to, amt |-> a.amt, auth |-> a.auth]>>
      [] OTHER -> <<>>
(* the constructor arguments and the calls that follow when action a creates the token T *)
TokBirth(a, T, devs) ==
    LET P == InboundPayload(a) IN
    IF a.name = "DeployInterchainToken"
    THEN LET third == a.minter \notin {"none", "its"} IN
         [minter |-> IF a.supply > 0 THEN "its" ELSE a.minter,
          calls |-> IF a.supply > 0
                    THEN <<[name |-> "Mint", to |-> a.caller, amt |-> a.supply, auth |-> {"its"}]>>
                         \o (IF third /\ "its_minter_revoked" \in devs
                             THEN <<[name |-> "RemoveMinter", minter |-> "its", auth |-> {"its"}]>> ELSE <<>>)
                         \o (IF third THEN <<[name |-> "AddMinter", minter |-> a.minter, auth |-> {"its"}]>> ELSE <<>>)
                    ELSE <<>>]
    ELSE [minter |-> P.minter, calls |-> <<>>]       \* deployed by an inbound hub message
TokenRefines(st, a, r, devs) ==
    r.ok => \A T \in Ids :
        IF st.reg[T] = "native"
        THEN LET run == TokRun(TokState(st, T), TokCalls(st, a, T)) IN run.ok /\ run.st = TokState(r.post, T)
        ELSE r.post.reg[T] = "native" =>
                LET b == TokBirth(a, T, devs)
                    run == TokRun(Tok!Blank("its", b.minter, 1), b.calls) IN
                run.ok /\ run.st = TokState(r.post, T)

GasState(st) == [bal |-> [t \in {"gas"} |-> st.gas], collector |-> "collector", owner |-> "gsowner"]
GasCalls(a) ==
    CASE a.name \in {"InterchainTransfer", "DeployRemoteInterchainToken", "ExampleSend"} ->
            <<[name |-> "PayGas", sender |-> "its", spender |-> a.caller, token |-> "gas", amt |-> a.gas, auth |-> {a.caller}]>>
      [] a.name = "DeployRemoteCanonical" ->
            <<[name |-> "PayGas", sender |-> "its", spender |-> a.spender, token |-> "gas", amt |-> a.gas, auth |-> {a.spender}]>>
      [] OTHER -> <<>>
GasRefines(st, a, r) ==
    r.ok => LET calls == GasCalls(a) IN
            IF calls = <<>> THEN r.post.gas = st.gas
            ELSE LET g == GS!Apply(GasState(st), calls[1]) IN g.ok /\ g.post.bal["gas"] = r.post.gas
=============================================================================
