-------------------------------- MODULE Abi --------------------------------
(***************************************************************************)
(* Solidity ABI of the four ITS hub-message structs, transcribed from the   *)
(* ABI specification (head/tail encoding of tuples of static and dynamic    *)
(* members); no implementation is consulted.  Byte strings are sequences of *)
(* 0..255; text is carried as UTF-8 bytes; the 128-bit amount is carried as *)
(* its 16 big-endian bytes (TLC integers are 32 bit).                       *)
(*                                                                         *)
(*   InterchainTransfer   (uint256 type=0, bytes32 tokenId, bytes src,      *)
(*                         bytes dst, uint256 amount, bytes data)           *)
(*   DeployInterchainToken(uint256 type=1, bytes32 tokenId, string name,    *)
(*                         string symbol, uint8 decimals, bytes minter)     *)
(*   SendToHub / ReceiveFromHub (uint256 type=3|4, string chain, bytes msg) *)
(*                                                                         *)
(* A message is a record                                                    *)
(*   [outer, chain, inner = "transfer", tokenId, src, dst, amount, data]    *)
(*   [outer, chain, inner = "deploy", tokenId, name, symbol, decimals,      *)
(*    minter]                                                               *)
(* An absent optional (data, minter) is the empty byte string.              *)
(***************************************************************************)
EXTENDS Naturals, Sequences, FiniteSets, TLC

Err == [err |-> TRUE]
IsErr(x) == "err" \in DOMAIN x

Zeros(n) == [i \in 1..n |-> 0]
Pow256(k) == IF k = 0 THEN 1 ELSE IF k = 1 THEN 256 ELSE IF k = 2 THEN 65536 ELSE 16777216
(* 32-byte big-endian word of a small natural (< 2^31) *)
Word(n) == [i \in 1..32 |-> IF i <= 28 THEN 0 ELSE (n \div Pow256(32 - i)) % 256]
PadLen(n) == ((n + 31) \div 32) * 32
PadRight(b) == b \o Zeros(PadLen(Len(b)) - Len(b))
EncBytes(b) == Word(Len(b)) \o PadRight(b)

TypeTag(kind) == CASE kind = "transfer" -> 0 [] kind = "deploy" -> 1 [] kind = "send" -> 3 [] kind = "recv" -> 4

(* well-formed UTF-8 (RFC 3629: shortest form, no surrogates, <= U+10FFFF) *)
RECURSIVE Utf8From(_, _)
Utf8From(b, i) ==
    IF i > Len(b) THEN TRUE
    ELSE LET c == b[i]
             Cont(j) == j <= Len(b) /\ b[j] >= 128 /\ b[j] <= 191
         IN IF c <= 127 THEN Utf8From(b, i + 1)
            ELSE IF c >= 194 /\ c <= 223 THEN Cont(i + 1) /\ Utf8From(b, i + 2)
            ELSE IF c = 224 THEN Cont(i + 1) /\ b[i + 1] >= 160 /\ Cont(i + 2) /\ Utf8From(b, i + 3)
            ELSE IF (c >= 225 /\ c <= 236) \/ c = 238 \/ c = 239 THEN Cont(i + 1) /\ Cont(i + 2) /\ Utf8From(b, i + 3)
            ELSE IF c = 237 THEN Cont(i + 1) /\ b[i + 1] <= 159 /\ Cont(i + 2) /\ Utf8From(b, i + 3)
            ELSE IF c = 240 THEN Cont(i + 1) /\ b[i + 1] >= 144 /\ Cont(i + 2) /\ Cont(i + 3) /\ Utf8From(b, i + 4)
            ELSE IF c >= 241 /\ c <= 243 THEN Cont(i + 1) /\ Cont(i + 2) /\ Cont(i + 3) /\ Utf8From(b, i + 4)
            ELSE IF c = 244 THEN Cont(i + 1) /\ b[i + 1] <= 143 /\ Cont(i + 2) /\ Cont(i + 3) /\ Utf8From(b, i + 4)
            ELSE FALSE
Utf8Valid(b) == Utf8From(b, 1)

(* what can be encoded at all *)
Representable(m) ==
    /\ Utf8Valid(m.chain)
    /\ Len(m.tokenId) = 32
    /\ IF m.inner = "transfer"
       THEN Len(m.amount) = 16 /\ m.amount[1] <= 127          \* 0 .. 2^127-1
       ELSE Utf8Valid(m.name) /\ Utf8Valid(m.symbol) /\ m.decimals \in 0..255

-----------------------------------------------------------------------------
EncInner(m) ==
    IF m.inner = "transfer"
    THEN LET o1 == 192
             o2 == o1 + 32 + PadLen(Len(m.src))
             o3 == o2 + 32 + PadLen(Len(m.dst))
         IN Word(0) \o m.tokenId \o Word(o1) \o Word(o2) \o (Zeros(16) \o m.amount) \o Word(o3)
            \o EncBytes(m.src) \o EncBytes(m.dst) \o EncBytes(m.data)
    ELSE LET o1 == 192
             o2 == o1 + 32 + PadLen(Len(m.name))
             o3 == o2 + 32 + PadLen(Len(m.symbol))
         IN Word(1) \o m.tokenId \o Word(o1) \o Word(o2) \o Word(m.decimals) \o Word(o3)
            \o EncBytes(m.name) \o EncBytes(m.symbol) \o EncBytes(m.minter)

Encode(m) ==
    LET inner == EncInner(m) IN
    Word(TypeTag(m.outer)) \o Word(96) \o Word(96 + 32 + PadLen(Len(m.chain)))
    \o EncBytes(m.chain) \o EncBytes(inner)

-----------------------------------------------------------------------------
(* decoding: a lenient parse that follows the offsets, then the canonical check
   "re-encoding reproduces the input exactly" *)
Slice(b, from, len) == SubSeq(b, from + 1, from + len)       \* 0-based offset
IsSmallWord(b, off) ==                                        \* value < 2^31
    /\ off + 32 <= Len(b)
    /\ \A i \in 1..28 : b[off + i] = 0
    /\ b[off + 29] <= 127
WordVal(b, off) == b[off + 29] * 16777216 + b[off + 30] * 65536 + b[off + 31] * 256 + b[off + 32]

HasDyn(b, off) ==
    /\ off + 32 <= Len(b) /\ IsSmallWord(b, off)
    /\ off + 32 + WordVal(b, off) <= Len(b)
Dyn(b, off) == Slice(b, off + 32, WordVal(b, off))

ParseInner(b) ==
    IF Len(b) < 192 \/ ~IsSmallWord(b, 0) \/ WordVal(b, 0) \notin {0, 1} THEN Err
    ELSE IF ~(IsSmallWord(b, 64) /\ IsSmallWord(b, 96) /\ IsSmallWord(b, 160)) THEN Err
    ELSE LET o1 == WordVal(b, 64)  o2 == WordVal(b, 96)  o3 == WordVal(b, 160) IN
         IF ~(HasDyn(b, o1) /\ HasDyn(b, o2) /\ HasDyn(b, o3)) THEN Err
         ELSE IF WordVal(b, 0) = 0
              THEN IF \E i \in 1..16 : b[128 + i] # 0 THEN Err
                   ELSE [inner |-> "transfer", tokenId |-> Slice(b, 32, 32), src |-> Dyn(b, o1), dst |-> Dyn(b, o2),
                         amount |-> Slice(b, 144, 16), data |-> Dyn(b, o3)]
              ELSE IF ~IsSmallWord(b, 128) \/ WordVal(b, 128) > 255 THEN Err
                   ELSE [inner |-> "deploy", tokenId |-> Slice(b, 32, 32), name |-> Dyn(b, o1), symbol |-> Dyn(b, o2),
                         decimals |-> WordVal(b, 128), minter |-> Dyn(b, o3)]

Merge(outer, chain, im) ==
    IF im.inner = "transfer"
    THEN [outer |-> outer, chain |-> chain, inner |-> "transfer", tokenId |-> im.tokenId, src |-> im.src,
          dst |-> im.dst, amount |-> im.amount, data |-> im.data]
    ELSE [outer |-> outer, chain |-> chain, inner |-> "deploy", tokenId |-> im.tokenId, name |-> im.name,
          symbol |-> im.symbol, decimals |-> im.decimals, minter |-> im.minter]

LenientParse(b) ==
    IF Len(b) < 96 \/ ~IsSmallWord(b, 0) \/ WordVal(b, 0) \notin {3, 4} THEN Err
    ELSE IF ~(IsSmallWord(b, 32) /\ IsSmallWord(b, 64)) THEN Err
    ELSE LET o1 == WordVal(b, 32)  o2 == WordVal(b, 64) IN
         IF ~(HasDyn(b, o1) /\ HasDyn(b, o2)) THEN Err
         ELSE LET im == ParseInner(Dyn(b, o2)) IN
              IF IsErr(im) THEN Err
              ELSE Merge(IF WordVal(b, 0) = 3 THEN "send" ELSE "recv", Dyn(b, o1), im)

Decode(b) ==
    LET m == LenientParse(b) IN
    IF IsErr(m) THEN Err
    ELSE IF Representable(m) /\ Encode(m) = b THEN m ELSE Err
=============================================================================
