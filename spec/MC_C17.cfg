CONSTANTS
  Accts = {"a", "b", "c", "owner0", "carol"}
INIT Init
NEXT Next
CHECK_DEADLOCK FALSE
INVARIANTS
  C17_Member
  C17_SetChange
  C17_Forward
  C17_Frame
  Dump
