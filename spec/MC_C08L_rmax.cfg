CONSTANTS
  Sets <- MC_Sets
  Keys <- MC_Keys
  Msgs <- MC_Msgs
  Cap = 1000
  Retention = 2147483647
  MinDelay = 0
  MaxEpoch = 24
INIT Init
NEXT Next
CHECK_DEADLOCK FALSE
INVARIANTS
  Types
  C08_Window
  Dump
