------------------------------- MODULE MC_C03 -------------------------------
(* C03: rotation installs only well-formed, never-installed sets, authorised by *)
(* a valid proof over exactly that set from the latest signers (or any retained  *)
(* set under operator bypass); epoch +1, lookups mutually inverse; failures and  *)
(* failed constructions change nothing.                                          *)
(* Bounded instance: candidate catalogue with every malformation the statement   *)
(* names (weights on the u128 lattice, Cap = 15 <=> u128::MAX), five well-formed  *)
(* sets (so histories of up to 4 successful rotations incl. repeats of earlier    *)
(* sets), proofs from every installed epoch / an unknown set / over another       *)
(* candidate / with the approval command tag, bypass x operator authorisation,    *)
(* and every initial-set list shape at construction.                              *)
EXTENDS Gateway, Json
VARIABLE st

MC_Sets ==
  [s0      |-> [keys |-> <<1, 2>>,    weights |-> <<1, 1>>,    threshold |-> 2,  nonce |-> 0],
   v1      |-> [keys |-> <<1, 2, 3>>, weights |-> <<1, 2, 1>>, threshold |-> 3,  nonce |-> 1],
   v2      |-> [keys |-> <<2>>,       weights |-> <<5>>,       threshold |-> 5,  nonce |-> 2],
   v3      |-> [keys |-> <<1, 2>>,    weights |-> <<1, 1>>,    threshold |-> 2,  nonce |-> 7],
   okcap   |-> [keys |-> <<3, 4>>,    weights |-> <<8, 7>>,    threshold |-> 15, nonce |-> 3],
   eEmpty  |-> [keys |-> <<>>,        weights |-> <<>>,        threshold |-> 1,  nonce |-> 4],
   eZero   |-> [keys |-> <<0, 1>>,    weights |-> <<1, 1>>,    threshold |-> 1,  nonce |-> 4],
   eDup    |-> [keys |-> <<1, 1>>,    weights |-> <<1, 1>>,    threshold |-> 1,  nonce |-> 4],
   eDesc   |-> [keys |-> <<2, 1>>,    weights |-> <<1, 1>>,    threshold |-> 1,  nonce |-> 4],
   eZeroW  |-> [keys |-> <<1, 2>>,    weights |-> <<1, 0>>,    threshold |-> 1,  nonce |-> 4],
   eOvf    |-> [keys |-> <<1, 2>>,    weights |-> <<8, 8>>,    threshold |-> 1,  nonce |-> 4],
   \* the sum passes u128::MAX at an addition that is not the last one
   eOvfMid |-> [keys |-> <<1, 2, 3>>, weights |-> <<8, 8, 1>>, threshold |-> 1,  nonce |-> 4],
   eOvfFst |-> [keys |-> <<1, 2, 3>>, weights |-> <<15, 1, 1>>, threshold |-> 2, nonce |-> 4],
   eThr0   |-> [keys |-> <<1, 2>>,    weights |-> <<1, 1>>,    threshold |-> 0,  nonce |-> 4],
   eThrGt  |-> [keys |-> <<1, 2>>,    weights |-> <<1, 1>>,    threshold |-> 3,  nonce |-> 4]]
MC_Keys == [k1 |-> [chain |-> "c", id |-> "1"]]
MC_Msgs == [m1 |-> [key |-> "k1", src |-> "sA", dest |-> "app1", ph |-> "p1"]]

Valid == {s \in SetNames : WellFormed(Sets[s])}
MaxEpoch == 5

AllValid(s) == [i \in 1..Len(Sets[s].keys) |-> "Valid"]
AllTag(s, t) == [i \in 1..Len(Sets[s].keys) |-> t]

Proofs(s) ==
    \* a full proof from the set installed at every epoch (latest / retained / expired)
    {[set |-> s.hashByEpoch[e], sigs |-> AllValid(s.hashByEpoch[e])] : e \in 1..s.epoch}
    \* a well-formed set that was never installed signs for itself
    \cup {[set |-> u, sigs |-> AllValid(u)] : u \in {x \in Valid : s.epochOf[x] = 0 /\
                \A y \in Valid : s.epochOf[y] = 0 => Sets[x].nonce <= Sets[y].nonce}}
    \* the latest signers sign something else: another candidate, or the approval command
    \cup {[set |-> s.hashByEpoch[s.epoch], sigs |-> AllTag(s.hashByEpoch[s.epoch], t)] :
                t \in {"WrongData", "WrongCommand"}}

RotActs(s) ==
    {[name |-> "RotateSigners", new |-> c, proof |-> p, bypass |-> b, auth |-> au] :
        c \in SetNames, p \in Proofs(s),
        b \in BOOLEAN, au \in {{}, {"op0"}}}

Lists ==
    {<<>>, <<"s0">>, <<"s0", "v1">>, <<"s0", "v1", "v2">>, <<"s0", "s0">>, <<"s0", "v1", "s0">>}
    \cup {<<e>> : e \in SetNames \ Valid}
    \cup {<<"s0", e>> : e \in {"eDesc", "eOvf", "eOvfMid", "eThr0"}}
    \cup {<<e, "s0">> : e \in {"eZero", "eZeroW", "eThrGt"}}
    \cup {<<"s0", "v1", e>> : e \in {"eEmpty", "eDup"}}

Acts(s) ==
    IF ~s.deployed
    THEN {[name |-> "Construct", sets |-> l] : l \in Lists}
    ELSE IF s.epoch >= MaxEpoch THEN {}
    ELSE {a \in RotActs(s) : a.bypass \/ a.auth = {}}

Init == st = Blank("owner0", "op0", 0)
Next == \E a \in Acts(st) : st' = Apply(st, a).post

-----------------------------------------------------------------------------
Step(P(_, _, _)) == \A a \in Acts(st) : P(st, a, Apply(st, a))

Advance(s, a, r) ==
    (a.name = "RotateSigners" /\ r.ok) =>
        /\ r.post.epoch = s.epoch + 1
        /\ r.post.hashByEpoch = Append(s.hashByEpoch, a.new)
        /\ r.post.epochOf = [s.epochOf EXCEPT ![a.new] = s.epoch + 1]
        /\ r.ev = <<[k |-> "signers_rotated", epoch |-> s.epoch + 1, set |-> a.new]>>
OnlyIf(s, a, r) ==
    (a.name = "RotateSigners" /\ r.ok) =>
        LET vp == ValidateProof(s, a.proof) IN
        /\ WellFormed(Sets[a.new])
        /\ s.epochOf[a.new] = 0
        /\ vp.ok /\ (vp.latest \/ (a.bypass /\ s.operator \in a.auth))
ConstructOnlyIf(s, a, r) ==
    (a.name = "Construct" /\ r.ok) =>
        /\ a.sets # <<>>
        /\ \A i \in 1..Len(a.sets) : WellFormed(Sets[a.sets[i]])
        /\ \A i, j \in 1..Len(a.sets) : i # j => a.sets[i] # a.sets[j]
        /\ r.post.hashByEpoch = a.sets /\ r.post.epoch = Len(a.sets)
Frame(s, a, r) == ~r.ok => r.post = s /\ r.ev = <<>>

C03_Advance == Step(Advance)
C03_OnlyIf == Step(OnlyIf)
C03_ConstructOnlyIf == Step(ConstructOnlyIf)
C03_Frame == Step(Frame)
C03_Inverse == LookupsInverse(st)
C03_InstalledWellFormed == InstalledWellFormed(st)
Types == TypeOK(st)

-----------------------------------------------------------------------------
Inst == [module |-> "Gateway", Sets |-> Sets, Keys |-> Keys, Msgs |-> Msgs, Cap |-> Cap,
         Retention |-> Retention, MinDelay |-> MinDelay, Probes |-> <<>>,
         scale |-> [Q |-> "Q128_15", Qt |-> 1, t0 |-> 1000000]]
ASSUME PrintT(<<"INST", ToJson(Inst)>>)
Dump == \A a \in Acts(st) :
    LET r == Apply(st, a) IN
    PrintT(<<"EDGE", ToJson([pre |-> st, act |-> a,
                             exp |-> [ok |-> r.ok, why |-> r.why, fails |-> r.fails, free |-> r.free,
                                      ret |-> r.ret, ev |-> r.ev],
                             post |-> r.post])>>)
=============================================================================
