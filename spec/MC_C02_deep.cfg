CONSTANTS
  Sets <- MC_Sets
  Keys <- MC_Keys
  Msgs <- MC_Msgs
  Cap = 1000
  Retention = 1
  MinDelay = 0
  Deep = TRUE
INIT Init
NEXT Next
CHECK_DEADLOCK FALSE
INVARIANTS
  Types
  C02_Monotone
  C02_ContentFrozen
  C02_ApprovalEvents
  C02_ExecOnlyByDestination
  C02_ConsumeTrueIffMatch
  C02_RejectFrame
  C02_ExecOnce
  C02_KeysDistinct
  Dump
