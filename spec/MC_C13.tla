------------------------------- MODULE MC_C13 -------------------------------
(* C13: every successful outbound call emits exactly one announcement carrying  *)
(* the authorised sender, destination chain and address, the full payload and    *)
(* the Keccak-256 hash of exactly that payload, and changes no gateway state; a   *)
(* call the sender did not authorise emits nothing.                               *)
(* Instance: senders = an account (root call), a contract calling for itself, a   *)
(* contract calling in the name of an account; authorisers = sender / somebody    *)
(* else / nobody; destination strings empty, 300 characters, multi-byte UTF-8;    *)
(* payloads of 0, 1, 31, 32, 33 and 20480 bytes.  The spec says `ph = payload`    *)
(* (hash as injective constructor); the binding maps the published hash back to   *)
(* a payload name only if it equals an independent Keccak-256 of those bytes.     *)
EXTENDS Gateway, Json
VARIABLE st

\* a gateway with some history behind it: five signer sets installed (more than retention + 3), one approved and
\* one executed message - "changes no gateway state" is about all of it
MC_Sets == [s1 |-> [keys |-> <<1, 2>>, weights |-> <<1, 1>>, threshold |-> 2, nonce |-> 0],
            s2 |-> [keys |-> <<1, 2>>, weights |-> <<1, 1>>, threshold |-> 2, nonce |-> 1],
            s3 |-> [keys |-> <<2, 3>>, weights |-> <<1, 1>>, threshold |-> 1, nonce |-> 2],
            s4 |-> [keys |-> <<1, 3>>, weights |-> <<2, 1>>, threshold |-> 2, nonce |-> 3],
            s5 |-> [keys |-> <<4>>,    weights |-> <<1>>,    threshold |-> 1, nonce |-> 4]]
MC_Keys == [k1 |-> [chain |-> "c", id |-> "1"]]
MC_Msgs == [m1 |-> [key |-> "k1", src |-> "sA", dest |-> "app1", ph |-> "P1"]]

Payloads == [P0 |-> [len |-> 0, pat |-> "asc"], P1 |-> [len |-> 1, pat |-> "asc"],
             P31 |-> [len |-> 31, pat |-> "asc"], P32 |-> [len |-> 32, pat |-> "ff"],
             P33 |-> [len |-> 33, pat |-> "asc"], Pbig |-> [len |-> 20480, pat |-> "asc"],
             P32z |-> [len |-> 32, pat |-> "zero"], Phuge |-> [len |-> 65537, pat |-> "asc"]]
Strings == [empty |-> [len |-> 0, kind |-> "ascii"], long300 |-> [len |-> 300, kind |-> "ascii"],
            utf8 |-> [len |-> 12, kind |-> "utf8"],
            \* upper and lower case, digits, blanks (leading / trailing), punctuation, a NUL byte
            mixed |-> [len |-> 19, kind |-> "mixed"]]
Chains == {"empty", "long300", "utf8", "ethereum", "Ethereum", "mixed"}
\* "selfaddr": the destination address is the textual form of the sender's own address
Addrs == {"empty", "0xabc", "utf8", "0xABCdef", "mixed", "selfaddr"}

Senders ==
    {[caller |-> "alice", via |-> "direct", through |-> "none", auth |-> au] : au \in {{"alice"}, {"bob"}, {}, {"alice", "bob"}}}
    \cup {[caller |-> "pr1", via |-> "self", through |-> "none", auth |-> {}]}
    \* the gateway's own address named as sender by an outside caller: nobody authorised it
    \cup {[caller |-> "gateway", via |-> "direct", through |-> "none", auth |-> au] : au \in {{}, {"bob"}}}
    \cup {[caller |-> "alice", via |-> "other", through |-> "pr1", auth |-> au] : au \in {{"alice"}, {"bob"}, {}}}

\* a calling contract repeats the very same call within one transaction: announced every time
RepeatActs ==
    {[name |-> "CallContract", caller |-> "pr1", via |-> "self", through |-> "none", auth |-> {}, times |-> n,
      chain |-> "ethereum", addr |-> "0xabc", payload |-> p] : n \in {2, 3}, p \in {"P1", "P0"}}

Acts(s) ==
    {[name |-> "CallContract", caller |-> x.caller, via |-> x.via, through |-> x.through, auth |-> x.auth,
      chain |-> c, addr |-> d, payload |-> p] :
        x \in Senders, c \in Chains, d \in Addrs, p \in DOMAIN Payloads}
    \cup RepeatActs
    \cup {[name |-> "HookOpenWindow"]}

InitState == [Install(Install(Install(Install(Install(Blank("owner0", "op0", 0), "s1"), "s2"), "s3"), "s4"), "s5")
                 EXCEPT !.deployed = TRUE]
(* `win`: the Upgradable interface's migration window is open (instance-level ghost: not part of Gateway.tla's state,
   not observable; set by the verification hook).  Every action is explored with the window closed AND open. *)
WithWin(s, w) == [f \in DOMAIN s \cup {"win"} |-> IF f = "win" THEN w ELSE s[f]]
ApplyW(s, a) ==
    IF a.name = "HookOpenWindow"
    THEN [ok |-> TRUE, why |-> "ok", fails |-> {}, free |-> FALSE, ret |-> "unit", ev |-> <<>>, post |-> [s EXCEPT !.win = TRUE]]
    ELSE Apply(s, a)
Init == st = WithWin(InitState, FALSE)
Next == \E a \in Acts(st) : st' = ApplyW(st, a).post

-----------------------------------------------------------------------------
Step(P(_, _, _)) == \A a \in Acts(st) : a.name # "HookOpenWindow" => P(st, a, ApplyW(st, a))
Announce(s, a, r) ==
    r.ok => /\ Len(r.ev) = (IF "times" \in DOMAIN a THEN a.times ELSE 1)
            /\ \A i \in DOMAIN r.ev : r.ev[i] = [k |-> "contract_called", caller |-> a.caller, chain |-> a.chain, addr |-> a.addr,
                                                 payload |-> a.payload, ph |-> a.payload]
            /\ r.post = s
OnlyAuthorised(s, a, r) == r.ok <=> (a.caller \in a.auth \/ a.via = "self")
Silent(s, a, r) == ~r.ok => r.ev = <<>> /\ r.post = s

C13_Announce == Step(Announce)
C13_OnlyAuthorised == Step(OnlyAuthorised)
C13_Silent == Step(Silent)
Types == TypeOK(st)

-----------------------------------------------------------------------------
Inst == [module |-> "Gateway", Sets |-> Sets, Keys |-> Keys, Msgs |-> Msgs, Cap |-> Cap,
         Retention |-> Retention, MinDelay |-> MinDelay, Probes |-> <<"pr1">>,
         Payloads |-> Payloads, Strings |-> Strings,
         scale |-> [Q |-> "1", Qt |-> "1", t0 |-> 1000000]]
ASSUME PrintT(<<"INST", ToJson(Inst)>>)
Dump == \A a \in Acts(st) :
    LET r == ApplyW(st, a) IN
    PrintT(<<"EDGE", ToJson([pre |-> st, act |-> a,
                             exp |-> [ok |-> r.ok, why |-> r.why, fails |-> r.fails, free |-> r.free,
                                      ret |-> r.ret, ev |-> r.ev],
                             post |-> r.post])>>)
=============================================================================
