------------------------------ MODULE TraceITS ------------------------------
(* Trace validation (impl -> spec) for the interchain token service together with  *)
(* its tokens, the gas service and the gateway announcements: every logged call      *)
(* must be a step of ITS!Apply from the logged pre-state.  The catalogue (ids,        *)
(* metadata, payloads with their mutations) comes from the first line of the log;     *)
(* whether a payload decodes is decided here by Abi!Decode.                            *)
EXTENDS ITSMC, IOUtils
Rec == ndJsonDeserialize(IOEnv.TRACE)
TInst == Rec[1]
TChains == ToSet(TInst.Chains)
TAccts == ToSet(TInst.Accts)
TIds == ToSet(TInst.Ids)
TIdOf == TInst.IdOf
TIdCOf == TInst.IdCOf
TCanon == ToSet(TInst.Canon)
TMetas == TInst.Metas
TDeliveries == TInst.Deliveries
TPayloads == WithDecodes(TInst.Payloads)
TKeys == ToSet(TInst.Keys)
NLines == Len(Rec)
VARIABLES l, bad, prev

StateOf(p) == [trusted |-> p.trusted, reg |-> p.reg, regTok |-> p.regTok, tokMeta |-> p.tokMeta, bal |-> p.bal,
               minters |-> p.minters, gas |-> p.gas, appr |-> p.appr, fkMeta |-> p.fkMeta, owner |-> p.owner]
ActOf(a) == IF "auth" \in DOMAIN a THEN [a EXCEPT !.auth = ToSet(a.auth)] ELSE a
SameBag(s, t) ==
    /\ Len(s) = Len(t)
    /\ \A i \in DOMAIN s : Cardinality({j \in DOMAIN s : s[j] = s[i]}) = Cardinality({j \in DOMAIN t : t[j] = s[i]})
OwnKinds == {"contract_called", "gas_paid", "delivery_executed", "transfer_received", "token_executed",
             "trusted_chain_set", "trusted_chain_removed", "token_id_claimed", "ownership_transferred", "app_called"}
Own(ev) == SelectSeq(ev, LAMBDA e : e.k \in OwnKinds)
FieldNames == {"trusted", "reg", "regTok", "tokMeta", "bal", "minters", "gas", "fkMeta", "owner", "tokOwner", "tokSelfId", "idcheck", "wiring"}
(* `idcheck` and `wiring` are constants the contract reports about itself: what counts for a step is that it does
   not change them (a value that is already wrong after deployment is reported once, at the reset line) *)
Diffs(sp, pre, post) ==
    LET o == Obs(sp) IN
    {f \in FieldNames :
        CASE f = "trusted" -> o.trusted # post.trusted [] f = "reg" -> o.reg # post.reg
          [] f = "regTok" -> o.regTok # post.regTok [] f = "tokMeta" -> o.tokMeta # post.tokMeta
          [] f = "bal" -> o.bal # post.bal [] f = "minters" -> o.minters # post.minters
          [] f = "gas" -> o.gas # post.gas [] f = "fkMeta" -> o.fkMeta # post.fkMeta
          [] f = "owner" -> o.owner # post.owner [] f = "tokOwner" -> o.tokOwner # post.tokOwner
          [] f = "tokSelfId" -> o.tokSelfId # post.tokSelfId [] f = "idcheck" -> pre.idcheck # post.idcheck [] f = "wiring" -> pre.wiring # post.wiring}
Verdict(line, r) ==
    IF line.obs.ok # r.ok THEN "outcome"
    ELSE IF r.ok THEN
        IF r.ret # "unit" /\ r.ret # line.obs.ret THEN "ret"
        ELSE IF ~SameBag(r.ev, Own(line.obs.ev)) THEN "events"
        ELSE IF Diffs(r.post, line.pre, line.post) # {} THEN "state" ELSE ""
    ELSE IF Diffs(r.post, line.pre, line.post) # {} THEN "frame"
    ELSE IF Own(line.obs.ev) # <<>> THEN "frame_events" ELSE ""
InvFailures(s) ==
    (IF NonNegative(s) THEN {} ELSE {"NonNegative"})
    \cup (IF ServiceCanMint(s) THEN {} ELSE {"ServiceCanMint"})
Report(line, r, v, inv) ==
    PrintT(<<"TRES", ToJson([l |-> l, kind |-> v, act |-> line.act,
                             exp |-> [ok |-> r.ok, why |-> r.why, fails |-> r.fails, free |-> r.free, ret |-> r.ret, ev |-> r.ev],
                             spec_ok |-> r.ok, code_ok |-> line.obs.ok,
                             spec |-> IF v = "events" THEN r.ev ELSE IF v = "ret" THEN <<r.ret>> ELSE <<>>,
                             code |-> IF v \in {"events", "frame_events"} THEN line.obs.ev ELSE IF v = "ret" THEN <<line.obs.ret>> ELSE <<>>,
                             diffs |-> {[field |-> f] : f \in Diffs(r.post, line.pre, line.post)}, inv |-> inv, dev |-> r.dev])>>)
Init == l = 2 /\ bad = 0 /\ prev = [none |-> TRUE]
Next ==
    /\ l <= NLines
    /\ LET line == Rec[l] IN
       IF line.reset
       THEN LET wrong == {f \in {"idcheck", "wiring"} :
                            IF f = "idcheck" THEN line.pre.idcheck # "ok" ELSE line.pre.wiring # "ok"} IN
            /\ IF wrong = {} THEN TRUE
               ELSE PrintT(<<"TRES", ToJson([l |-> l, kind |-> "state", act |-> [name |-> "Deploy"],
                                             exp |-> [ok |-> TRUE, why |-> "ok", fails |-> {}, free |-> FALSE, ret |-> "unit", ev |-> <<>>],
                                             spec_ok |-> TRUE, code_ok |-> TRUE, spec |-> <<>>, code |-> <<>>,
                                             diffs |-> {[field |-> f] : f \in wrong}, inv |-> {}, dev |-> "none"])>>)
            /\ bad' = IF wrong = {} THEN bad ELSE bad + 1
       ELSE LET r == Apply(StateOf(line.pre), ActOf(line.act))
                v == Verdict(line, r)
                inv == InvFailures(StateOf(line.post)) \ InvFailures(StateOf(line.pre))   \* newly broken only
                \* a line that is not a step of the code-as-recorded but IS a step of the design means a recorded
                \* deviation no longer reproduces: accepted
                asDesigned == v # "" /\ Verdict(line, ApplyIntended(StateOf(line.pre), ActOf(line.act))) = ""
                accepted == v = "" \/ (r.free /\ v = "outcome") \/ asDesigned
            IN /\ IF accepted /\ inv = {} THEN TRUE ELSE Report(line, r, v, inv)
               /\ IF v = "" /\ r.dev # "none" THEN PrintT(<<"DEV", r.dev, l>>) ELSE TRUE
               /\ bad' = IF accepted /\ inv = {} THEN bad ELSE bad + 1
    \* the log must be continuous: each call starts in the state the previous one ended in
    /\ IF Rec[l].reset \/ "none" \in DOMAIN prev \/ Rec[l].pre = prev THEN TRUE
       ELSE PrintT(<<"DISCONTINUITY", l>>)
    /\ prev' = IF Rec[l].reset THEN Rec[l].pre ELSE Rec[l].post
    /\ l' = l + 1
Accepted ==
    /\ TLCGet("stats").diameter = NLines
    /\ PrintT(<<"TRACE_DONE", NLines - 1, TLCGet("stats").diameter>>)
=============================================================================
