------------------------------ MODULE Gateway ------------------------------
(***************************************************************************)
(* Axelar gateway on Soroban: weighted-multisig auth module, message       *)
(* approval table, outbound call announcement, owner / operator roles.     *)
(*                                                                         *)
(* Style (see DESIGN.md 2.1): the contract state is ONE record `st`; every *)
(* public entry point is a pure operator  Action(st, a)  from a pre-state  *)
(* and an action record (the Rust arguments + `auth`, the set of           *)
(* principals that authorised exactly this call) to a RESULT record        *)
(*   [ok, why, fails, free, ret, ev, post]                                 *)
(*   ok    : the transaction commits (FALSE = error or trap => rollback)   *)
(*   why   : first failing guard in code order, "ok" if none              *)
(*   fails : every failing guard that can be evaluated independently       *)
(*   free  : the property statements leave accept/reject open here; `ok`   *)
(*           is what the present code does ("as coded")                   *)
(*   ret   : returned value as a string ("unit", "true", ...), ev : events *)
(*   post  : state after the call (= st whenever ~ok: host rollback)       *)
(* Hashes are injective constructors: a signer set / message / payload is  *)
(* named by its catalogue key; the binding makes them concrete.            *)
(***************************************************************************)
EXTENDS Naturals, Integers, Sequences, FiniteSets, TLC

CONSTANTS
    Sets,       \* [name -> [keys: Seq(Nat), weights: Seq(Nat), threshold: Nat, nonce: Nat]]
                \*   keys are ranks of Ed25519 public keys; rank 0 = the all-zero key
    Keys,       \* [name -> [chain: STRING, id: STRING]]
    Msgs,       \* [name -> [key: name in Keys, src: STRING, dest: principal, ph: payload name]]
    Cap,        \* weights live on a lattice: concrete = abstract * Q, u128 overflow iff abstract sum > Cap
    Retention,  \* previous_signers_retention
    MinDelay    \* minimum_rotation_delay (abstract time units)

SetNames == DOMAIN Sets
KeyNames == DOMAIN Keys
MsgNames == DOMAIN Msgs

SigTags == {"Valid", "Unsigned", "WrongDomain", "WrongCommand", "WrongData",
            "WrongSet", "WrongKey", "BitFlip"}
Corrupt(t) == t \notin {"Valid", "Unsigned"}

-----------------------------------------------------------------------------
(* helpers *)
RECURSIVE SumSeq(_)
SumSeq(s) == IF s = <<>> THEN 0 ELSE Head(s) + SumSeq(Tail(s))

Rej(st, why, fails) ==
    [ok |-> FALSE, why |-> why, fails |-> fails, free |-> FALSE,
     ret |-> "none", ev |-> <<>>, post |-> st]
Acc(st2, ret, ev) ==
    [ok |-> TRUE, why |-> "ok", fails |-> {}, free |-> FALSE,
     ret |-> ret, ev |-> ev, post |-> st2]

(* validate_signers *)
WellFormed(s) ==
    LET n == Len(s.keys) IN
    /\ n > 0
    /\ Len(s.weights) = n
    /\ s.keys[1] > 0
    /\ \A i \in 1..(n-1) : s.keys[i] < s.keys[i+1]
    /\ \A i \in 1..n : s.weights[i] # 0
    /\ SumSeq(s.weights) <= Cap
    /\ s.threshold # 0
    /\ SumSeq(s.weights) >= s.threshold

(* validate_signatures: ordered loop, verifies every attached signature it  *)
(* meets, checked addition, returns as soon as the threshold is reached.    *)
RECURSIVE SigLoop(_, _, _, _)
SigLoop(s, sigs, i, total) ==
    IF i > Len(sigs) THEN "threshold_not_met"
    ELSE IF sigs[i] = "Unsigned" THEN SigLoop(s, sigs, i + 1, total)
    ELSE IF Corrupt(sigs[i]) THEN "bad_signature"
    ELSE IF total + s.weights[i] > Cap THEN "weight_overflow"
    ELSE IF total + s.weights[i] >= s.threshold THEN "ok"
    ELSE SigLoop(s, sigs, i + 1, total + s.weights[i])

ValidWeight(s, sigs) ==
    LET idx == {i \in 1..Len(sigs) : sigs[i] = "Valid"} IN
    LET RECURSIVE Sm(_)
        Sm(S) == IF S = {} THEN 0 ELSE LET x == CHOOSE y \in S : TRUE IN s.weights[x] + Sm(S \ {x})
    IN Sm(idx)

HasCorrupt(sigs) == \E i \in 1..Len(sigs) : Corrupt(sigs[i])

(* validate_proof: [ok, why, latest, free]                                  *)
(* p = [set |-> declared set name, sigs |-> Seq(SigTags)], tags are relative *)
(* to the digest (domain, H(declared set), data of THIS call).               *)
ValidateProof(st, p) ==
    LET s == Sets[p.set]
        e == st.epochOf[p.set] IN
    IF e = 0 THEN [ok |-> FALSE, why |-> "set_known", latest |-> FALSE, free |-> FALSE]
    ELSE IF st.epoch - e > Retention
         THEN [ok |-> FALSE, why |-> "retention", latest |-> FALSE, free |-> FALSE]
    ELSE LET r == SigLoop(s, p.sigs, 1, 0)
             \* the statements leave open what happens to a proof that has enough
             \* valid weight AND carries a corrupt signature (early exit vs verify-all)
             open == HasCorrupt(p.sigs) /\ ValidWeight(s, p.sigs) >= s.threshold
         IN [ok |-> r = "ok", why |-> IF r = "ok" THEN "ok" ELSE "signatures",
             latest |-> e = st.epoch, free |-> open]

-----------------------------------------------------------------------------
(* approve_messages(messages, proof) *)
RECURSIVE ApproveFold(_, _, _)
ApproveFold(status, msgs, ev) ==
    IF msgs = <<>> THEN [status |-> status, ev |-> ev]
    ELSE LET m == Head(msgs)  k == Msgs[m].key IN
         IF status[k] = "none"
         THEN ApproveFold([status EXCEPT ![k] = m], Tail(msgs),
                          Append(ev, [k |-> "message_approved", msg |-> m]))
         ELSE ApproveFold(status, Tail(msgs), ev)

ApproveMessages(st, a) ==
    LET vp == ValidateProof(st, a.proof) IN
    IF ~vp.ok THEN [Rej(st, vp.why, {vp.why}) EXCEPT !.free = vp.free]
    ELSE IF a.msgs = <<>>
         \* rejected today; a no-op would satisfy the statements as well
         THEN [Rej(st, "nonempty_batch", {"nonempty_batch"}) EXCEPT !.free = TRUE]
    ELSE LET f == ApproveFold(st.status, a.msgs, <<>>) IN
         [Acc([st EXCEPT !.status = f.status], "unit", f.ev) EXCEPT !.free = vp.free]

(* validate_proof(data_hash, proof) as a standalone query *)
ValidateProofQuery(st, a) ==
    LET vp == ValidateProof(st, a.proof) IN
    IF ~vp.ok THEN [Rej(st, vp.why, {vp.why}) EXCEPT !.free = vp.free]
    ELSE [Acc(st, IF vp.latest THEN "true" ELSE "false", <<>>) EXCEPT !.free = vp.free]

(* rotate_signers(signers, proof, bypass_rotation_delay) *)
RotateGuards(st, a, vp) ==
    (IF a.bypass /\ st.operator \notin a.auth THEN {"operator_auth"} ELSE {})
    \cup (IF ~vp.ok THEN {vp.why} ELSE {})
    \cup (IF vp.ok /\ ~a.bypass /\ ~vp.latest THEN {"latest_or_bypass"} ELSE {})
    \cup (IF ~WellFormed(Sets[a.new]) THEN {"wellformed"} ELSE {})
    \cup (IF ~a.bypass /\ st.now - st.lastRot < MinDelay THEN {"delay"} ELSE {})
    \cup (IF st.epochOf[a.new] # 0 THEN {"duplicate"} ELSE {})

GuardOrder == <<"operator_auth", "set_known", "retention", "signatures",
                "latest_or_bypass", "wellformed", "delay", "duplicate">>
FirstOf(fails) ==
    LET i == CHOOSE j \in 1..Len(GuardOrder) :
                 GuardOrder[j] \in fails /\ \A k \in 1..(j-1) : GuardOrder[k] \notin fails
    IN GuardOrder[i]

Install(st, new) ==
    [st EXCEPT !.epoch = st.epoch + 1,
               !.hashByEpoch = Append(st.hashByEpoch, new),
               !.epochOf = [st.epochOf EXCEPT ![new] = st.epoch + 1],
               !.lastRot = st.now]

RotateSigners(st, a) ==
    LET vp == ValidateProof(st, a.proof)
        fails == RotateGuards(st, a, vp) IN
    IF fails # {} THEN [Rej(st, FirstOf(fails), fails) EXCEPT !.free = vp.free /\ fails = {"signatures"}]
    ELSE [Acc(Install(st, a.new), "unit",
              <<[k |-> "signers_rotated", epoch |-> st.epoch + 1, set |-> a.new]>>)
          EXCEPT !.free = vp.free]

(* validate_message(caller, source_chain, message_id, source_address, payload_hash) *)
(* a.via = "direct": root invocation, the caller must be in auth;            *)
(* a.via = "self"  : the caller is the contract making the call (implicit).  *)
NamedAuth(a, who) == who \in a.auth \/ a.via = "self"

ValidateMessage(st, a) ==
    IF ~NamedAuth(a, a.caller) THEN Rej(st, "named_auth", {"named_auth"})
    ELSE LET cur == st.status[a.key] IN
         IF /\ cur \in MsgNames
            /\ Msgs[cur].src = a.src /\ Msgs[cur].dest = a.caller /\ Msgs[cur].ph = a.ph
         THEN Acc([st EXCEPT !.status[a.key] = "executed",
                             !.execCount[a.key] = @ + 1],
                  "true", <<[k |-> "message_executed", msg |-> cur]>>)
         ELSE Acc(st, "false", <<>>)

(* call_contract(caller, destination_chain, destination_address, payload) *)
CallContract(st, a) ==
    IF ~NamedAuth(a, a.caller) THEN Rej(st, "named_auth", {"named_auth"})
    ELSE LET n == IF "times" \in DOMAIN a THEN a.times ELSE 1      \* the same call made n times in one transaction
             e == [k |-> "contract_called", caller |-> a.caller, chain |-> a.chain,
                   addr |-> a.addr, payload |-> a.payload, ph |-> a.payload]
         IN Acc(st, "unit", [i \in 1..n |-> e])                     \* every call is announced, also a repeated one

(* An application behind the executable interface (contracts/example, or any app using
   AxelarExecutableInterface::validate_message): execute(source_chain, message_id, source_address,
   payload) consumes the approval for itself and only then performs its effect. *)
AppExecute(st, a) ==
    LET vm == ValidateMessage(st, [caller |-> a.app, key |-> a.key, src |-> a.src, ph |-> a.payload,
                                   via |-> "self", auth |-> {}]) IN
    IF vm.ret = "true"
    THEN Acc(vm.post, "unit",
             vm.ev \o <<[k |-> "app_executed", app |-> a.app, key |-> a.key, src |-> a.src, payload |-> a.payload]>>)
    ELSE Rej(st, "approved", {"approved"})

(* Ownable / Operatable (derived) *)
TransferOwnership(st, a) ==
    IF st.owner \notin a.auth THEN Rej(st, "role_auth", {"role_auth"})
    ELSE Acc([st EXCEPT !.owner = a.new], "unit",
             <<[k |-> "ownership_transferred", prev |-> st.owner, new |-> a.new]>>)

TransferOperatorship(st, a) ==
    IF st.operator \notin a.auth THEN Rej(st, "role_auth", {"role_auth"})
    ELSE Acc([st EXCEPT !.operator = a.new], "unit",
             <<[k |-> "operatorship_transferred", prev |-> st.operator, new |-> a.new]>>)

(* ledger time passing: not a contract call *)
Tick(st, a) == Acc([st EXCEPT !.now = st.now + a.dt], "unit", <<>>)

-----------------------------------------------------------------------------
(* construction: __constructor(owner, operator, domain, min_delay, retention, initial_signers) *)
RECURSIVE ConstructFold(_, _, _)
ConstructFold(st, sets, ev) ==
    IF sets = <<>> THEN [ok |-> TRUE, st |-> st, ev |-> ev, why |-> "ok"]
    ELSE LET s == Head(sets) IN
         IF ~WellFormed(Sets[s]) THEN [ok |-> FALSE, st |-> st, ev |-> ev, why |-> "wellformed"]
         ELSE IF st.epochOf[s] # 0 THEN [ok |-> FALSE, st |-> st, ev |-> ev, why |-> "duplicate"]
         ELSE ConstructFold(Install(st, s), Tail(sets),
                  Append(ev, [k |-> "signers_rotated", epoch |-> st.epoch + 1, set |-> s]))

Blank(owner, operator, now) ==
    [deployed |-> FALSE, epoch |-> 0, hashByEpoch |-> <<>>,
     epochOf |-> [s \in SetNames |-> 0], lastRot |-> 0, now |-> now,
     status |-> [k \in KeyNames |-> "none"], execCount |-> [k \in KeyNames |-> 0],
     owner |-> owner, operator |-> operator,
     hist |-> <<>>]   \* ghost: instances may record the route taken (history-sensitive coverage)

Construct(st, a) ==
    IF a.sets = <<>> THEN Rej(st, "nonempty_list", {"nonempty_list"})
    ELSE LET f == ConstructFold(st, a.sets, <<>>) IN
         IF ~f.ok THEN Rej(st, f.why, {f.why})
         ELSE Acc([f.st EXCEPT !.deployed = TRUE], "unit", f.ev)

-----------------------------------------------------------------------------
(* verification hook (harness only, never a contract entry point): the Upgradable interface's migration window is
   opened without swapping code.  The window belongs to another interface: nothing in this module may depend on it *)
Apply(st, a) ==
    CASE a.name = "Construct"            -> Construct(st, a)
      [] a.name = "ApproveMessages"      -> ApproveMessages(st, a)
      [] a.name = "ValidateProof"        -> ValidateProofQuery(st, a)
      [] a.name = "RotateSigners"        -> RotateSigners(st, a)
      [] a.name = "ValidateMessage"      -> ValidateMessage(st, a)
      [] a.name = "CallContract"         -> CallContract(st, a)
      [] a.name = "AppExecute"           -> AppExecute(st, a)
      [] a.name = "TransferOwnership"    -> TransferOwnership(st, a)
      [] a.name = "TransferOperatorship" -> TransferOperatorship(st, a)
      [] a.name = "Tick"                 -> Tick(st, a)
      [] a.name = "HookOpenWindow"      -> Acc(st, "unit", <<>>)

-----------------------------------------------------------------------------
(* state invariants of the design (checked by every instance) *)
StatusRank(x) == IF x = "none" THEN 0 ELSE IF x = "executed" THEN 2 ELSE 1

TypeOK(st) ==
    /\ st.epoch = Len(st.hashByEpoch)
    /\ \A k \in KeyNames : st.status[k] \in {"none", "executed"} \cup {m \in MsgNames : Msgs[m].key = k}
    /\ st.lastRot <= st.now

(* C03: lookups are mutually inverse over exactly the installed epochs, and
   every installed set is well-formed and installed once *)
LookupsInverse(st) ==
    /\ \A e \in 1..st.epoch : st.epochOf[st.hashByEpoch[e]] = e
    /\ \A s \in SetNames : st.epochOf[s] # 0 =>
           st.epochOf[s] \in 1..st.epoch /\ st.hashByEpoch[st.epochOf[s]] = s
InstalledWellFormed(st) == \A e \in 1..st.epoch : WellFormed(Sets[st.hashByEpoch[e]])

(* C02: a message is consumed at most once *)
ExecOnce(st) == \A k \in KeyNames :
    /\ st.execCount[k] <= 1
    /\ (st.execCount[k] = 1) <=> (st.status[k] = "executed")

=============================================================================
